package runtime

import _ "unsafe"

// verif: controlled map-iteration start (overlay-only; never part of a normal build).
// mode 0 = runtime default (random start); 1 = every iteration starts at 0 except the target
// site, which starts at alt; 2 = every site starts at alt.

var verifMapMode uint32
var verifMapTarget uintptr
var verifMapAlt uintptr
var verifMapSites [8192]uintptr
var verifMapCounts [8192]uint32
var verifMapNSites uint32

func verifMapPick(pc uintptr, r uintptr) uintptr {
	if verifMapMode == 0 {
		return r
	}
	n := verifMapNSites
	idx := -1
	for i := uint32(0); i < n && i < uint32(len(verifMapSites)); i++ {
		if verifMapSites[i] == pc {
			idx = int(i)
			break
		}
	}
	if idx < 0 && n < uint32(len(verifMapSites)) {
		verifMapSites[n] = pc
		idx = int(n)
		verifMapNSites = n + 1
	}
	if idx >= 0 {
		verifMapCounts[idx]++
	}
	if verifMapMode == 2 || pc == verifMapTarget {
		return verifMapAlt
	}
	return 0
}

//go:linkname verifMapSet
func verifMapSet(mode uint32, target uintptr, alt uintptr) {
	verifMapMode = mode
	verifMapTarget = target
	verifMapAlt = alt
}

//go:linkname verifMapReset
func verifMapReset() {
	verifMapNSites = 0
	for i := range verifMapCounts {
		verifMapCounts[i] = 0
	}
}

//go:linkname verifMapSitesCopy
func verifMapSitesCopy() ([]uintptr, []uint32) {
	n := verifMapNSites
	out := make([]uintptr, n)
	cnt := make([]uint32, n)
	copy(out, verifMapSites[:n])
	copy(cnt, verifMapCounts[:n])
	return out, cnt
}
