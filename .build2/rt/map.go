// Copyright 2014 The Go Authors. All rights reserved.
// Use of this source code is governed by a BSD-style
// license that can be found in the LICENSE file.

package runtime

// This file contains the implementation of Go's map type.
//
// A map is just a hash table. The data is arranged
// into an array of buckets. Each bucket contains up to
// 8 key/elem pairs. The low-order bits of the hash are
// used to select a bucket. Each bucket contains a few
// high-order bits of each hash to distinguish the entries
// within a single bucket.
//
// If more than 8 keys hash to a bucket, we chain on
// extra buckets.
//
// When the hashtable grows, we allocate a new array
// of buckets twice as big. Buckets are incrementally
// copied from the old bucket array to the new bucket array.
//
// Map iterators walk through the array of buckets and
// return the keys in walk order (bucket #, then overflow
// chain order, then bucket index).  To maintain iteration
// semantics, we never move keys within their bucket (if
// we did, keys might be returned 0 or 2 times).  When
// growing the table, iterators remain iterating through the
// old table and must check the new table if the bucket
// they are iterating through has been moved ("evacuated")
// to the new table.

// Picking loadFactor: too large and we have lots of overflow
// buckets, too small and we waste a lot of space. I wrote
// a simple program to check some stats for different loads:
// (64-bit, 8 byte keys and elems)
//  loadFactor    %overflow  bytes/entry     hitprobe    missprobe
//        4.00         2.13        20.77         3.00         4.00
//        4.50         4.05        17.30         3.25         4.50
//        5.00         6.85        14.77         3.50         5.00
//        5.50        10.55        12.94         3.75         5.50
//        6.00        15.27        11.67         4.00         6.00
//        6.50        20.90        10.79         4.25         6.50
//        7.00        27.14        10.15         4.50         7.00
//        7.50        34.03         9.73         4.75         7.50
//        8.00        41.10         9.40         5.00         8.00
//
// %overflow   = percentage of buckets which have an overflow bucket
// bytes/entry = overhead bytes used per key/elem pair
// hitprobe    = # of entries to check when looking up a present key
// missprobe   = # of entries to check when looking up an absent key
//
// Keep in mind this data is for maximally loaded tables, i.e. just
// before the table grows. Typical tables will be somewhat less loaded.

import (
	"internal/abi"
	"internal/goarch"
	"internal/runtime/atomic"
	"runtime/internal/math"
	"unsafe"
)

const (
	// Maximum number of key/elem pairs a bucket can hold.
	bucketCntBits = abi.MapBucketCountBits

	// Maximum average load of a bucket that triggers growth is bucketCnt*13/16 (about 80% full)
	// Because of minimum alignment rules, bucketCnt is known to be at least 8.
	// Represent as loadFactorNum/loadFactorDen, to allow integer math.
	loadFactorDen = 2
	loadFactorNum = loadFactorDen * abi.MapBucketCount * 13 / 16

	// data offset should be the size of the bmap struct, but needs to be
	// aligned correctly. For amd64p32 this means 64-bit alignment
	// even though pointers are 32 bit.
	dataOffset = unsafe.Offsetof(struct {
		b bmap
		v int64
	}{}.v)

	// Possible tophash values. We reserve a few possibilities for special marks.
	// Each bucket (including its overflow buckets, if any) will have either all or none of its
	// entries in the evacuated* states (except during the evacuate() method, which only happens
	// during map writes and thus no one else can observe the map during that time).
	emptyRest      = 0 // this cell is empty, and there are no more non-empty cells at higher indexes or overflows.
	emptyOne       = 1 // this cell is empty
	evacuatedX     = 2 // key/elem is valid.  Entry has been evacuated to first half of larger table.
	evacuatedY     = 3 // same as above, but evacuated to second half of larger table.
	evacuatedEmpty = 4 // cell is empty, bucket is evacuated.
	minTopHash     = 5 // minimum tophash for a normal filled cell.

	// flags
	iterator     = 1 // there may be an iterator using buckets
	oldIterator  = 2 // there may be an iterator using oldbuckets
	hashWriting  = 4 // a goroutine is writing to the map
	sameSizeGrow = 8 // the current map growth is to a new map of the same size

	// sentinel bucket ID for iterator checks
	noCheck = 1<<(8*goarch.PtrSize) - 1
)

// isEmpty reports whether the given tophash array entry represents an empty bucket entry.
func isEmpty(x uint8) bool {
	return x <= emptyOne
}

// A header for a Go map.
type hmap struct {
	// Note: the format of the hmap is also encoded in cmd/compile/internal/reflectdata/reflect.go.
	// Make sure this stays in sync with the compiler's definition.
	count     int // # live cells == size of map.  Must be first (used by len() builtin)
	flags     uint8
	B         uint8  // log_2 of # of buckets (can hold up to loadFactor * 2^B items)
	noverflow uint16 // approximate number of overflow buckets; see incrnoverflow for details
	hash0     uint32 // hash seed

	buckets    unsafe.Pointer // array of 2^B Buckets. may be nil if count==0.
	oldbuckets unsafe.Pointer // previous bucket array of half the size, non-nil only when growing
	nevacuate  uintptr        // progress counter for evacuation (buckets less than this have been evacuated)

	extra *mapextra // optional fields
}

// mapextra holds fields that are not present on all maps.
type mapextra struct {
	// If both key and elem do not contain pointers and are inline, then we mark bucket
	// type as containing no pointers. This avoids scanning such maps.
	// However, bmap.overflow is a pointer. In order to keep overflow buckets
	// alive, we store pointers to all overflow buckets in hmap.extra.overflow and hmap.extra.oldoverflow.
	// overflow and oldoverflow are only used if key and elem do not contain pointers.
	// overflow contains overflow buckets for hmap.buckets.
	// oldoverflow contains overflow buckets for hmap.oldbuckets.
	// The indirection allows to store a pointer to the slice in hiter.
	overflow    *[]*bmap
	oldoverflow *[]*bmap

	// nextOverflow holds a pointer to a free overflow bucket.
	nextOverflow *bmap
}

// A bucket for a Go map.
type bmap struct {
	// tophash generally contains the top byte of the hash value
	// for each key in this bucket. If tophash[0] < minTopHash,
	// tophash[0] is a bucket evacuation state instead.
	tophash [abi.MapBucketCount]uint8
	// Followed by bucketCnt keys and then bucketCnt elems.
	// NOTE: packing all the keys together and then all the elems together makes the
	// code a bit more complicated than alternating key/elem/key/elem/... but it allows
	// us to eliminate padding which would be needed for, e.g., map[int64]int8.
	// Followed by an overflow pointer.
}

// A hash iteration structure.
// If you modify hiter, also change cmd/compile/internal/reflectdata/reflect.go
// and reflect/value.go to match the layout of this structure.
type hiter struct {
	key         unsafe.Pointer // Must be in first position.  Write nil to indicate iteration end (see cmd/compile/internal/walk/range.go).
	elem        unsafe.Pointer // Must be in second position (see cmd/compile/internal/walk/range.go).
	t           *maptype
	h           *hmap
	buckets     unsafe.Pointer // bucket ptr at hash_iter initialization time
	bptr        *bmap          // current bucket
	overflow    *[]*bmap       // keeps overflow buckets of hmap.buckets alive
	oldoverflow *[]*bmap       // keeps overflow buckets of hmap.oldbuckets alive
	startBucket uintptr        // bucket iteration started at
	offset      uint8          // intra-bucket offset to start from during iteration (should be big enough to hold bucketCnt-1)
	wrapped     bool           // already wrapped around from end of bucket array to beginning
	B           uint8
	i           uint8
	bucket      uintptr
	checkBucket uintptr
}

// bucketShift returns 1<<b, optimized for code generation.
func bucketShift(b uint8) uintptr {
	// Masking the shift amount allows overflow checks to be elided.
	return uintptr(1) << (b & (goarch.PtrSize*8 - 1))
}

// bucketMask returns 1<<b - 1, optimized for code generation.
func bucketMask(b uint8) uintptr {
	return bucketShift(b) - 1
}

// tophash calculates the tophash value for hash.
func tophash(hash uintptr) uint8 {
	top := uint8(hash >> (goarch.PtrSize*8 - 8))
	if top < minTopHash {
		top += minTopHash
	}
	return top
}

func evacuated(b *bmap) bool {
	h := b.tophash[0]
	return h > emptyOne && h < minTopHash
}

func (b *bmap) overflow(t *maptype) *bmap {
	return *(**bmap)(add(unsafe.Pointer(b), uintptr(t.BucketSize)-goarch.PtrSize))
}

func (b *bmap) setoverflow(t *maptype, ovf *bmap) {
	*(**bmap)(add(unsafe.Pointer(b), uintptr(t.BucketSize)-goarch.PtrSize)) = ovf
}

func (b *bmap) keys() unsafe.Pointer {
	return add(unsafe.Pointer(b), dataOffset)
}

// incrnoverflow increments h.noverflow.
// noverflow counts the number of overflow buckets.
// This is used to trigger same-size map growth.
// See also tooManyOverflowBuckets.
// To keep hmap small, noverflow is a uint16.
// When there are few buckets, noverflow is an exact count.
// When there are many buckets, noverflow is an approximate count.
func (h *hmap) incrnoverflow() {
	// We trigger same-size map growth if there are
	// as many overflow buckets as buckets.
	// We need to be able to count to 1<<h.B.
	if h.B < 16 {
		h.noverflow++
		return
	}
	// Increment with probability 1/(1<<(h.B-15)).
	// When we reach 1<<15 - 1, we will have approximately
	// as many overflow buckets as buckets.
	mask := uint32(1)<<(h.B-15) - 1
	// Example: if h.B == 18, then mask == 7,
	// and rand() & 7 == 0 with probability 1/8.
	if uint32(rand())&mask == 0 {
		h.noverflow++
	}
}

func (h *hmap) newoverflow(t *maptype, b *bmap) *bmap {
	var ovf *bmap
	if h.extra != nil && h.extra.nextOverflow != nil {
		// We have preallocated overflow buckets available.
		// See makeBucketArray for more details.
		ovf = h.extra.nextOverflow
		if ovf.overflow(t) == nil {
			// We're not at the end of the preallocated overflow buckets. Bump the pointer.
			h.extra.nextOverflow = (*bmap)(add(unsafe.Pointer(ovf), uintptr(t.BucketSize)))
		} else {
			// This is the last preallocated overflow bucket.
			// Reset the overflow pointer on this bucket,
			// which was set to a non-nil sentinel value.
			ovf.setoverflow(t, nil)
			h.extra.nextOverflow = nil
		}
	} else {
		ovf = (*bmap)(newobject(t.Bucket))
	}
	h.incrnoverflow()
	if !t.Bucket.Pointers() {
		h.createOverflow()
		*h.extra.overflow = append(*h.extra.overflow, ovf)
	}
	b.setoverflow(t, ovf)
	return ovf
}

func (h *hmap) createOverflow() {
	if h.extra == nil {
		h.extra = new(mapextra)
	}
	if h.extra.overflow == nil {
		h.extra.overflow = new([]*bmap)
	}
}

func makemap64(t *maptype, hint int64, h *hmap) *hmap {
	if int64(int(hint)) != hint {
		hint = 0
	}
	return makemap(t, int(hint), h)
}

// makemap_small implements Go map creation for make(map[k]v) and
// make(map[k]v, hint) when hint is known to be at most bucketCnt
// at compile time and the map needs to be allocated on the heap.
//
// makemap_small should be an internal detail,
// but widely used packages access it using linkname.
// Notable members of the hall of shame include:
//   - github.com/bytedance/sonic
//
// Do not remove or change the type signature.
// See go.dev/issue/67401.
//
//go:linkname makemap_small
func makemap_small() *hmap {
	h := new(hmap)
	h.hash0 = uint32(rand())
	return h
}

// makemap implements Go map creation for make(map[k]v, hint).
// If the compiler has determined that the map or the first bucket
// can be created on the stack, h and/or bucket may be non-nil.
// If h != nil, the map can be created directly in h.
// If h.buckets != nil, bucket pointed to can be used as the first bucket.
//
// makemap should be an internal detail,
// but widely used packages access it using linkname.
// Notable members of the hall of shame include:
//   - github.com/cloudwego/frugal
//   - github.com/ugorji/go/codec
//
// Do not remove or change the type signature.
// See go.dev/issue/67401.
//
//go:linkname makemap
func makemap(t *maptype, hint int, h *hmap) *hmap {
	mem, overflow := math.MulUintptr(uintptr(hint), t.Bucket.Size_)
	if overflow || mem > maxAlloc {
		hint = 0
	}

	// initialize Hmap
	if h == nil {
		h = new(hmap)
	}
	h.hash0 = uint32(rand())

	// Find the size parameter B which will hold the requested # of elements.
	// For hint < 0 overLoadFactor returns false since hint < bucketCnt.
	B := uint8(0)
	for overLoadFactor(hint, B) {
		B++
	}
	h.B = B

	// allocate initial hash table
	// if B == 0, the buckets field is allocated lazily later (in mapassign)
	// If hint is large zeroing this memory could take a while.
	if h.B != 0 {
		var nextOverflow *bmap
		h.buckets, nextOverflow = makeBucketArray(t, h.B, nil)
		if nextOverflow != nil {
			h.extra = new(mapextra)
			h.extra.nextOverflow = nextOverflow
		}
	}

	return h
}

// makeBucketArray initializes a backing array for map buckets.
// 1<<b is the minimum number of buckets to allocate.
// dirtyalloc should either be nil or a bucket array previously
// allocated by makeBucketArray with the same t and b parameters.
// If dirtyalloc is nil a new backing array will be alloced and
// otherwise dirtyalloc will be cleared and reused as backing array.
func makeBucketArray(t *maptype, b uint8, dirtyalloc unsafe.Pointer) (buckets unsafe.Pointer, nextOverflow *bmap) {
	base := bucketShift(b)
	nbuckets := base
	// For small b, overflow buckets are unlikely.
	// Avoid the overhead of the calculation.
	if b >= 4 {
		// Add on the estimated number of overflow buckets
		// required to insert the median number of elements
		// used with this value of b.
		nbuckets += bucketShift(b - 4)
		sz := t.Bucket.Size_ * nbuckets
		up := roundupsize(sz, !t.Bucket.Pointers())
		if up != sz {
			nbuckets = up / t.Bucket.Size_
		}
	}

	if dirtyalloc == nil {
		buckets = newarray(t.Bucket, int(nbuckets))
	} else {
		// dirtyalloc was previously generated by
		// the above newarray(t.Bucket, int(nbuckets))
		// but may not be empty.
		buckets = dirtyalloc
		size := t.Bucket.Size_ * nbuckets
		if t.Bucket.Pointers() {
			memclrHasPointers(buckets, size)
		} else {
			memclrNoHeapPointers(buckets, size)
		}
	}

	if base != nbuckets {
		// We preallocated some overflow buckets.
		// To keep the overhead of tracking these overflow buckets to a minimum,
		// we use the convention that if a preallocated overflow bucket's overflow
		// pointer is nil, then there are more available by bumping the pointer.
		// We need a safe non-nil pointer for the last overflow bucket; just use buckets.
		nextOverflow = (*bmap)(add(buckets, base*uintptr(t.BucketSize)))
		last := (*bmap)(add(buckets, (nbuckets-1)*uintptr(t.BucketSize)))
		last.setoverflow(t, (*bmap)(buckets))
	}
	return buckets, nextOverflow
}

// mapaccess1 returns a pointer to h[key].  Never returns nil, instead
// it will return a reference to the zero object for the elem type if
// the key is not in the map.
// NOTE: The returned pointer may keep the whole map live, so don't
// hold onto it for very long.
func mapaccess1(t *maptype, h *hmap, key unsafe.Pointer) unsafe.Pointer {
	if raceenabled && h != nil {
		callerpc := getcallerpc()
		pc := abi.FuncPCABIInternal(mapaccess1)
		racereadpc(unsafe.Pointer(h), callerpc, pc)
		raceReadObjectPC(t.Key, key, callerpc, pc)
	}
	if msanenabled && h != nil {
		msanread(key, t.Key.Size_)
	}
	if asanenabled && h != nil {
		asanread(key, t.Key.Size_)
	}
	if h == nil || h.count == 0 {
		if err := mapKeyError(t, key); err != nil {
			panic(err) // see issue 23734
		}
		return unsafe.Pointer(&zeroVal[0])
	}
	if h.flags&hashWriting != 0 {
		fatal("concurrent map read and map write")
	}
	hash := t.Hasher(key, uintptr(h.hash0))
	m := bucketMask(h.B)
	b := (*bmap)(add(h.buckets, (hash&m)*uintptr(t.BucketSize)))
	if c := h.oldbuckets; c != nil {
		if !h.sameSizeGrow() {
			// There used to be half as many buckets; mask down one more power of two.
			m >>= 1
		}
		oldb := (*bmap)(add(c, (hash&m)*uintptr(t.BucketSize)))
		if !evacuated(oldb) {
			b = oldb
		}
	}
	top := tophash(hash)
bucketloop:
	for ; b != nil; b = b.overflow(t) {
		for i := uintptr(0); i < abi.MapBucketCount; i++ {
			if b.tophash[i] != top {
				if b.tophash[i] == emptyRest {
					break bucketloop
				}
				continue
			}
			k := add(unsafe.Pointer(b), dataOffset+i*uintptr(t.KeySize))
			if t.IndirectKey() {
				k = *((*unsafe.Pointer)(k))
			}
			if t.Key.Equal(key, k) {
				e := add(unsafe.Pointer(b), dataOffset+abi.MapBucketCount*uintptr(t.KeySize)+i*uintptr(t.ValueSize))
				if t.IndirectElem() {
					e = *((*unsafe.Pointer)(e))
				}
				return e
			}
		}
	}
	return unsafe.Pointer(&zeroVal[0])
}

// mapaccess2 should be an internal detail,
// but widely used packages access it using linkname.
// Notable members of the hall of shame include:
//   - github.com/ugorji/go/codec
//
// Do not remove or change the type signature.
// See go.dev/issue/67401.
//
//go:linkname mapaccess2
func mapaccess2(t *maptype, h *hmap, key unsafe.Pointer) (unsafe.Pointer, bool) {
	if raceenabled && h != nil {
		callerpc := getcallerpc()
		pc := abi.FuncPCABIInternal(mapaccess2)
		racereadpc(unsafe.Pointer(h), callerpc, pc)
		raceReadObjectPC(t.Key, key, callerpc, pc)
	}
	if msanenabled && h != nil {
		msanread(key, t.Key.Size_)
	}
	if asanenabled && h != nil {
		asanread(key, t.Key.Size_)
	}
	if h == nil || h.count == 0 {
		if err := mapKeyError(t, key); err != nil {
			panic(err) // see issue 23734
		}
		return unsafe.Pointer(&zeroVal[0]), false
	}
	if h.flags&hashWriting != 0 {
		fatal("concurrent map read and map write")
	}
	hash := t.Hasher(key, uintptr(h.hash0))
	m := bucketMask(h.B)
	b := (*bmap)(add(h.buckets, (hash&m)*uintptr(t.BucketSize)))
	if c := h.oldbuckets; c != nil {
		if !h.sameSizeGrow() {
			// There used to be half as many buckets; mask down one more power of two.
			m >>= 1
		}
		oldb := (*bmap)(add(c, (hash&m)*uintptr(t.BucketSize)))
		if !evacuated(oldb) {
			b = oldb
		}
	}
	top := tophash(hash)
bucketloop:
	for ; b != nil; b = b.overflow(t) {
		for i := uintptr(0); i < abi.MapBucketCount; i++ {
			if b.tophash[i] != top {
				if b.tophash[i] == emptyRest {
					break bucketloop
				}
				continue
			}
			k := add(unsafe.Pointer(b), dataOffset+i*uintptr(t.KeySize))
			if t.IndirectKey() {
				k = *((*unsafe.Pointer)(k))
			}
			if t.Key.Equal(key, k) {
				e := add(unsafe.Pointer(b), dataOffset+abi.MapBucketCount*uintptr(t.KeySize)+i*uintptr(t.ValueSize))
				if t.IndirectElem() {
					e = *((*unsafe.Pointer)(e))
				}
				return e, true
			}
		}
	}
	return unsafe.Pointer(&zeroVal[0]), false
}

// returns both key and elem. Used by map iterator.
func mapaccessK(t *maptype, h *hmap, key unsafe.Pointer) (unsafe.Pointer, unsafe.Pointer) {
	if h == nil || h.count == 0 {
		return nil, nil
	}
	hash := t.Hasher(key, uintptr(h.hash0))
	m := bucketMask(h.B)
	b := (*bmap)(add(h.buckets, (hash&m)*uintptr(t.BucketSize)))
	if c := h.oldbuckets; c != nil {
		if !h.sameSizeGrow() {
			// There used to be half as many buckets; mask down one more power of two.
			m >>= 1
		}
		oldb := (*bmap)(add(c, (hash&m)*uintptr(t.BucketSize)))
		if !evacuated(oldb) {
			b = oldb
		}
	}
	top := tophash(hash)
bucketloop:
	for ; b != nil; b = b.overflow(t) {
		for i := uintptr(0); i < abi.MapBucketCount; i++ {
			if b.tophash[i] != top {
				if b.tophash[i] == emptyRest {
					break bucketloop
				}
				continue
			}
			k := add(unsafe.Pointer(b), dataOffset+i*uintptr(t.KeySize))
			if t.IndirectKey() {
				k = *((*unsafe.Pointer)(k))
			}
			if t.Key.Equal(key, k) {
				e := add(unsafe.Pointer(b), dataOffset+abi.MapBucketCount*uintptr(t.KeySize)+i*uintptr(t.ValueSize))
				if t.IndirectElem() {
					e = *((*unsafe.Pointer)(e))
				}
				return k, e
			}
		}
	}
	return nil, nil
}

func mapaccess1_fat(t *maptype, h *hmap, key, zero unsafe.Pointer) unsafe.Pointer {
	e := mapaccess1(t, h, key)
	if e == unsafe.Pointer(&zeroVal[0]) {
		return zero
	}
	return e
}

func mapaccess2_fat(t *maptype, h *hmap, key, zero unsafe.Pointer) (unsafe.Pointer, bool) {
	e := mapaccess1(t, h, key)
	if e == unsafe.Pointer(&zeroVal[0]) {
		return zero, false
	}
	return e, true
}

// Like mapaccess, but allocates a slot for the key if it is not present in the map.
//
// mapassign should be an internal detail,
// but widely used packages access it using linkname.
// Notable members of the hall of shame include:
//   - github.com/bytedance/sonic
//   - github.com/cloudwego/frugal
//   - github.com/RomiChan/protobuf
//   - github.com/segmentio/encoding
//   - github.com/ugorji/go/codec
//
// Do not remove or change the type signature.
// See go.dev/issue/67401.
//
//go:linkname mapassign
func mapassign(t *maptype, h *hmap, key unsafe.Pointer) unsafe.Pointer {
	if h == nil {
		panic(plainError("assignment to entry in nil map"))
	}
	if raceenabled {
		callerpc := getcallerpc()
		pc := abi.FuncPCABIInternal(mapassign)
		racewritepc(unsafe.Pointer(h), callerpc, pc)
		raceReadObjectPC(t.Key, key, callerpc, pc)
	}
	if msanenabled {
		msanread(key, t.Key.Size_)
	}
	if asanenabled {
		asanread(key, t.Key.Size_)
	}
	if h.flags&hashWriting != 0 {
		fatal("concurrent map writes")
	}
	hash := t.Hasher(key, uintptr(h.hash0))

	// Set hashWriting after calling t.hasher, since t.hasher may panic,
	// in which case we have not actually done a write.
	h.flags ^= hashWriting

	if h.buckets == nil {
		h.buckets = newobject(t.Bucket) // newarray(t.Bucket, 1)
	}

again:
	bucket := hash & bucketMask(h.B)
	if h.growing() {
		growWork(t, h, bucket)
	}
	b := (*bmap)(add(h.buckets, bucket*uintptr(t.BucketSize)))
	top := tophash(hash)

	var inserti *uint8
	var insertk unsafe.Pointer
	var elem unsafe.Pointer
bucketloop:
	for {
		for i := uintptr(0); i < abi.MapBucketCount; i++ {
			if b.tophash[i] != top {
				if isEmpty(b.tophash[i]) && inserti == nil {
					inserti = &b.tophash[i]
					insertk = add(unsafe.Pointer(b), dataOffset+i*uintptr(t.KeySize))
					elem = add(unsafe.Pointer(b), dataOffset+abi.MapBucketCount*uintptr(t.KeySize)+i*uintptr(t.ValueSize))
				}
				if b.tophash[i] == emptyRest {
					break bucketloop
				}
				continue
			}
			k := add(unsafe.Pointer(b), dataOffset+i*uintptr(t.KeySize))
			if t.IndirectKey() {
				k = *((*unsafe.Pointer)(k))
			}
			if !t.Key.Equal(key, k) {
				continue
			}
			// already have a mapping for key. Update it.
			if t.NeedKeyUpdate() {
				typedmemmove(t.Key, k, key)
			}
			elem = add(unsafe.Pointer(b), dataOffset+abi.MapBucketCount*uintptr(t.KeySize)+i*uintptr(t.ValueSize))
			goto done
		}
		ovf := b.overflow(t)
		if ovf == nil {
			break
		}
		b = ovf
	}

	// Did not find mapping for key. Allocate new cell & add entry.

	// If we hit the max load factor or we have too many overflow buckets,
	// and we're not already in the middle of growing, start growing.
	if !h.growing() && (overLoadFactor(h.count+1, h.B) || tooManyOverflowBuckets(h.noverflow, h.B)) {
		hashGrow(t, h)
		goto again // Growing the table invalidates everything, so try again
	}

	if inserti == nil {
		// The current bucket and all the overflow buckets connected to it are full, allocate a new one.
		newb := h.newoverflow(t, b)
		inserti = &newb.tophash[0]
		insertk = add(unsafe.Pointer(newb), dataOffset)
		elem = add(insertk, abi.MapBucketCount*uintptr(t.KeySize))
	}

	// store new key/elem at insert position
	if t.IndirectKey() {
		kmem := newobject(t.Key)
		*(*unsafe.Pointer)(insertk) = kmem
		insertk = kmem
	}
	if t.IndirectElem() {
		vmem := newobject(t.Elem)
		*(*unsafe.Pointer)(elem) = vmem
	}
	typedmemmove(t.Key, insertk, key)
	*inserti = top
	h.count++

done:
	if h.flags&hashWriting == 0 {
		fatal("concurrent map writes")
	}
	h.flags &^= hashWriting
	if t.IndirectElem() {
		elem = *((*unsafe.Pointer)(elem))
	}
	return elem
}

// mapdelete should be an internal detail,
// but widely used packages access it using linkname.
// Notable members of the hall of shame include:
//   - github.com/ugorji/go/codec
//
// Do not remove or change the type signature.
// See go.dev/issue/67401.
//
//go:linkname mapdelete
func mapdelete(t *maptype, h *hmap, key unsafe.Pointer) {
	if raceenabled && h != nil {
		callerpc := getcallerpc()
		pc := abi.FuncPCABIInternal(mapdelete)
		racewritepc(unsafe.Pointer(h), callerpc, pc)
		raceReadObjectPC(t.Key, key, callerpc, pc)
	}
	if msanenabled && h != nil {
		msanread(key, t.Key.Size_)
	}
	if asanenabled && h != nil {
		asanread(key, t.Key.Size_)
	}
	if h == nil || h.count == 0 {
		if err := mapKeyError(t, key); err != nil {
			panic(err) // see issue 23734
		}
		return
	}
	if h.flags&hashWriting != 0 {
		fatal("concurrent map writes")
	}

	hash := t.Hasher(key, uintptr(h.hash0))

	// Set hashWriting after calling t.hasher, since t.hasher may panic,
	// in which case we have not actually done a write (delete).
	h.flags ^= hashWriting

	bucket := hash & bucketMask(h.B)
	if h.growing() {
		growWork(t, h, bucket)
	}
	b := (*bmap)(add(h.buckets, bucket*uintptr(t.BucketSize)))
	bOrig := b
	top := tophash(hash)
search:
	for ; b != nil; b = b.overflow(t) {
		for i := uintptr(0); i < abi.MapBucketCount; i++ {
			if b.tophash[i] != top {
				if b.tophash[i] == emptyRest {
					break search
				}
				continue
			}
			k := add(unsafe.Pointer(b), dataOffset+i*uintptr(t.KeySize))
			k2 := k
			if t.IndirectKey() {
				k2 = *((*unsafe.Pointer)(k2))
			}
			if !t.Key.Equal(key, k2) {
				continue
			}
			// Only clear key if there are pointers in it.
			if t.IndirectKey() {
				*(*unsafe.Pointer)(k) = nil
			} else if t.Key.Pointers() {
				memclrHasPointers(k, t.Key.Size_)
			}
			e := add(unsafe.Pointer(b), dataOffset+abi.MapBucketCount*uintptr(t.KeySize)+i*uintptr(t.ValueSize))
			if t.IndirectElem() {
				*(*unsafe.Pointer)(e) = nil
			} else if t.Elem.Pointers() {
				memclrHasPointers(e, t.Elem.Size_)
			} else {
				memclrNoHeapPointers(e, t.Elem.Size_)
			}
			b.tophash[i] = emptyOne
			// If the bucket now ends in a bunch of emptyOne states,
			// change those to emptyRest states.
			// It would be nice to make this a separate function, but
			// for loops are not currently inlineable.
			if i == abi.MapBucketCount-1 {
				if b.overflow(t) != nil && b.overflow(t).tophash[0] != emptyRest {
					goto notLast
				}
			} else {
				if b.tophash[i+1] != emptyRest {
					goto notLast
				}
			}
			for {
				b.tophash[i] = emptyRest
				if i == 0 {
					if b == bOrig {
						break // beginning of initial bucket, we're done.
					}
					// Find previous bucket, continue at its last entry.
					c := b
					for b = bOrig; b.overflow(t) != c; b = b.overflow(t) {
					}
					i = abi.MapBucketCount - 1
				} else {
					i--
				}
				if b.tophash[i] != emptyOne {
					break
				}
			}
		notLast:
			h.count--
			// Reset the hash seed to make it more difficult for attackers to
			// repeatedly trigger hash collisions. See issue 25237.
			if h.count == 0 {
				h.hash0 = uint32(rand())
			}
			break search
		}
	}

	if h.flags&hashWriting == 0 {
		fatal("concurrent map writes")
	}
	h.flags &^= hashWriting
}

// mapiterinit initializes the hiter struct used for ranging over maps.
// The hiter struct pointed to by 'it' is allocated on the stack
// by the compilers order pass or on the heap by reflect_mapiterinit.
// Both need to have zeroed hiter since the struct contains pointers.
//
// mapiterinit should be an internal detail,
// but widely used packages access it using linkname.
// Notable members of the hall of shame include:
//   - github.com/bytedance/sonic
//   - github.com/cloudwego/frugal
//   - github.com/goccy/go-json
//   - github.com/RomiChan/protobuf
//   - github.com/segmentio/encoding
//   - github.com/ugorji/go/codec
//   - github.com/wI2L/jettison
//
// Do not remove or change the type signature.
// See go.dev/issue/67401.
//
//go:linkname mapiterinit
func mapiterinit(t *maptype, h *hmap, it *hiter) {
	if raceenabled && h != nil {
		callerpc := getcallerpc()
		racereadpc(unsafe.Pointer(h), callerpc, abi.FuncPCABIInternal(mapiterinit))
	}

	it.t = t
	if h == nil || h.count == 0 {
		return
	}

	if unsafe.Sizeof(hiter{})/goarch.PtrSize != 12 {
		throw("hash_iter size incorrect") // see cmd/compile/internal/reflectdata/reflect.go
	}
	it.h = h

	// grab snapshot of bucket state
	it.B = h.B
	it.buckets = h.buckets
	if !t.Bucket.Pointers() {
		// Allocate the current slice and remember pointers to both current and old.
		// This preserves all relevant overflow buckets alive even if
		// the table grows and/or overflow buckets are added to the table
		// while we are iterating.
		h.createOverflow()
		it.overflow = h.extra.overflow
		it.oldoverflow = h.extra.oldoverflow
	}

	// decide where to start
	r := uintptr(rand())
	if verifMapMode != 0 {
		r = verifMapPick(getcallerpc(), r)
	}
	it.startBucket = r & bucketMask(h.B)
	it.offset = uint8(r >> h.B & (abi.MapBucketCount - 1))

	// iterator state
	it.bucket = it.startBucket

	// Remember we have an iterator.
	// Can run concurrently with another mapiterinit().
	if old := h.flags; old&(iterator|oldIterator) != iterator|oldIterator {
		atomic.Or8(&h.flags, iterator|oldIterator)
	}

	mapiternext(it)
}

// mapiternext should be an internal detail,
// but widely used packages access it using linkname.
// Notable members of the hall of shame include:
//   - github.com/bytedance/sonic
//   - github.com/cloudwego/frugal
//   - github.com/RomiChan/protobuf
//   - github.com/segmentio/encoding
//   - github.com/ugorji/go/codec
//   - gonum.org/v1/gonum
//
// Do not remove or change the type signature.
// See go.dev/issue/67401.
//
//go:linkname mapiternext
func mapiternext(it *hiter) {
	h := it.h
	if raceenabled {
		callerpc := getcallerpc()
		racereadpc(unsafe.Pointer(h), callerpc, abi.FuncPCABIInternal(mapiternext))
	}
	if h.flags&hashWriting != 0 {
		fatal("concurrent map iteration and map write")
	}
	t := it.t
	bucket := it.bucket
	b := it.bptr
	i := it.i
	checkBucket := it.checkBucket

next:
	if b == nil {
		if bucket == it.startBucket && it.wrapped {
			// end of iteration
			it.key = nil
			it.elem = nil
			return
		}
		if h.growing() && it.B == h.B {
			// Iterator was started in the middle of a grow, and the grow isn't done yet.
			// If the bucket we're looking at hasn't been filled in yet (i.e. the old
			// bucket hasn't been evacuated) then we need to iterate through the old
			// bucket and only return the ones that will be migrated to this bucket.
			oldbucket := bucket & it.h.oldbucketmask()
			b = (*bmap)(add(h.oldbuckets, oldbucket*uintptr(t.BucketSize)))
			if !evacuated(b) {
				checkBucket = bucket
			} else {
				b = (*bmap)(add(it.buckets, bucket*uintptr(t.BucketSize)))
				checkBucket = noCheck
			}
		} else {
			b = (*bmap)(add(it.buckets, bucket*uintptr(t.BucketSize)))
			checkBucket = noCheck
		}
		bucket++
		if bucket == bucketShift(it.B) {
			bucket = 0
			it.wrapped = true
		}
		i = 0
	}
	for ; i < abi.MapBucketCount; i++ {
		offi := (i + it.offset) & (abi.MapBucketCount - 1)
		if isEmpty(b.tophash[offi]) || b.tophash[offi] == evacuatedEmpty {
			// TODO: emptyRest is hard to use here, as we start iterating
			// in the middle of a bucket. It's feasible, just tricky.
			continue
		}
		k := add(unsafe.Pointer(b), dataOffset+uintptr(offi)*uintptr(t.KeySize))
		if t.IndirectKey() {
			k = *((*unsafe.Pointer)(k))
		}
		e := add(unsafe.Pointer(b), dataOffset+abi.MapBucketCount*uintptr(t.KeySize)+uintptr(offi)*uintptr(t.ValueSize))
		if checkBucket != noCheck && !h.sameSizeGrow() {
			// Special case: iterator was started during a grow to a larger size
			// and the grow is not done yet. We're working on a bucket whose
			// oldbucket has not been evacuated yet. Or at least, it wasn't
			// evacuated when we started the bucket. So we're iterating
			// through the oldbucket, skipping any keys that will go
			// to the other new bucket (each oldbucket expands to two
			// buckets during a grow).
			if t.ReflexiveKey() || t.Key.Equal(k, k) {
				// If the item in the oldbucket is not destined for
				// the current new bucket in the iteration, skip it.
				hash := t.Hasher(k, uintptr(h.hash0))
				if hash&bucketMask(it.B) != checkBucket {
					continue
				}
			} else {
				// Hash isn't repeatable if k != k (NaNs).  We need a
				// repeatable and randomish choice of which direction
				// to send NaNs during evacuation. We'll use the low
				// bit of tophash to decide which way NaNs go.
				// NOTE: this case is why we need two evacuate tophash
				// values, evacuatedX and evacuatedY, that differ in
				// their low bit.
				if checkBucket>>(it.B-1) != uintptr(b.tophash[offi]&1) {
					continue
				}
			}
		}
		if (b.tophash[offi] != evacuatedX && b.tophash[offi] != evacuatedY) ||
			!(t.ReflexiveKey() || t.Key.Equal(k, k)) {
			// This is the golden data, we can return it.
			// OR
			// key!=key, so the entry can't be deleted or updated, so we can just return it.
			// That's lucky for us because when key!=key we can't look it up successfully.
			it.key = k
			if t.IndirectElem() {
				e = *((*unsafe.Pointer)(e))
			}
			it.elem = e
		} else {
			// The hash table has grown since the iterator was started.
			// The golden data for this key is now somewhere else.
			// Check the current hash table for the data.
			// This code handles the case where the key
			// has been deleted, updated, or deleted and reinserted.
			// NOTE: we need to regrab the key as it has potentially been
			// updated to an equal() but not identical key (e.g. +0.0 vs -0.0).
			rk, re := mapaccessK(t, h, k)
			if rk == nil {
				continue // key has been deleted
			}
			it.key = rk
			it.elem = re
		}
		it.bucket = bucket
		if it.bptr != b { // avoid unnecessary write barrier; see issue 14921
			it.bptr = b
		}
		it.i = i + 1
		it.checkBucket = checkBucket
		return
	}
	b = b.overflow(t)
	i = 0
	goto next
}

// mapclear deletes all keys from a map.
// It is called by the compiler.
//
// mapclear should be an internal detail,
// but widely used packages access it using linkname.
// Notable members of the hall of shame include:
//   - github.com/cloudwego/frugal
//
// Do not remove or change the type signature.
// See go.dev/issue/67401.
//
//go:linkname mapclear
func mapclear(t *maptype, h *hmap) {
	if raceenabled && h != nil {
		callerpc := getcallerpc()
		pc := abi.FuncPCABIInternal(mapclear)
		racewritepc(unsafe.Pointer(h), callerpc, pc)
	}

	if h == nil || h.count == 0 {
		return
	}

	if h.flags&hashWriting != 0 {
		fatal("concurrent map writes")
	}

	h.flags ^= hashWriting

	// Mark buckets empty, so existing iterators can be terminated, see issue #59411.
	markBucketsEmpty := func(bucket unsafe.Pointer, mask uintptr) {
		for i := uintptr(0); i <= mask; i++ {
			b := (*bmap)(add(bucket, i*uintptr(t.BucketSize)))
			for ; b != nil; b = b.overflow(t) {
				for i := uintptr(0); i < abi.MapBucketCount; i++ {
					b.tophash[i] = emptyRest
				}
			}
		}
	}
	markBucketsEmpty(h.buckets, bucketMask(h.B))
	if oldBuckets := h.oldbuckets; oldBuckets != nil {
		markBucketsEmpty(oldBuckets, h.oldbucketmask())
	}

	h.flags &^= sameSizeGrow
	h.oldbuckets = nil
	h.nevacuate = 0
	h.noverflow = 0
	h.count = 0

	// Reset the hash seed to make it more difficult for attackers to
	// repeatedly trigger hash collisions. See issue 25237.
	h.hash0 = uint32(rand())

	// Keep the mapextra allocation but clear any extra information.
	if h.extra != nil {
		*h.extra = mapextra{}
	}

	// makeBucketArray clears the memory pointed to by h.buckets
	// and recovers any overflow buckets by generating them
	// as if h.buckets was newly alloced.
	_, nextOverflow := makeBucketArray(t, h.B, h.buckets)
	if nextOverflow != nil {
		// If overflow buckets are created then h.extra
		// will have been allocated during initial bucket creation.
		h.extra.nextOverflow = nextOverflow
	}

	if h.flags&hashWriting == 0 {
		fatal("concurrent map writes")
	}
	h.flags &^= hashWriting
}

func hashGrow(t *maptype, h *hmap) {
	// If we've hit the load factor, get bigger.
	// Otherwise, there are too many overflow buckets,
	// so keep the same number of buckets and "grow" laterally.
	bigger := uint8(1)
	if !overLoadFactor(h.count+1, h.B) {
		bigger = 0
		h.flags |= sameSizeGrow
	}
	oldbuckets := h.buckets
	newbuckets, nextOverflow := makeBucketArray(t, h.B+bigger, nil)

	flags := h.flags &^ (iterator | oldIterator)
	if h.flags&iterator != 0 {
		flags |= oldIterator
	}
	// commit the grow (atomic wrt gc)
	h.B += bigger
	h.flags = flags
	h.oldbuckets = oldbuckets
	h.buckets = newbuckets
	h.nevacuate = 0
	h.noverflow = 0

	if h.extra != nil && h.extra.overflow != nil {
		// Promote current overflow buckets to the old generation.
		if h.extra.oldoverflow != nil {
			throw("oldoverflow is not nil")
		}
		h.extra.oldoverflow = h.extra.overflow
		h.extra.overflow = nil
	}
	if nextOverflow != nil {
		if h.extra == nil {
			h.extra = new(mapextra)
		}
		h.extra.nextOverflow = nextOverflow
	}

	// the actual copying of the hash table data is done incrementally
	// by growWork() and evacuate().
}

// overLoadFactor reports whether count items placed in 1<<B buckets is over loadFactor.
func overLoadFactor(count int, B uint8) bool {
	return count > abi.MapBucketCount && uintptr(count) > loadFactorNum*(bucketShift(B)/loadFactorDen)
}

// tooManyOverflowBuckets reports whether noverflow buckets is too many for a map with 1<<B buckets.
// Note that most of these overflow buckets must be in sparse use;
// if use was dense, then we'd have already triggered regular map growth.
func tooManyOverflowBuckets(noverflow uint16, B uint8) bool {
	// If the threshold is too low, we do extraneous work.
	// If the threshold is too high, maps that grow and shrink can hold on to lots of unused memory.
	// "too many" means (approximately) as many overflow buckets as regular buckets.
	// See incrnoverflow for more details.
	if B > 15 {
		B = 15
	}
	// The compiler doesn't see here that B < 16; mask B to generate shorter shift code.
	return noverflow >= uint16(1)<<(B&15)
}

// growing reports whether h is growing. The growth may be to the same size or bigger.
func (h *hmap) growing() bool {
	return h.oldbuckets != nil
}

// sameSizeGrow reports whether the current growth is to a map of the same size.
func (h *hmap) sameSizeGrow() bool {
	return h.flags&sameSizeGrow != 0
}

//go:linkname sameSizeGrowForIssue69110Test
func sameSizeGrowForIssue69110Test(h *hmap) bool {
	return h.sameSizeGrow()
}

// noldbuckets calculates the number of buckets prior to the current map growth.
func (h *hmap) noldbuckets() uintptr {
	oldB := h.B
	if !h.sameSizeGrow() {
		oldB--
	}
	return bucketShift(oldB)
}

// oldbucketmask provides a mask that can be applied to calculate n % noldbuckets().
func (h *hmap) oldbucketmask() uintptr {
	return h.noldbuckets() - 1
}

func growWork(t *maptype, h *hmap, bucket uintptr) {
	// make sure we evacuate the oldbucket corresponding
	// to the bucket we're about to use
	evacuate(t, h, bucket&h.oldbucketmask())

	// evacuate one more oldbucket to make progress on growing
	if h.growing() {
		evacuate(t, h, h.nevacuate)
	}
}

func bucketEvacuated(t *maptype, h *hmap, bucket uintptr) bool {
	b := (*bmap)(add(h.oldbuckets, bucket*uintptr(t.BucketSize)))
	return evacuated(b)
}

// evacDst is an evacuation destination.
type evacDst struct {
	b *bmap          // current destination bucket
	i int            // key/elem index into b
	k unsafe.Pointer // pointer to current key storage
	e unsafe.Pointer // pointer to current elem storage
}

func evacuate(t *maptype, h *hmap, oldbucket uintptr) {
	b := (*bmap)(add(h.oldbuckets, oldbucket*uintptr(t.BucketSize)))
	newbit := h.noldbuckets()
	if !evacuated(b) {
		// TODO: reuse overflow buckets instead of using new ones, if there
		// is no iterator using the old buckets.  (If !oldIterator.)

		// xy contains the x and y (low and high) evacuation destinations.
		var xy [2]evacDst
		x := &xy[0]
		x.b = (*bmap)(add(h.buckets, oldbucket*uintptr(t.BucketSize)))
		x.k = add(unsafe.Pointer(x.b), dataOffset)
		x.e = add(x.k, abi.MapBucketCount*uintptr(t.KeySize))

		if !h.sameSizeGrow() {
			// Only calculate y pointers if we're growing bigger.
			// Otherwise GC can see bad pointers.
			y := &xy[1]
			y.b = (*bmap)(add(h.buckets, (oldbucket+newbit)*uintptr(t.BucketSize)))
			y.k = add(unsafe.Pointer(y.b), dataOffset)
			y.e = add(y.k, abi.MapBucketCount*uintptr(t.KeySize))
		}

		for ; b != nil; b = b.overflow(t) {
			k := add(unsafe.Pointer(b), dataOffset)
			e := add(k, abi.MapBucketCount*uintptr(t.KeySize))
			for i := 0; i < abi.MapBucketCount; i, k, e = i+1, add(k, uintptr(t.KeySize)), add(e, uintptr(t.ValueSize)) {
				top := b.tophash[i]
				if isEmpty(top) {
					b.tophash[i] = evacuatedEmpty
					continue
				}
				if top < minTopHash {
					throw("bad map state")
				}
				k2 := k
				if t.IndirectKey() {
					k2 = *((*unsafe.Pointer)(k2))
				}
				var useY uint8
				if !h.sameSizeGrow() {
					// Compute hash to make our evacuation decision (whether we need
					// to send this key/elem to bucket x or bucket y).
					hash := t.Hasher(k2, uintptr(h.hash0))
					if h.flags&iterator != 0 && !t.ReflexiveKey() && !t.Key.Equal(k2, k2) {
						// If key != key (NaNs), then the hash could be (and probably
						// will be) entirely different from the old hash. Moreover,
						// it isn't reproducible. Reproducibility is required in the
						// presence of iterators, as our evacuation decision must
						// match whatever decision the iterator made.
						// Fortunately, we have the freedom to send these keys either
						// way. Also, tophash is meaningless for these kinds of keys.
						// We let the low bit of tophash drive the evacuation decision.
						// We recompute a new random tophash for the next level so
						// these keys will get evenly distributed across all buckets
						// after multiple grows.
						useY = top & 1
						top = tophash(hash)
					} else {
						if hash&newbit != 0 {
							useY = 1
						}
					}
				}

				if evacuatedX+1 != evacuatedY || evacuatedX^1 != evacuatedY {
					throw("bad evacuatedN")
				}

				b.tophash[i] = evacuatedX + useY // evacuatedX + 1 == evacuatedY
				dst := &xy[useY]                 // evacuation destination

				if dst.i == abi.MapBucketCount {
					dst.b = h.newoverflow(t, dst.b)
					dst.i = 0
					dst.k = add(unsafe.Pointer(dst.b), dataOffset)
					dst.e = add(dst.k, abi.MapBucketCount*uintptr(t.KeySize))
				}
				dst.b.tophash[dst.i&(abi.MapBucketCount-1)] = top // mask dst.i as an optimization, to avoid a bounds check
				if t.IndirectKey() {
					*(*unsafe.Pointer)(dst.k) = k2 // copy pointer
				} else {
					typedmemmove(t.Key, dst.k, k) // copy elem
				}
				if t.IndirectElem() {
					*(*unsafe.Pointer)(dst.e) = *(*unsafe.Pointer)(e)
				} else {
					typedmemmove(t.Elem, dst.e, e)
				}
				dst.i++
				// These updates might push these pointers past the end of the
				// key or elem arrays.  That's ok, as we have the overflow pointer
				// at the end of the bucket to protect against pointing past the
				// end of the bucket.
				dst.k = add(dst.k, uintptr(t.KeySize))
				dst.e = add(dst.e, uintptr(t.ValueSize))
			}
		}
		// Unlink the overflow buckets & clear key/elem to help GC.
		if h.flags&oldIterator == 0 && t.Bucket.Pointers() {
			b := add(h.oldbuckets, oldbucket*uintptr(t.BucketSize))
			// Preserve b.tophash because the evacuation
			// state is maintained there.
			ptr := add(b, dataOffset)
			n := uintptr(t.BucketSize) - dataOffset
			memclrHasPointers(ptr, n)
		}
	}

	if oldbucket == h.nevacuate {
		advanceEvacuationMark(h, t, newbit)
	}
}

func advanceEvacuationMark(h *hmap, t *maptype, newbit uintptr) {
	h.nevacuate++
	// Experiments suggest that 1024 is overkill by at least an order of magnitude.
	// Put it in there as a safeguard anyway, to ensure O(1) behavior.
	stop := h.nevacuate + 1024
	if stop > newbit {
		stop = newbit
	}
	for h.nevacuate != stop && bucketEvacuated(t, h, h.nevacuate) {
		h.nevacuate++
	}
	if h.nevacuate == newbit { // newbit == # of oldbuckets
		// Growing is all done. Free old main bucket array.
		h.oldbuckets = nil
		// Can discard old overflow buckets as well.
		// If they are still referenced by an iterator,
		// then the iterator holds a pointers to the slice.
		if h.extra != nil {
			h.extra.oldoverflow = nil
		}
		h.flags &^= sameSizeGrow
	}
}

// Reflect stubs. Called from ../reflect/asm_*.s

// reflect_makemap is for package reflect,
// but widely used packages access it using linkname.
// Notable members of the hall of shame include:
//   - gitee.com/quant1x/gox
//   - github.com/modern-go/reflect2
//   - github.com/goccy/go-json
//   - github.com/RomiChan/protobuf
//   - github.com/segmentio/encoding
//   - github.com/v2pro/plz
//
// Do not remove or change the type signature.
// See go.dev/issue/67401.
//
//go:linkname reflect_makemap reflect.makemap
func reflect_makemap(t *maptype, cap int) *hmap {
	// Check invariants and reflects math.
	if t.Key.Equal == nil {
		throw("runtime.reflect_makemap: unsupported map key type")
	}
	if t.Key.Size_ > abi.MapMaxKeyBytes && (!t.IndirectKey() || t.KeySize != uint8(goarch.PtrSize)) ||
		t.Key.Size_ <= abi.MapMaxKeyBytes && (t.IndirectKey() || t.KeySize != uint8(t.Key.Size_)) {
		throw("key size wrong")
	}
	if t.Elem.Size_ > abi.MapMaxElemBytes && (!t.IndirectElem() || t.ValueSize != uint8(goarch.PtrSize)) ||
		t.Elem.Size_ <= abi.MapMaxElemBytes && (t.IndirectElem() || t.ValueSize != uint8(t.Elem.Size_)) {
		throw("elem size wrong")
	}
	if t.Key.Align_ > abi.MapBucketCount {
		throw("key align too big")
	}
	if t.Elem.Align_ > abi.MapBucketCount {
		throw("elem align too big")
	}
	if t.Key.Size_%uintptr(t.Key.Align_) != 0 {
		throw("key size not a multiple of key align")
	}
	if t.Elem.Size_%uintptr(t.Elem.Align_) != 0 {
		throw("elem size not a multiple of elem align")
	}
	if abi.MapBucketCount < 8 {
		throw("bucketsize too small for proper alignment")
	}
	if dataOffset%uintptr(t.Key.Align_) != 0 {
		throw("need padding in bucket (key)")
	}
	if dataOffset%uintptr(t.Elem.Align_) != 0 {
		throw("need padding in bucket (elem)")
	}

	return makemap(t, cap, nil)
}

// reflect_mapaccess is for package reflect,
// but widely used packages access it using linkname.
// Notable members of the hall of shame include:
//   - gitee.com/quant1x/gox
//   - github.com/modern-go/reflect2
//   - github.com/v2pro/plz
//
// Do not remove or change the type signature.
// See go.dev/issue/67401.
//
//go:linkname reflect_mapaccess reflect.mapaccess
func reflect_mapaccess(t *maptype, h *hmap, key unsafe.Pointer) unsafe.Pointer {
	elem, ok := mapaccess2(t, h, key)
	if !ok {
		// reflect wants nil for a missing element
		elem = nil
	}
	return elem
}

//go:linkname reflect_mapaccess_faststr reflect.mapaccess_faststr
func reflect_mapaccess_faststr(t *maptype, h *hmap, key string) unsafe.Pointer {
	elem, ok := mapaccess2_faststr(t, h, key)
	if !ok {
		// reflect wants nil for a missing element
		elem = nil
	}
	return elem
}

// reflect_mapassign is for package reflect,
// but widely used packages access it using linkname.
// Notable members of the hall of shame include:
//   - gitee.com/quant1x/gox
//   - github.com/v2pro/plz
//
// Do not remove or change the type signature.
//
//go:linkname reflect_mapassign reflect.mapassign0
func reflect_mapassign(t *maptype, h *hmap, key unsafe.Pointer, elem unsafe.Pointer) {
	p := mapassign(t, h, key)
	typedmemmove(t.Elem, p, elem)
}

//go:linkname reflect_mapassign_faststr reflect.mapassign_faststr0
func reflect_mapassign_faststr(t *maptype, h *hmap, key string, elem unsafe.Pointer) {
	p := mapassign_faststr(t, h, key)
	typedmemmove(t.Elem, p, elem)
}

//go:linkname reflect_mapdelete reflect.mapdelete
func reflect_mapdelete(t *maptype, h *hmap, key unsafe.Pointer) {
	mapdelete(t, h, key)
}

//go:linkname reflect_mapdelete_faststr reflect.mapdelete_faststr
func reflect_mapdelete_faststr(t *maptype, h *hmap, key string) {
	mapdelete_faststr(t, h, key)
}

// reflect_mapiterinit is for package reflect,
// but widely used packages access it using linkname.
// Notable members of the hall of shame include:
//   - github.com/modern-go/reflect2
//   - gitee.com/quant1x/gox
//   - github.com/v2pro/plz
//   - github.com/wI2L/jettison
//
// Do not remove or change the type signature.
// See go.dev/issue/67401.
//
//go:linkname reflect_mapiterinit reflect.mapiterinit
func reflect_mapiterinit(t *maptype, h *hmap, it *hiter) {
	mapiterinit(t, h, it)
}

// reflect_mapiternext is for package reflect,
// but widely used packages access it using linkname.
// Notable members of the hall of shame include:
//   - gitee.com/quant1x/gox
//   - github.com/modern-go/reflect2
//   - github.com/goccy/go-json
//   - github.com/v2pro/plz
//   - github.com/wI2L/jettison
//
// Do not remove or change the type signature.
// See go.dev/issue/67401.
//
//go:linkname reflect_mapiternext reflect.mapiternext
func reflect_mapiternext(it *hiter) {
	mapiternext(it)
}

// reflect_mapiterkey is for package reflect,
// but widely used packages access it using linkname.
// Notable members of the hall of shame include:
//   - github.com/goccy/go-json
//   - gonum.org/v1/gonum
//
// Do not remove or change the type signature.
// See go.dev/issue/67401.
//
//go:linkname reflect_mapiterkey reflect.mapiterkey
func reflect_mapiterkey(it *hiter) unsafe.Pointer {
	return it.key
}

// reflect_mapiterelem is for package reflect,
// but widely used packages access it using linkname.
// Notable members of the hall of shame include:
//   - github.com/goccy/go-json
//   - gonum.org/v1/gonum
//
// Do not remove or change the type signature.
// See go.dev/issue/67401.
//
//go:linkname reflect_mapiterelem reflect.mapiterelem
func reflect_mapiterelem(it *hiter) unsafe.Pointer {
	return it.elem
}

// reflect_maplen is for package reflect,
// but widely used packages access it using linkname.
// Notable members of the hall of shame include:
//   - github.com/goccy/go-json
//   - github.com/wI2L/jettison
//
// Do not remove or change the type signature.
// See go.dev/issue/67401.
//
//go:linkname reflect_maplen reflect.maplen
func reflect_maplen(h *hmap) int {
	if h == nil {
		return 0
	}
	if raceenabled {
		callerpc := getcallerpc()
		racereadpc(unsafe.Pointer(h), callerpc, abi.FuncPCABIInternal(reflect_maplen))
	}
	return h.count
}

//go:linkname reflect_mapclear reflect.mapclear
func reflect_mapclear(t *maptype, h *hmap) {
	mapclear(t, h)
}

//go:linkname reflectlite_maplen internal/reflectlite.maplen
func reflectlite_maplen(h *hmap) int {
	if h == nil {
		return 0
	}
	if raceenabled {
		callerpc := getcallerpc()
		racereadpc(unsafe.Pointer(h), callerpc, abi.FuncPCABIInternal(reflect_maplen))
	}
	return h.count
}

// mapinitnoop is a no-op function known the Go linker; if a given global
// map (of the right size) is determined to be dead, the linker will
// rewrite the relocation (from the package init func) from the outlined
// map init function to this symbol. Defined in assembly so as to avoid
// complications with instrumentation (coverage, etc).
func mapinitnoop()

// mapclone for implementing maps.Clone
//
//go:linkname mapclone maps.clone
func mapclone(m any) any {
	e := efaceOf(&m)
	e.data = unsafe.Pointer(mapclone2((*maptype)(unsafe.Pointer(e._type)), (*hmap)(e.data)))
	return m
}

// moveToBmap moves a bucket from src to dst. It returns the destination bucket or new destination bucket if it overflows
// and the pos that the next key/value will be written, if pos == bucketCnt means needs to written in overflow bucket.
func moveToBmap(t *maptype, h *hmap, dst *bmap, pos int, src *bmap) (*bmap, int) {
	for i := 0; i < abi.MapBucketCount; i++ {
		if isEmpty(src.tophash[i]) {
			continue
		}

		for ; pos < abi.MapBucketCount; pos++ {
			if isEmpty(dst.tophash[pos]) {
				break
			}
		}

		if pos == abi.MapBucketCount {
			dst = h.newoverflow(t, dst)
			pos = 0
		}

		srcK := add(unsafe.Pointer(src), dataOffset+uintptr(i)*uintptr(t.KeySize))
		srcEle := add(unsafe.Pointer(src), dataOffset+abi.MapBucketCount*uintptr(t.KeySize)+uintptr(i)*uintptr(t.ValueSize))
		dstK := add(unsafe.Pointer(dst), dataOffset+uintptr(pos)*uintptr(t.KeySize))
		dstEle := add(unsafe.Pointer(dst), dataOffset+abi.MapBucketCount*uintptr(t.KeySize)+uintptr(pos)*uintptr(t.ValueSize))

		dst.tophash[pos] = src.tophash[i]
		if t.IndirectKey() {
			srcK = *(*unsafe.Pointer)(srcK)
			if t.NeedKeyUpdate() {
				kStore := newobject(t.Key)
				typedmemmove(t.Key, kStore, srcK)
				srcK = kStore
			}
			// Note: if NeedKeyUpdate is false, then the memory
			// used to store the key is immutable, so we can share
			// it between the original map and its clone.
			*(*unsafe.Pointer)(dstK) = srcK
		} else {
			typedmemmove(t.Key, dstK, srcK)
		}
		if t.IndirectElem() {
			srcEle = *(*unsafe.Pointer)(srcEle)
			eStore := newobject(t.Elem)
			typedmemmove(t.Elem, eStore, srcEle)
			*(*unsafe.Pointer)(dstEle) = eStore
		} else {
			typedmemmove(t.Elem, dstEle, srcEle)
		}
		pos++
		h.count++
	}
	return dst, pos
}

func mapclone2(t *maptype, src *hmap) *hmap {
	hint := src.count
	if overLoadFactor(hint, src.B) {
		// Note: in rare cases (e.g. during a same-sized grow) the map
		// can be overloaded. Make sure we don't allocate a destination
		// bucket array larger than the source bucket array.
		// This will cause the cloned map to be overloaded also,
		// but that's better than crashing. See issue 69110.
		hint = int(loadFactorNum * (bucketShift(src.B) / loadFactorDen))
	}
	dst := makemap(t, hint, nil)
	dst.hash0 = src.hash0
	dst.nevacuate = 0
	// flags do not need to be copied here, just like a new map has no flags.

	if src.count == 0 {
		return dst
	}

	if src.flags&hashWriting != 0 {
		fatal("concurrent map clone and map write")
	}

	if src.B == 0 && !(t.IndirectKey() && t.NeedKeyUpdate()) && !t.IndirectElem() {
		// Quick copy for small maps.
		dst.buckets = newobject(t.Bucket)
		dst.count = src.count
		typedmemmove(t.Bucket, dst.buckets, src.buckets)
		return dst
	}

	if dst.B == 0 {
		dst.buckets = newobject(t.Bucket)
	}
	dstArraySize := int(bucketShift(dst.B))
	srcArraySize := int(bucketShift(src.B))
	for i := 0; i < dstArraySize; i++ {
		dstBmap := (*bmap)(add(dst.buckets, uintptr(i*int(t.BucketSize))))
		pos := 0
		for j := 0; j < srcArraySize; j += dstArraySize {
			srcBmap := (*bmap)(add(src.buckets, uintptr((i+j)*int(t.BucketSize))))
			for srcBmap != nil {
				dstBmap, pos = moveToBmap(t, dst, dstBmap, pos, srcBmap)
				srcBmap = srcBmap.overflow(t)
			}
		}
	}

	if src.oldbuckets == nil {
		return dst
	}

	oldB := src.B
	srcOldbuckets := src.oldbuckets
	if !src.sameSizeGrow() {
		oldB--
	}
	oldSrcArraySize := int(bucketShift(oldB))

	for i := 0; i < oldSrcArraySize; i++ {
		srcBmap := (*bmap)(add(srcOldbuckets, uintptr(i*int(t.BucketSize))))
		if evacuated(srcBmap) {
			continue
		}

		if oldB >= dst.B { // main bucket bits in dst is less than oldB bits in src
			dstBmap := (*bmap)(add(dst.buckets, (uintptr(i)&bucketMask(dst.B))*uintptr(t.BucketSize)))
			for dstBmap.overflow(t) != nil {
				dstBmap = dstBmap.overflow(t)
			}
			pos := 0
			for srcBmap != nil {
				dstBmap, pos = moveToBmap(t, dst, dstBmap, pos, srcBmap)
				srcBmap = srcBmap.overflow(t)
			}
			continue
		}

		// oldB < dst.B, so a single source bucket may go to multiple destination buckets.
		// Process entries one at a time.
		for srcBmap != nil {
			// move from oldBlucket to new bucket
			for i := uintptr(0); i < abi.MapBucketCount; i++ {
				if isEmpty(srcBmap.tophash[i]) {
					continue
				}

				if src.flags&hashWriting != 0 {
					fatal("concurrent map clone and map write")
				}

				srcK := add(unsafe.Pointer(srcBmap), dataOffset+i*uintptr(t.KeySize))
				if t.IndirectKey() {
					srcK = *((*unsafe.Pointer)(srcK))
				}

				srcEle := add(unsafe.Pointer(srcBmap), dataOffset+abi.MapBucketCount*uintptr(t.KeySize)+i*uintptr(t.ValueSize))
				if t.IndirectElem() {
					srcEle = *((*unsafe.Pointer)(srcEle))
				}
				dstEle := mapassign(t, dst, srcK)
				typedmemmove(t.Elem, dstEle, srcEle)
			}
			srcBmap = srcBmap.overflow(t)
		}
	}
	return dst
}

// keys for implementing maps.keys
//
//go:linkname keys maps.keys
func keys(m any, p unsafe.Pointer) {
	e := efaceOf(&m)
	t := (*maptype)(unsafe.Pointer(e._type))
	h := (*hmap)(e.data)

	if h == nil || h.count == 0 {
		return
	}
	s := (*slice)(p)
	r := int(rand())
	offset := uint8(r >> h.B & (abi.MapBucketCount - 1))
	if h.B == 0 {
		copyKeys(t, h, (*bmap)(h.buckets), s, offset)
		return
	}
	arraySize := int(bucketShift(h.B))
	buckets := h.buckets
	for i := 0; i < arraySize; i++ {
		bucket := (i + r) & (arraySize - 1)
		b := (*bmap)(add(buckets, uintptr(bucket)*uintptr(t.BucketSize)))
		copyKeys(t, h, b, s, offset)
	}

	if h.growing() {
		oldArraySize := int(h.noldbuckets())
		for i := 0; i < oldArraySize; i++ {
			bucket := (i + r) & (oldArraySize - 1)
			b := (*bmap)(add(h.oldbuckets, uintptr(bucket)*uintptr(t.BucketSize)))
			if evacuated(b) {
				continue
			}
			copyKeys(t, h, b, s, offset)
		}
	}
	return
}

func copyKeys(t *maptype, h *hmap, b *bmap, s *slice, offset uint8) {
	for b != nil {
		for i := uintptr(0); i < abi.MapBucketCount; i++ {
			offi := (i + uintptr(offset)) & (abi.MapBucketCount - 1)
			if isEmpty(b.tophash[offi]) {
				continue
			}
			if h.flags&hashWriting != 0 {
				fatal("concurrent map read and map write")
			}
			k := add(unsafe.Pointer(b), dataOffset+offi*uintptr(t.KeySize))
			if t.IndirectKey() {
				k = *((*unsafe.Pointer)(k))
			}
			if s.len >= s.cap {
				fatal("concurrent map read and map write")
			}
			typedmemmove(t.Key, add(s.array, uintptr(s.len)*uintptr(t.Key.Size())), k)
			s.len++
		}
		b = b.overflow(t)
	}
}

// values for implementing maps.values
//
//go:linkname values maps.values
func values(m any, p unsafe.Pointer) {
	e := efaceOf(&m)
	t := (*maptype)(unsafe.Pointer(e._type))
	h := (*hmap)(e.data)
	if h == nil || h.count == 0 {
		return
	}
	s := (*slice)(p)
	r := int(rand())
	offset := uint8(r >> h.B & (abi.MapBucketCount - 1))
	if h.B == 0 {
		copyValues(t, h, (*bmap)(h.buckets), s, offset)
		return
	}
	arraySize := int(bucketShift(h.B))
	buckets := h.buckets
	for i := 0; i < arraySize; i++ {
		bucket := (i + r) & (arraySize - 1)
		b := (*bmap)(add(buckets, uintptr(bucket)*uintptr(t.BucketSize)))
		copyValues(t, h, b, s, offset)
	}

	if h.growing() {
		oldArraySize := int(h.noldbuckets())
		for i := 0; i < oldArraySize; i++ {
			bucket := (i + r) & (oldArraySize - 1)
			b := (*bmap)(add(h.oldbuckets, uintptr(bucket)*uintptr(t.BucketSize)))
			if evacuated(b) {
				continue
			}
			copyValues(t, h, b, s, offset)
		}
	}
	return
}

func copyValues(t *maptype, h *hmap, b *bmap, s *slice, offset uint8) {
	for b != nil {
		for i := uintptr(0); i < abi.MapBucketCount; i++ {
			offi := (i + uintptr(offset)) & (abi.MapBucketCount - 1)
			if isEmpty(b.tophash[offi]) {
				continue
			}

			if h.flags&hashWriting != 0 {
				fatal("concurrent map read and map write")
			}

			ele := add(unsafe.Pointer(b), dataOffset+abi.MapBucketCount*uintptr(t.KeySize)+offi*uintptr(t.ValueSize))
			if t.IndirectElem() {
				ele = *((*unsafe.Pointer)(ele))
			}
			if s.len >= s.cap {
				fatal("concurrent map read and map write")
			}
			typedmemmove(t.Elem, add(s.array, uintptr(s.len)*uintptr(t.Elem.Size())), ele)
			s.len++
		}
		b = b.overflow(t)
	}
}
