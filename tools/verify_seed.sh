#!/bin/bash
# tools/verify_seed.sh <id> <demo-target-relative-path> <test-run-regex> <pkgs-to-test...>
# (SEED_ROUND=2 SEED_SUFFIX=b: second round, /tmp/wt2/<id>, /tmp/seed2/<id> -> /verif/seeded/<id>b)
# Confirms a seeded change in its scratch worktree /tmp/wt/<id>: existing tests of the given
# packages pass with the change; the demo fails with it and passes without it.
set -u
id="$1"; target="$2"; rx="$3"; shift 3
wt=/tmp/wt${SEED_ROUND:-}/$id; sd=/tmp/seed${SEED_ROUND:-}/$id; out=/verif/seeded/$id${SEED_SUFFIX:-}
mkdir -p "$out"; cp "$sd/patch.diff" "$sd/meta.json" "$out/" 2>/dev/null; cp "$sd/demo_test.go" "$out/demo_test.go.txt"
export GOFLAGS=-mod=mod GOPROXY=off GOSUMDB=off GOTOOLCHAIN=local
cd "$wt" || exit 2
git checkout -q -- . ; git clean -fdq -- x app >/dev/null 2>&1
git apply "$sd/patch.diff" || { echo "patch does not apply"; exit 2; }
{
echo "## existing tests with the change: $*"
go build ./... && go test -vet=off -count=1 "$@" 2>&1 | grep -v "no test files" | tail -15
cp "$sd/demo_test.go" "$wt/$target"
pkg="./$(dirname $target)"
echo "## demo WITH the change (expected: FAIL)"
go test -vet=off -count=1 -run "$rx" "$pkg" 2>&1 | tail -8
git checkout -q -- . 
echo "## demo WITHOUT the change (expected: ok)"
go test -vet=off -count=1 -run "$rx" "$pkg" 2>&1 | tail -4
git apply "$sd/patch.diff"
rm -f "$wt/$target"
} > "$out/verify.log" 2>&1
cat "$out/verify.log"
