#!/usr/bin/env python3
"""Regenerates /verif/MANIFEST.json from the table below (single source of truth)."""
import json, os, sys
V = os.path.dirname(os.path.dirname(os.path.abspath(__file__)))

# id -> (engine, technique, level text, level note, design ref)
CLAIMED = {
 "C01": ("W", "explicit-state DFS over the real chain (blocks as transitions, store rollback), invariant after every block",
         "Every history of <= depth ops over a 37-op alphabet (swaps both forms/directions, multi-hop over distinct pools and routes naming the same pool twice, batch, joins, exits, perpetual and leveraged-LP opens/closes/liquidations incl. liquidation at the edge (price moved to where the weakest position sits between insolvency and the safety factor, all positions in one Liquidate list in either order), batches with a request that fails at execution next to an opposite valid one, fee conversion, gaps, donations, pool creation) from mid-life roots is executed as real signed transactions through FinalizeBlock/Commit and reserve==bank / DenomLiquidity==sum(reserves) is evaluated exactly after every block. Genesis round trip: for every root and every single op of the alphabet the state is exported with the application's own ExportAppStateAndValidators, a fresh application is started from the export, the invariant's drift must be identical on both sides and two more blocks are judged on the new chain. Module-params phase: every field of every governance message of the modules the state lives in at its boundary values and at half / double its stored value, followed by the core ops and by every boolean parameter again (flipped back), root R1. Same-block triples: every ordered triple of different ops of a 7-8 op set as ONE block (roots R0, R1), then an empty block.",
         "Bounded: alphabet amounts, depth 2 (quick) / 3-4 (thorough), single validator; rollback shortcut validated by linear re-execution (traces_validated_against_impl); if that validation ever disagrees (state kept outside the store) the check explores again without the shortcut.", "3/C01"),
 "C02": ("W", "explicit-state DFS over the real chain, invariant after every block",
         "All histories up to the depth bound over share creators/destroyers (create pool, joins, exits incl. full withdrawals of a non-last committed denom, unbond, leveraged-LP open/close/liquidate, claims) from roots R0/R1/R5/R6 (R6: accounts holding several committed denoms in different orders, locks expired), plus the denom sweep (8 denom-naming commitment messages x 8 denoms) and joins with inflated share quotes; TotalShares == supply == sum committed == custody balance after every block. Genesis round trip: for every root and every single op of the alphabet the state is exported with the application's own ExportAppStateAndValidators, a fresh application is started from the export, the invariant's drift must be identical on both sides and two more blocks are judged on the new chain. Module-params phase: every field of every governance message of the modules the state lives in at its boundary values and at half / double its stored value, followed by the core ops and by every boolean parameter again (flipped back), root R1. Same-block triples: every ordered triple of different ops of a 7-8 op set as ONE block (roots R0, R1), then an empty block.",
         "Bounded alphabet/depth; rollback shortcut validated by linear re-execution.", "3/C02"),
 "C06": ("W", "explicit-state DFS over the real chain, invariant after every block",
         "All histories up to the depth bound over bond/unbond/borrow/repay/liquidation/interest-gap ops, incl. borrowers who also lend (role collisions), root R3 (un-booked interest) and every field of the vault's governance params message at its boundary values; TotalValue == cash + sum(debt) exactly after every block. Genesis round trip: for every root and every single op of the alphabet the state is exported with the application's own ExportAppStateAndValidators, a fresh application is started from the export, the invariant's drift must be identical on both sides and two more blocks are judged on the new chain. Module-params phase: every field of every governance message of the modules the state lives in at its boundary values and at half / double its stored value, followed by the core ops and by every boolean parameter again (flipped back), root R1.",
         "Bounded alphabet/depth; rollback shortcut validated by linear re-execution.", "3/C06"),
 "C08": ("W", "explicit-state DFS over the real chain, invariant after every block",
         "All histories up to the depth bound over leveraged-LP opens, consolidations, partial/full closes, bot close-positions, vault drains and price crashes, incl. root R14 (three positions of three owners: several forced closes in ONE sweep / message); pool total == sum positions, position shares == committed at position address, counter == stored positions, closed ids leave nothing behind. Genesis round trip: for every root and every single op of the alphabet the state is exported with the application's own ExportAppStateAndValidators, a fresh application is started from the export, the invariant's drift must be identical on both sides and two more blocks are judged on the new chain. Module-params phase: every field of every governance message of the modules the state lives in at its boundary values and at half / double its stored value, followed by the core ops and by every boolean parameter again (flipped back), root R1.",
         "Bounded alphabet/depth; rollback shortcut validated by linear re-execution.", "3/C08"),
 "C09": ("W", "explicit-state DFS over the real chain, invariant after every block",
         "All histories up to the depth bound over perpetual opens (both sides, both collaterals), consolidation, top-up, partial/full close, bot close-positions (alone and in the block that feeds a new price: every forced-close branch), a huge long against a 90 % liquidity exit, price moves and long gaps (interest/funding); pool aggregates == sums over MTPs, counter == stored MTPs, amm reserve >= custody. Genesis round trip: for every root and every single op of the alphabet the state is exported with the application's own ExportAppStateAndValidators, a fresh application is started from the export, the invariant's drift must be identical on both sides and two more blocks are judged on the new chain. Module-params phase: every field of every governance message of the modules the state lives in at its boundary values and at half / double its stored value, followed by the core ops and by every boolean parameter again (flipped back), root R1.",
         "Bounded alphabet/depth; rollback shortcut validated by linear re-execution.", "3/C09"),
}
NOT_YET = {}
WIDE = {"C01", "C02", "C06", "C08", "C09", "C10", "C11", "C12", "C13", "C15", "C18"}
MULTI = {"C01", "C02", "C06", "C08", "C09", "C10", "C11", "C12", "C13", "C15", "C18", "C20"}
LONG = {"C01", "C06", "C08", "C09", "C11"}
ROLLBACK_WRITE = {"C02", "C06", "C12"}
VOUCHER = {"C01", "C02", "C13", "C15", "C18", "C20"}
EXTRA_TEXT = {
 "C03": "msgseq also in blocks that carry a dust gas fee in the sold asset (masterchef's end-block conversion runs after the amm end-blocker, through the same pool).",
 "C04": "Every request, and every ordered pair, also with a failing second message in the first request's transaction (the queued request must vanish with the rolled-back transaction).",
 "C05": "Engine-G part: in-memory constant-product pool records of 2, 3 and 4 assets through the real pure methods Pool.JoinPool / Pool.ExitPool (full product of 7 weight vectors x 3 scales x every deposit asset and the all-asset form x 4 sizes); after join + exit of exactly the minted shares the weighted product of the reserves must not shrink.",
 "C06": "Chain upgrade op: the stablestake store migration registered for the previous consensus version, run the way an upgrade handler runs it.",
 "C07": "Engine-K op upgrade(stablestake_prev_version): the registered store migration must not move the vault value or the share supply.",
 "C10": "Phase rolled-back-params: every parameter change of both position modules EXECUTED AND DISCARDED (failed multi-message proposal / simulation) from roots R1 and R21 (strict safety factors), followed by opens at every leverage and third-party close requests: gates must read the committed parameters.",
 "C11": "The tradeshield route to a perpetual position (limit-open order executed by a third party) is part of the alphabet.",
 "C13": "The module-params phase also sweeps the amm parameters, followed by single-sided joins.",
 "C15": "Phase upgrade: the amm module's registered balance-matching store migration, run the way an upgrade handler runs it, on pools whose accounts also hold a token that is not a pool asset.",
 "C16": "Isolation clause over store iteration AND point lookups: what the keeper answers on a state is identical before and after every discarded branch.",
 "C17": "Ground 'the sender holds every lesser role governance can grant' (amm pool-creator list, price feeder, whitelisted in both position modules): all governance-only types tried with that sender as authority.",
 "C18": "Phase aliased-assets (root R22): an outsider registered second asset-profile entries naming every fixture asset with other decimals, ELYS crashed below 0.5 USDC; outages, fee conversions, claims and position activity from there.",
 "C19": "Serving-node variant: every trace once more on a node that simulates and CheckTx'es each transaction before its block; process-memory traces (a weighted pool whose balance ratio is exactly 2, twice, with every restart point).",
 "C20": "One execute request per pending order (each its own transaction) next to the all-orders request.",
}
ALL = ["C%02d" % i for i in range(1, 21)]

def main():
    extra = {}
    p = os.path.join(V, "tools", "manifest_table.json")
    if os.path.exists(p):
        extra = json.load(open(p))
    claimed = dict(CLAIMED)
    for k, v in extra.get("claimed", {}).items():
        claimed[k] = tuple(v)
    na = extra.get("not_applicable", {})
    checks = []
    for pid in ALL:
        if pid not in claimed:
            continue
        eng, tech, text, note, ref = claimed[pid]
        if pid in WIDE:
            text += " Second venue (root R19): a second oracle pool enabled for leveraged LP (second accounted pool, second perpetual pool, trading asset uelys) with open positions of both modules in both venues; every pair of a 40-op alphabet over both venues (swaps, routes through both oracle pools, joins, exits, opens, closes, price moves of either asset, third-party close requests over all positions)."
        if pid in MULTI:
            text += " Multi-message transactions: every ordered pair of a same-signer op set as ONE signed transaction, and every op followed by a message that fails at delivery (the whole transaction must roll back), then one more block."
        if pid in EXTRA_TEXT:
            text += " " + EXTRA_TEXT[pid]
        if pid in ROLLBACK_WRITE:
            text += " Rollback then write: a transaction whose last message fails next to a successful transaction of another account that writes the same module-wide record, in one block, both orders."
        if pid in VOUCHER:
            text += " Voucher venue (root R23): the fixture's fourth asset is an IBC voucher with 18 decimals whose asset-profile base denom differs from its denom; a constant-product pool of it whose price the ops push far from the oracle's, pending spot orders in it, a gas fee paid in it."
        if pid in LONG:
            text += " Long history (root R20): a thousand ordinary blocks since anything touched the open positions' debts (sweep off), the root's own history judged, followed by three fixed linear chains over every op family, one through a genesis export/import."
        checks.append({
            "property_id": pid,
            "quick_cmd": "./check %s quick" % pid,
            "thorough_cmd": "./check %s thorough" % pid,
            "evidence_file": "/verif/evidence/%s.json" % pid,
            "replay_cmd_template": "./check --replay {path}",
            "engine": "elysmc-" + eng,
            "level_claimed": {"category": "model_checking", "text": text, "design_ref": "DESIGN.md §" + ref},
            "level_note": note,
            "technique": tech,
        })
    man = {
        "version": 1,
        "setup_cmd": "./check build",
        "hooks": {
            "guard": "verif",
            "enable": "go build -tags verif -overlay /verif/.build/overlay.json (harness packages are injected into /repo's module as zz_verif/...; no file under /repo is added or changed)",
            "baseline_off_cmd": "cd /repo && go test -mod=mod -vet=off -count=1 -timeout 25m ./...",
            "source_commits": [],
            "add_only": True,
        },
        "engines": [
            {"name": "elysmc-W", "path": "/verif/harness/mc", "serves_properties": [c["property_id"] for c in checks if c["engine"] == "elysmc-W"], "kind_free_text": "explicit-state model checker over the real ElysApp: DFS over op sequences, one real block per transition, IAVL rollback to backtrack, 16 worker processes, linear re-execution to validate explored traces"},
            {"name": "elysmc-K", "path": "/verif/harness/mc", "serves_properties": [c["property_id"] for c in checks if c["engine"] == "elysmc-K"], "kind_free_text": "exhaustive op-sequence enumeration against the real keepers/msg servers on CacheContext branches with a reference model in lock-step"},
            {"name": "elysmc-G", "path": "/verif/harness/mc", "serves_properties": [c["property_id"] for c in checks if c["engine"] == "elysmc-G"], "kind_free_text": "bounded-exhaustive Cartesian input grids over the real pool functions against exact rational references"},
            {"name": "elysmc-R", "path": "/verif/harness/mc", "serves_properties": [c["property_id"] for c in checks if c["engine"] == "elysmc-R"], "kind_free_text": "exhaustive enumeration of the message router (every registered /elys. Msg type x senders x routes)"},
            {"name": "elysmc-D", "path": "/verif/harness/mc", "serves_properties": [c["property_id"] for c in checks if c["engine"] == "elysmc-D"], "kind_free_text": "replica / restart-point / scripted map-order enumeration"},
        ],
        "checks": checks,
        "not_applicable": [{"property_id": pid, "reason": na.get(pid, "check under construction in this session; not claimed until it runs clean on the unchanged tree")} for pid in ALL if pid not in claimed],
        "notes": "One binary (elysmc) built from /repo's current working tree through a Go overlay by ./check; known findings in /verif/known_findings.jsonl; see DESIGN.md.",
    }
    json.dump(man, open(os.path.join(V, "MANIFEST.json"), "w"), indent=1)
    print("claimed:", [c["property_id"] for c in checks])

main()
