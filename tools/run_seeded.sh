#!/bin/bash
# tools/run_seeded.sh — re-runs every kept seeded change against the check(s) named in seeded/TABLE.txt
# (patch injected through the Go overlay, /repo untouched) and writes seeded/RESULTS.md.
# Expected: exit 1 for every line — a regression test of the checks' detection power.
V="$(cd "$(dirname "${BASH_SOURCE[0]}")/.." && pwd)"
out="$V/seeded/RESULTS.md"
echo "# Seeded-change results ($(date -u +%FT%TZ), /repo at $(git -C /repo log --format=%h -1))" > "$out"
echo "" >> "$out"
echo "| seed | check | tier | exit | first reported clause |" >> "$out"
echo "|---|---|---|---|---|" >> "$out"
grep -v '^#' "$V/seeded/TABLE.txt" | while read -r s p t; do
  [ -z "$s" ] && continue
  log=$("$V/tools/mutant.sh" "$V/seeded/$s/patch.diff" "$p" "$t" 2>&1)
  rc=$(echo "$log" | grep -o 'exit=[0-9]*' | tail -1 | cut -d= -f2)
  cl=$(echo "$log" | grep -o 'clause=[^ ]*' | head -1)
  echo "| $s | $p | $t | ${rc:-?} | ${cl:-—} |" >> "$out"
  echo "$s $p $t -> exit=${rc:-?} $cl"
done
