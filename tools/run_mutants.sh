#!/bin/bash
# tools/run_mutants.sh [table]  — runs every (mutant, property, tier) line of the table through
# tools/mutant.sh and writes mutants/RESULTS.md. Expected: exit 1 (VIOLATION) for every line.
V="$(cd "$(dirname "${BASH_SOURCE[0]}")/.." && pwd)"
table="${1:-$V/mutants/TABLE.txt}"
out="$V/mutants/RESULTS.md"
echo "# Mutant results ($(date -u +%FT%TZ), /repo at $(git -C /repo log --format=%h -1))" > "$out"
echo "" >> "$out"
echo "| mutant | property | tier | exit | first reported clause |" >> "$out"
echo "|---|---|---|---|---|" >> "$out"
grep -v '^#' "$table" | while read -r m p t; do
  [ -z "$m" ] && continue
  log=$("$V/tools/mutant.sh" "$V/mutants/$m" "$p" "$t" 2>&1)
  rc=$(echo "$log" | grep -o 'exit=[0-9]*' | tail -1 | cut -d= -f2)
  cl=$(echo "$log" | grep -o 'clause=[^ ]*' | head -1)
  echo "| $m | $p | $t | ${rc:-?} | ${cl:-—} |" >> "$out"
  echo "$m $p $t -> exit=${rc:-?} $cl"
done
