#!/bin/bash
# tools/mutant.sh <patch.diff> <Cxx> [tier]
# Runs a check against /repo + a patch WITHOUT touching /repo: the patched files are materialised
# under /verif/.work and injected through the Go overlay. Evidence/replays go to a scratch dir.
set -u
V="$(cd "$(dirname "${BASH_SOURCE[0]}")/.." && pwd)"
patch="$(realpath "$1")"; prop="$2"; tier="${3:-quick}"
tmp="$V/.work/mut.$$"; mkdir -p "$tmp/src" "$tmp/out"
trap 'rm -rf "$tmp"' EXIT
files=$(grep '^+++ ' "$patch" | sed 's#^+++ [ab]/##; s#\t.*##')
ov="{"
for f in $files; do
  mkdir -p "$tmp/src/$(dirname $f)"
  if [ -f "/repo/$f" ]; then cp "/repo/$f" "$tmp/src/$f"; fi
  ov="$ov\"/repo/$f\": \"$tmp/src/$f\","
done
( cd "$tmp/src" && patch -s -p1 < "$patch" ) || { echo "patch failed"; exit 3; }
echo "${ov%,}}" > "$tmp/overlay.json"
VERIF_EXTRA_OVERLAY="$tmp/overlay.json" VERIF_BUILD="$tmp/build" VERIF_OUT="$tmp/out" "$V/check" "$prop" "$tier"
rc=$?
echo "mutant $(basename $patch) on $prop $tier: exit=$rc"
exit $rc
