#!/bin/bash
# tools/coverage_union.sh [tier] — AUDIT tool: one statement-coverage build, ALL checks (except C19's
# runtime-seam binary) run against it with a shared GOCOVERDIR; prints the functions of the repository's
# keeper / types packages that NO check executed at all (queries, CLI, genesis, migrations, simulation
# and generated code left out). Report kept in /verif/coverage/UNION.<tier>.txt.
set -u
V="$(cd "$(dirname "${BASH_SOURCE[0]}")/.." && pwd)"
tier="${1:-quick}"
tmp="$V/.work/covu"; rm -rf "$tmp"; mkdir -p "$tmp/data" "$tmp/out" "$tmp/build"
export GOFLAGS=-mod=mod GOPROXY=off GOSUMDB=off GOTOOLCHAIN=local
src=/tmp/verif-covu.$$; rm -rf "$src"; mkdir -p "$src"
rsync -a --exclude .git /repo/ "$src/"; mkdir -p "$src/zz_verif"; rsync -a --exclude inject --exclude rt "$V/harness/" "$src/zz_verif/"
trap 'rm -rf "$src" "$tmp/build" "$tmp/data" "$V/.work/run.covu"' EXIT
( cd "$src" && go build -tags verif -cover -o "$tmp/build/elysmc" ./zz_verif/cmd/elysmc ) || exit 2
mkdir -p "$V/.work/run.covu"
for p in C01 C02 C03 C04 C05 C06 C07 C08 C09 C10 C11 C12 C13 C14 C15 C16 C17 C18 C20; do
  VERIF_DIR="$V" VERIF_WORK="$V/.work/run.covu" VERIF_OUT="$tmp/out" GOCOVERDIR="$tmp/data" "$tmp/build/elysmc" run "$p" "$tier" 2>&1 | grep "^$p $tier" | cut -c1-120
done
( cd "$src" && go tool covdata func -i="$tmp/data" ) > "$tmp/func.txt" 2>/dev/null
python3 - "$tmp/func.txt" > "$V/coverage/UNION.$tier.txt" <<'PY'
import sys, re, collections
rows = []
for l in open(sys.argv[1]):
    m = re.match(r"github.com/elys-network/elys/(x/[^:]+\.go):(\d+):\s+(\S+)\s+([\d.]+)%", l)
    if not m:
        continue
    f, ln, fn, pc = m.group(1), int(m.group(2)), m.group(3), float(m.group(4))
    if "/keeper/" not in f and "/types/" not in f:
        continue
    if re.search(r"(query|grpc|genesis|migrat|simulation|\.pb\.|codec|_test|/cli/|invariant|keys\.go|errors\.go|expected_keepers|events\.go|message_|msgs?\.go)", f):
        continue
    rows.append((f, ln, fn, pc))
by = collections.defaultdict(list)
for f, ln, fn, pc in rows:
    by[f.split("/")[1]].append((f, ln, fn, pc))
tot = len(rows); zero = len([r for r in rows if r[3] == 0])
print("functions in keeper/types files considered: %d, never executed by any check: %d" % (tot, zero))
for mod in sorted(by):
    z = [r for r in by[mod] if r[3] == 0]
    print("## %s: %d/%d functions never executed" % (mod, len(z), len(by[mod])))
    for f, ln, fn, pc in sorted(z):
        print("   %s:%d %s" % (f, ln, fn))
PY
head -3 "$V/coverage/UNION.$tier.txt"
