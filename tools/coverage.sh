#!/bin/bash
# tools/coverage.sh <Cxx> [tier]  — AUDIT tool, not a check: runs one check with a statement-coverage
# build of the repository's x/ packages and prints, for the files the property is anchored in, the
# blocks that no explored execution reached. Used to find cells the alphabet does not reach.
set -u
V="$(cd "$(dirname "${BASH_SOURCE[0]}")/.." && pwd)"
prop="$1"; tier="${2:-quick}"
tmp="$V/.work/cov.$prop"; rm -rf "$tmp"; mkdir -p "$tmp/data" "$tmp/out" "$tmp/build"
export GOFLAGS=-mod=mod GOPROXY=off GOSUMDB=off GOTOOLCHAIN=local
# go build ignores -cover together with -overlay, so the audit build uses a scratch COPY of /repo's
# working tree (outside /repo and /verif, removed at the end) with the harness copied in
src=/tmp/verif-cov.$$; rm -rf "$src"; mkdir -p "$src"
rsync -a --exclude .git /repo/ "$src/"; mkdir -p "$src/zz_verif"; rsync -a --exclude inject --exclude rt "$V/harness/" "$src/zz_verif/"
trap 'rm -rf "$src" "$tmp/build" "$tmp/data"' EXIT
( cd "$src" && go build -tags verif -cover -o "$tmp/build/elysmc" ./zz_verif/cmd/elysmc ) || exit 2
mkdir -p "$V/.work/run.cov.$$"
VERIF_DIR="$V" VERIF_WORK="$V/.work/run.cov.$$" VERIF_OUT="$tmp/out" GOCOVERDIR="$tmp/data" "$tmp/build/elysmc" run "$prop" "$tier" 2>&1 | tail -2
rm -rf "$V/.work/run.cov.$$"
( cd "$src" && go tool covdata textfmt -i="$tmp/data" -o "$tmp/cover.txt" ) || exit 2
python3 - "$V" "$prop" "$tmp/cover.txt" "${3:-}" <<'PY'
import json, sys, collections
v, prop, cov, extra = sys.argv[1:5]
files = []
for l in open(v + "/properties.jsonl"):
    p = json.loads(l)
    if p["id"] == prop:
        files = p["anchors"]["files"]
if extra:
    files += extra.split(",")
hit = collections.defaultdict(int)
for l in open(cov):
    if l.startswith("mode:"):
        continue
    loc, n, c = l.rsplit(" ", 2)
    hit[loc] += int(c)
pre = "github.com/elys-network/elys/"
for f in files:
    blocks = [(k, c) for k, c in hit.items() if k.startswith(pre + f + ":")]
    if not blocks:
        print("## %s: no coverage data" % f)
        continue
    un = [k for k, c in blocks if c == 0]
    print("## %s: %d/%d blocks reached" % (f, len(blocks) - len(un), len(blocks)))
    src = open("/repo/" + f).read().split("\n")
    def key(k):
        a = k.split(":")[1].split(",")[0].split(".")
        return int(a[0])
    for k in sorted(un, key=key):
        ln = key(k)
        if src[ln - 1].strip().startswith("if err != nil") or src[ln - 1].strip().startswith("return "):
            continue  # plain error propagation: not a cell of behaviour
        print("   unreached %s  | %s" % (k.split(":")[1], src[ln - 1].strip()[:110]))
PY
