//go:build verif

// elysmc: model checker for the Elys chain (see /verif/DESIGN.md).
package main

import (
	"encoding/json"
	"fmt"
	"os"

	"github.com/elys-network/elys/zz_verif/mc"
)

func usage() {
	fmt.Fprintln(os.Stderr, "usage: elysmc run <Cxx> <quick|thorough> | worker <Cxx> <tier> | replay <file>")
	os.Exit(2)
}

func main() {
	if len(os.Args) < 2 {
		usage()
	}
	switch os.Args[1] {
	case "run":
		if len(os.Args) < 4 {
			usage()
		}
		os.Exit(mc.Run(os.Args[2], os.Args[3]))
	case "worker":
		if len(os.Args) < 4 {
			usage()
		}
		cfg := mc.WConfig(os.Args[2], os.Args[3])
		if cfg == nil {
			fmt.Fprintln(os.Stderr, "no engine-W config for", os.Args[2])
			os.Exit(2)
		}
		if len(os.Args) > 4 {
			cfg.Fixture.Variant = os.Args[4]
			if os.Args[4] != "" && cfg.VariantPhases != nil {
				cfg.Phases = cfg.VariantPhases
			}
		}
		mc.WorkerMain(cfg)
	case "replay":
		if len(os.Args) < 3 {
			usage()
		}
		b, err := os.ReadFile(os.Args[2])
		if err != nil {
			fmt.Fprintln(os.Stderr, err)
			os.Exit(2)
		}
		var r mc.Replay
		if err := json.Unmarshal(b, &r); err != nil {
			fmt.Fprintln(os.Stderr, err)
			os.Exit(2)
		}
		os.Exit(mc.RunReplay(&r))
	case "kworker":
		mc.KWorkerMain(os.Args[2], os.Args[3])
	case "genesisrt":
		os.Exit(mc.RunGenesisRT(os.Args[2], os.Args[3], os.Args[4:]))
	case "trace":
		os.Exit(mc.RunTrace(os.Args[2], os.Args[3], os.Args[4:]))
	default:
		usage()
	}
}
