//go:build verif

package mc

import (
	"fmt"
	abci "github.com/cometbft/cometbft/abci/types"
	"math/big"
	"strings"

	"cosmossdk.io/math"
	sdk "github.com/cosmos/cosmos-sdk/types"
	authtypes "github.com/cosmos/cosmos-sdk/x/auth/types"
	ammtypes "github.com/elys-network/elys/x/amm/types"
	ctypes "github.com/elys-network/elys/x/commitment/types"
	llptypes "github.com/elys-network/elys/x/leveragelp/types"
	mctypes "github.com/elys-network/elys/x/masterchef/types"
	perptypes "github.com/elys-network/elys/x/perpetual/types"
	sstypes "github.com/elys-network/elys/x/stablestake/types"
)

func put(m Measure, key string, v math.Int) {
	if v.IsZero() {
		m[key] = "0"
	} else {
		m[key] = v.String()
	}
}

func posPart(v math.Int) math.Int {
	if v.IsNegative() {
		return math.ZeroInt()
	}
	return v
}

func modAddr(name string) sdk.AccAddress { return authtypes.NewModuleAddress(name) }

var genesisPerDenom = math.NewInt(1e15).MulRaw(int64(len(AccountNames)))

// ---------------------------------------------------------------------------------------------
// C01: reserves == bank holdings (minus harness donations); DenomLiquidity == Σ reserves

func donated(w *World, ctx sdk.Context, pool uint64, denom string) math.Int {
	// the donor account does nothing but donate: donate_p1_atom spends uatom, donate_p2_usdc uusdc
	d := w.A("donor").Addr
	if pool == 1 && denom == "uatom" {
		return math.NewInt(1e15).Sub(w.App.BankKeeper.GetBalance(ctx, d, "uatom").Amount)
	}
	if pool == 2 && denom == "uusdc" {
		return math.NewInt(1e15).Sub(w.App.BankKeeper.GetBalance(ctx, d, "uusdc").Amount)
	}
	return math.ZeroInt()
}

func OracleC01() *Oracle {
	return &Oracle{Name: "C01", State: func(w *World) Measure {
		ctx := w.RCtx()
		m := Measure{}
		sum := map[string]math.Int{}
		for _, p := range w.App.AmmKeeper.GetAllPool(ctx) {
			addr := sdk.MustAccAddressFromBech32(p.Address)
			for _, a := range p.PoolAssets {
				b := w.App.BankKeeper.GetBalance(ctx, addr, a.Token.Denom).Amount
				don := donated(w, ctx, p.PoolId, a.Token.Denom)
				put(m, fmt.Sprintf("reserve_vs_bank@pool=%d,denom=%s", p.PoolId, a.Token.Denom), b.Sub(a.Token.Amount).Sub(don))
				if don.IsPositive() {
					Clauses.Inc("reserve_vs_bank_with_donation")
				}
				Clauses.Inc("reserve_vs_bank")
				if s, ok := sum[a.Token.Denom]; ok {
					sum[a.Token.Denom] = s.Add(a.Token.Amount)
				} else {
					sum[a.Token.Denom] = a.Token.Amount
				}
			}
		}
		seen := map[string]bool{}
		for _, dl := range w.App.AmmKeeper.GetAllDenomLiquidity(ctx) {
			seen[dl.Denom] = true
			s, ok := sum[dl.Denom]
			if !ok {
				s = math.ZeroInt()
			}
			put(m, "denom_liquidity@denom="+dl.Denom, dl.Liquidity.Sub(s))
			Clauses.Inc("denom_liquidity")
		}
		for d, s := range sum {
			if !seen[d] {
				put(m, "denom_liquidity@denom="+d, s.Neg())
			}
		}
		return m
	}}
}

// ---------------------------------------------------------------------------------------------
// C02: TotalShares == supply == Σ committed == custody balance; nobody holds liquid shares

func OracleC02() *Oracle {
	return &Oracle{Name: "C02", State: func(w *World) Measure {
		ctx := w.RCtx()
		m := Measure{}
		sums := map[string]math.Int{}
		for _, cm := range w.App.CommitmentKeeper.GetAllCommitments(ctx) {
			for _, ct := range cm.CommittedTokens {
				if s, ok := sums[ct.Denom]; ok {
					sums[ct.Denom] = s.Add(ct.Amount)
				} else {
					sums[ct.Denom] = ct.Amount
				}
			}
		}
		for _, p := range w.App.AmmKeeper.GetAllPool(ctx) {
			d := ammtypes.GetPoolShareDenom(p.PoolId)
			sup := w.App.BankKeeper.GetSupply(ctx, d).Amount
			cust := w.App.BankKeeper.GetBalance(ctx, modAddr(ctypes.ModuleName), d).Amount
			s, ok := sums[d]
			if !ok {
				s = math.ZeroInt()
			}
			put(m, fmt.Sprintf("total_shares_vs_supply@pool=%d", p.PoolId), p.TotalShares.Amount.Sub(sup))
			put(m, fmt.Sprintf("committed_vs_supply@pool=%d", p.PoolId), s.Sub(sup))
			put(m, fmt.Sprintf("custody_vs_supply@pool=%d", p.PoolId), cust.Sub(sup))
			Clauses.Inc("share_accounting")
		}
		return m
	}}
}

// ---------------------------------------------------------------------------------------------
// C06: TotalValue == cash + Σ (Borrowed + InterestStacked − InterestPaid)

func OracleC06() *Oracle {
	return &Oracle{Name: "C06", State: func(w *World) Measure {
		ctx := w.RCtx()
		m := Measure{}
		sp := w.App.StablestakeKeeper.GetParams(ctx)
		cash := w.App.BankKeeper.GetBalance(ctx, modAddr(sstypes.ModuleName), sp.DepositDenom).Amount
		debt := math.ZeroInt()
		n := 0
		for _, d := range w.App.StablestakeKeeper.GetAllDebts(ctx) {
			debt = debt.Add(d.Borrowed).Add(d.InterestStacked).Sub(d.InterestPaid)
			n++
		}
		put(m, "vault_value", sp.TotalValue.Sub(cash).Sub(debt))
		Clauses.Inc("vault_value")
		if n > 0 {
			Clauses.Inc("vault_value_with_debts")
		}
		return m
	}}
}

// ---------------------------------------------------------------------------------------------
// C08: leveragelp totals

func OracleC08() *Oracle {
	return &Oracle{Name: "C08", State: func(w *World) Measure {
		ctx := w.RCtx()
		m := Measure{}
		k := w.App.LeveragelpKeeper
		positions := k.GetAllPositions(ctx)
		stored := map[uint64]bool{}
		for _, lp := range k.GetAllPools(ctx) {
			sum := math.ZeroInt()
			for _, pos := range positions {
				if pos.AmmPoolId == lp.AmmPoolId {
					sum = sum.Add(pos.LeveragedLpAmount)
				}
			}
			put(m, fmt.Sprintf("pool_total_vs_positions@pool=%d", lp.AmmPoolId), lp.LeveragedLpAmount.Sub(sum))
			Clauses.Inc("pool_total_vs_positions")
		}
		for _, pos := range positions {
			stored[pos.Id] = true
			pcm := w.App.CommitmentKeeper.GetCommitments(ctx, pos.GetPositionAddress())
			got := pcm.GetCommittedAmountForDenom(ammtypes.GetPoolShareDenom(pos.AmmPoolId))
			put(m, fmt.Sprintf("position_shares_vs_committed@pos=%d", pos.Id), pos.LeveragedLpAmount.Sub(got))
			Clauses.Inc("position_shares_vs_committed")
		}
		put(m, "open_count", math.NewInt(int64(k.GetOpenPositionCount(ctx))-int64(len(positions))))
		// closed ids leave nothing behind
		cnt := k.GetPositionCount(ctx)
		for id := uint64(1); id <= cnt; id++ {
			if stored[id] {
				continue
			}
			addr := llptypes.GetPositionAddress(id)
			left := math.ZeroInt()
			for _, ct := range w.App.CommitmentKeeper.GetCommitments(ctx, addr).CommittedTokens {
				if strings.HasPrefix(ct.Denom, "amm/pool/") {
					left = left.Add(ct.Amount)
				}
			}
			put(m, fmt.Sprintf("closed_position_leftover@pos=%d", id), left)
			Clauses.Inc("closed_position_leftover")
		}
		return m
	}}
}

// ---------------------------------------------------------------------------------------------
// C09: perpetual aggregates

func OracleC09() *Oracle {
	return &Oracle{Name: "C09", State: func(w *World) Measure {
		ctx := w.RCtx()
		m := Measure{}
		k := w.App.PerpetualKeeper
		mtps := k.GetAllMTPs(ctx)
		type key struct {
			pool uint64
			side perptypes.Position
			d    string
		}
		cu, li, co := map[key]math.Int{}, map[key]math.Int{}, map[key]math.Int{}
		add := func(mm map[key]math.Int, kk key, v math.Int) {
			if x, ok := mm[kk]; ok {
				mm[kk] = x.Add(v)
			} else {
				mm[kk] = v
			}
		}
		get := func(mm map[key]math.Int, kk key) math.Int {
			if x, ok := mm[kk]; ok {
				return x
			}
			return math.ZeroInt()
		}
		for _, t := range mtps {
			add(cu, key{t.AmmPoolId, t.Position, t.CustodyAsset}, t.Custody)
			add(li, key{t.AmmPoolId, t.Position, t.LiabilitiesAsset}, t.Liabilities)
			add(co, key{t.AmmPoolId, t.Position, t.CollateralAsset}, t.Collateral)
		}
		for _, pp := range k.GetAllPools(ctx) {
			chk := func(side perptypes.Position, as []perptypes.PoolAsset) {
				for _, a := range as {
					kk := key{pp.AmmPoolId, side, a.AssetDenom}
					id := fmt.Sprintf("pool=%d,side=%s,asset=%s", pp.AmmPoolId, side.String(), a.AssetDenom)
					put(m, "custody_sum@"+id, a.Custody.Sub(get(cu, kk)))
					put(m, "liabilities_sum@"+id, a.Liabilities.Sub(get(li, kk)))
					put(m, "collateral_sum@"+id, a.Collateral.Sub(get(co, kk)))
					Clauses.Inc("aggregate_sums")
				}
			}
			chk(perptypes.Position_LONG, pp.PoolAssetsLong)
			chk(perptypes.Position_SHORT, pp.PoolAssetsShort)
			amm, ok := w.App.AmmKeeper.GetPool(ctx, pp.AmmPoolId)
			if ok {
				for _, a := range amm.PoolAssets {
					_, custody, _, _ := pp.GetPerpetualPoolBalances(a.Token.Denom)
					put(m, fmt.Sprintf("custody_backed@pool=%d,asset=%s", pp.AmmPoolId, a.Token.Denom), posPart(custody.Sub(a.Token.Amount)))
					Clauses.Inc("custody_backed")
				}
			}
		}
		if len(mtps) > 0 {
			Clauses.Inc("aggregate_sums_with_positions")
		}
		put(m, "open_mtp_count", math.NewInt(int64(k.GetOpenMTPCount(ctx))-int64(len(mtps))))
		return m
	}}
}

// ---------------------------------------------------------------------------------------------
// C11: accounted pool == reserve + liabilities − custody

func OracleC11() *Oracle {
	return &Oracle{Name: "C11", State: func(w *World) Measure {
		ctx := w.RCtx()
		m := Measure{}
		params := w.App.PerpetualKeeper.GetParams(ctx)
		for _, pp := range w.App.PerpetualKeeper.GetAllPools(ctx) {
			ap, found := w.App.AccountedPoolKeeper.GetAccountedPool(ctx, pp.AmmPoolId)
			if !found {
				put(m, fmt.Sprintf("accounted_pool_missing@pool=%d", pp.AmmPoolId), math.OneInt())
				continue
			}
			amm, ok := w.App.AmmKeeper.GetPool(ctx, pp.AmmPoolId)
			if !ok {
				continue
			}
			tot := coinList(ap.TotalTokens)
			non := coinList(ap.NonAmmPoolTokens)
			for _, a := range amm.PoolAssets {
				d := a.Token.Denom
				liab, cust, tpLiab, tpCust := pp.GetPerpetualPoolBalances(d)
				net := liab.Sub(cust)
				if params.EnableTakeProfitCustodyLiabilities {
					net = net.Add(tpLiab).Sub(tpCust)
				}
				put(m, fmt.Sprintf("accounted_total@pool=%d,denom=%s", pp.AmmPoolId, d), tot.AmountOf(d).Sub(a.Token.Amount.Add(net)))
				put(m, fmt.Sprintf("accounted_non_amm@pool=%d,denom=%s", pp.AmmPoolId, d), non.AmountOf(d).Sub(net))
				Clauses.Inc("accounted_balance")
				if !net.IsZero() {
					Clauses.Inc("accounted_balance_with_perp_part")
				}
			}
		}
		return m
	}}
}

// ---------------------------------------------------------------------------------------------
// C12: commitment ledger

func bankBacked(d string) bool { return d != "ueden" && d != "uedenb" }

func OracleC12() *Oracle {
	return &Oracle{Name: "C12", State: func(w *World) Measure {
		ctx := w.RCtx()
		m := Measure{}
		k := w.App.CommitmentKeeper
		sums := map[string]math.Int{}
		claimed := sdk.Coins{}
		now := uint64(ctx.BlockTime().Unix())
		for _, cm := range k.GetAllCommitments(ctx) {
			for _, ct := range cm.CommittedTokens {
				if s, ok := sums[ct.Denom]; ok {
					sums[ct.Denom] = s.Add(ct.Amount)
				} else {
					sums[ct.Denom] = ct.Amount
				}
				if ct.Amount.IsNegative() {
					put(m, "negative_committed@denom="+ct.Denom, ct.Amount.Neg())
				}
				locked := math.ZeroInt()
				for _, l := range ct.Lockups {
					if l.UnlockTimestamp > now {
						locked = locked.Add(l.Amount)
					}
				}
				if locked.IsPositive() {
					Clauses.Inc("live_lockups")
				}
				if locked.GT(ct.Amount) {
					put(m, fmt.Sprintf("lockups_exceed_committed@denom=%s", ct.Denom), locked.Sub(ct.Amount))
				}
			}
			claimed = claimed.Add(cm.Claimed...)
		}
		for d, s := range sums {
			if bankBacked(d) {
				cust := w.App.BankKeeper.GetBalance(ctx, modAddr(ctypes.ModuleName), d).Amount
				put(m, "custody_covers@denom="+denomClass(d), posPart(s.Add(claimed.AmountOf(d)).Sub(cust)))
				Clauses.Inc("custody_covers")
			}
		}
		return m
	},
		// total_committed is judged per transition: ΔTotalCommitted[d] must equal ΔΣ_accounts
		// Committed[d] in every block. The mechanism of a mismatch is classified from the
		// per-account changes so that one root cause is identified by its call site rather than
		// by whichever op happened to trigger it.
		Pre: func(w *World, op *Op, plan *BlockPlan) interface{} { return snapC12(w) },
		Post: func(t *Transition) []Finding {
			pre := t.Pre.(*c12snap)
			post := snapC12(t.W)
			var out []Finding
			denoms := map[string]bool{}
			for d := range pre.total {
				denoms[d] = true
			}
			for d := range post.total {
				denoms[d] = true
			}
			for d := range pre.sum {
				denoms[d] = true
			}
			for d := range post.sum {
				denoms[d] = true
			}
			for d := range denoms {
				dT := geti(post.total, d).Sub(geti(pre.total, d))
				dS := geti(post.sum, d).Sub(geti(pre.sum, d))
				inc, dec := math.ZeroInt(), math.ZeroInt()
				accts := map[string]bool{}
				for a := range pre.per[d] {
					accts[a] = true
				}
				for a := range post.per[d] {
					accts[a] = true
				}
				for a := range accts {
					df := geti(post.per[d], a).Sub(geti(pre.per[d], a))
					if df.IsPositive() {
						inc = inc.Add(df)
					} else {
						dec = dec.Add(df.Neg())
					}
				}
				if inc.IsPositive() {
					Clauses.Inc("total_committed_on_commit")
				}
				if dec.IsPositive() {
					Clauses.Inc("total_committed_on_uncommit")
				}
				Clauses.Inc("total_committed")
				if dT.Equal(dS) {
					continue
				}
				mech := "other"
				switch {
				case dec.IsPositive() && dT.Equal(inc.Add(dec)):
					mech = "every_uncommitted_amount_added_to_total"
				case dec.IsPositive() && dT.Equal(inc):
					mech = "uncommitted_amount_not_removed_from_total"
				case inc.IsPositive() && dT.Equal(dec.Neg()):
					mech = "committed_amount_not_added_to_total"
				}
				if mech == "other" && (t.Op.Kind == "multi_msg_tx" || t.Op.Kind == "same_block") {
					// one account committed AND uncommitted in this block: the per-account NET changes hide the gross
					// amounts. Under the known mechanism (every uncommitted amount ADDED to the total) dT = C + U and
					// dS = C − U for gross commits C and gross uncommits U, so both are determined by dT and dS; the
					// mechanism is recognised only if they are whole, and at least the visible net amounts
					diff, sum := dT.Sub(dS), dT.Add(dS)
					if diff.IsPositive() && diff.ModRaw(2).IsZero() && sum.ModRaw(2).IsZero() {
						u, c := diff.QuoRaw(2), sum.QuoRaw(2)
						if u.GTE(dec) && c.GTE(inc) && !c.IsNegative() && u.GT(dec) {
							mech = "every_uncommitted_amount_added_to_total"
						}
					}
				}
				out = append(out, Finding{Clause: "total_committed", Disc: "denom=" + denomClass(d) + ",mech=" + mech,
					Detail: fmt.Sprintf("denom %s: TotalCommitted changed by %s but the accounts' committed amounts changed by %s (commits +%s, uncommits -%s) in op %s", d, dT, dS, inc, dec, t.Op.Name)})
			}
			// LOCK-UPS: what was still locked at THIS block's time may leave an account's committed balance only
			// through a liquidation (forced close of an unhealthy leveraged-LP position: the module says so
			// with its close_unhealthy_position event); never through the owner's own or any other route
			now := t.W.RCtx().BlockTime().Unix()
			liquidated := map[string]bool{}
			evs := append([]abci.Event{}, t.Res.Res.Events...)
			for _, r := range t.Res.Res.TxResults {
				evs = append(evs, r.Events...)
			}
			for _, e := range evs {
				if e.Type == "leveragelp/close_unhealthy_position" {
					for _, a := range e.Attributes {
						if a.Key == "id" {
							liquidated[a.Value] = true
						}
					}
				}
			}
			for d, accts := range pre.locks {
				for a, ls := range accts {
					still := math.ZeroInt()
					for _, l := range ls {
						if l.Unlock > now {
							still = still.Add(l.Amt)
						}
					}
					if !still.IsPositive() {
						continue
					}
					Clauses.Inc("live_lock_over_transition")
					left := geti(post.per[d], a)
					if left.GTE(still) {
						continue
					}
					if id, isPos := pre.posOf[a]; isPos && liquidated[fmt.Sprint(id)] {
						Clauses.Inc("lock_overridden_by_liquidation")
						continue
					}
					out = append(out, Finding{Clause: "locked_amount_left_without_liquidation", Disc: "denom=" + denomClass(d),
						Detail: fmt.Sprintf("account %s had %s %s under a lock still running at this block's time, yet only %s remain committed after op %s and no liquidation of it happened in the block", a, still, d, left, t.Op.Name)})
				}
			}
			return out
		},
	}
}

type c12snap struct {
	total map[string]math.Int
	sum   map[string]math.Int
	per   map[string]map[string]math.Int // denom -> account -> committed
	// lock-ups per denom -> account (amount, unlock time), and the leveraged-LP position (id) whose
	// shares an account holds, if any
	locks map[string]map[string][]c12lock
	posOf map[string]uint64
}

type c12lock struct {
	Amt    math.Int
	Unlock int64
}

func geti(m map[string]math.Int, k string) math.Int {
	if m == nil {
		return math.ZeroInt()
	}
	if v, ok := m[k]; ok {
		return v
	}
	return math.ZeroInt()
}

func snapC12(w *World) *c12snap {
	ctx := w.RCtx()
	s := &c12snap{total: map[string]math.Int{}, sum: map[string]math.Int{}, per: map[string]map[string]math.Int{}}
	for _, c := range w.App.CommitmentKeeper.GetParams(ctx).TotalCommitted {
		s.total[c.Denom] = c.Amount
	}
	s.locks = map[string]map[string][]c12lock{}
	s.posOf = map[string]uint64{}
	for _, cm := range w.App.CommitmentKeeper.GetAllCommitments(ctx) {
		for _, ct := range cm.CommittedTokens {
			s.sum[ct.Denom] = geti(s.sum, ct.Denom).Add(ct.Amount)
			if s.per[ct.Denom] == nil {
				s.per[ct.Denom] = map[string]math.Int{}
			}
			s.per[ct.Denom][cm.Creator] = geti(s.per[ct.Denom], cm.Creator).Add(ct.Amount)
			for _, l := range ct.Lockups {
				if s.locks[ct.Denom] == nil {
					s.locks[ct.Denom] = map[string][]c12lock{}
				}
				s.locks[ct.Denom][cm.Creator] = append(s.locks[ct.Denom][cm.Creator], c12lock{l.Amount, int64(l.UnlockTimestamp)})
			}
		}
	}
	for _, ps := range w.App.LeveragelpKeeper.GetAllPositions(ctx) {
		s.posOf[ps.GetPositionAddress().String()] = ps.Id
	}
	return s
}

// denomClass keeps discriminators stable across pool ids
func denomClass(d string) string {
	if strings.HasPrefix(d, "amm/pool/") {
		return "amm/pool/N"
	}
	return d
}

// ---------------------------------------------------------------------------------------------
// C13: every credited reward is backed by the module balance

func pendingRewards(w *World, ctx sdk.Context) map[string]*big.Int {
	k := w.App.MasterchefKeeper
	total := map[string]*big.Int{}
	e18 := big.NewInt(1e18)
	users := w.App.CommitmentKeeper.GetAllCommitments(ctx)
	infos := k.GetAllPoolRewardInfos(ctx)
	// accounts with a stored reward record but no commitments record are covered too
	type uk struct {
		u string
		p uint64
		d string
	}
	done := map[uk]bool{}
	calc := func(user sdk.AccAddress, pool uint64, denom string, acc math.LegacyDec) {
		kk := uk{user.String(), pool, denom}
		if done[kk] {
			return
		}
		done[kk] = true
		bal := k.GetPoolBalance(ctx, pool, user)
		uri, found := k.GetUserRewardInfo(ctx, user, pool, denom)
		pend := new(big.Int)
		debt := new(big.Int)
		if found {
			pend = uri.RewardPending.BigInt() // scaled 1e18
			debt = uri.RewardDebt.BigInt()
		}
		// pending = RewardPending + (acc*bal − debt)/1e18, all LegacyDec (1e18-scaled ints)
		accBal := new(big.Int).Mul(acc.BigInt(), bal.BigInt()) // 1e18-scaled
		d := new(big.Int).Sub(accBal, debt)
		d.Quo(d, e18) // LegacyDec QuoInt(OneShare) (rounding differences ≤ 1e-18)
		tot := new(big.Int).Add(pend, d)
		// floor to integer tokens: what ClaimRewards would pay (TruncateInt)
		tot.Quo(tot, e18)
		if tot.Sign() > 0 {
			if total[denom] == nil {
				total[denom] = new(big.Int)
			}
			total[denom].Add(total[denom], tot)
		}
	}
	for _, pri := range infos {
		for _, cm := range users {
			calc(sdk.MustAccAddressFromBech32(cm.Creator), pri.PoolId, pri.RewardDenom, pri.PoolAccRewardPerShare)
		}
	}
	for _, u := range k.GetAllUserRewardInfos(ctx) {
		pri, found := k.GetPoolRewardInfo(ctx, u.PoolId, u.RewardDenom)
		acc := math.LegacyZeroDec()
		if found {
			acc = pri.PoolAccRewardPerShare
		}
		calc(sdk.MustAccAddressFromBech32(u.User), u.PoolId, u.RewardDenom, acc)
	}
	return total
}

type c13snap struct {
	bal     map[string]math.Int       // holder|pool -> committed shares
	acc     map[string]math.LegacyDec // pool|denom -> acc per share
	surplus map[string]math.Int       // see snapC13
}

func snapC13(w *World) *c13snap {
	ctx := w.RCtx()
	s := &c13snap{bal: map[string]math.Int{}, acc: map[string]math.LegacyDec{}, surplus: map[string]math.Int{}}
	k := w.App.MasterchefKeeper
	// surplus per bank-backed denom: module balance - what running incentives still owe to future blocks
	// - everything credited and unclaimed
	{
		h := ctx.BlockHeight()
		promised := map[string]math.Int{}
		for _, inc := range k.GetAllExternalIncentives(ctx) {
			if h >= inc.ToBlock {
				continue
			}
			from := inc.FromBlock
			if h > from {
				from = h
			}
			promised[inc.RewardDenom] = geti(promised, inc.RewardDenom).Add(inc.AmountPerBlock.MulRaw(inc.ToBlock - from))
		}
		for d, tot := range pendingRewards(w, ctx) {
			if bankBacked(d) {
				bal := w.App.BankKeeper.GetBalance(ctx, modAddr(mctypes.ModuleName), d).Amount
				s.surplus[d] = bal.Sub(geti(promised, d)).Sub(math.NewIntFromBigInt(tot))
			}
		}
	}
	for _, pri := range k.GetAllPoolRewardInfos(ctx) {
		s.acc[fmt.Sprintf("%d|%s", pri.PoolId, pri.RewardDenom)] = pri.PoolAccRewardPerShare
	}
	for _, pi := range k.GetAllPoolInfos(ctx) {
		for _, cm := range w.App.CommitmentKeeper.GetAllCommitments(ctx) {
			b := k.GetPoolBalance(ctx, pi.PoolId, sdk.MustAccAddressFromBech32(cm.Creator))
			if b.IsPositive() {
				s.bal[fmt.Sprintf("%s|%d", cm.Creator, pi.PoolId)] = b
			}
		}
	}
	return s
}

func OracleC13() *Oracle {
	return &Oracle{Name: "C13", State: func(w *World) Measure {
		ctx := w.RCtx()
		m := Measure{}
		for d, tot := range pendingRewards(w, ctx) {
			if !bankBacked(d) {
				continue
			}
			bal := w.App.BankKeeper.GetBalance(ctx, modAddr(mctypes.ModuleName), d).Amount
			short := math.NewIntFromBigInt(tot).Sub(bal)
			put(m, "pending_backed@denom="+d, posPart(short))
			Clauses.Inc("pending_backed")
			// sharper: external incentives are funded UP FRONT, so part of the balance is already promised
			// to FUTURE blocks; what is credited today must fit into the rest (else the last claimant of the
			// incentive cannot be paid once it has run out)
			promised := math.ZeroInt()
			h := ctx.BlockHeight()
			for _, inc := range w.App.MasterchefKeeper.GetAllExternalIncentives(ctx) {
				if inc.RewardDenom != d || h >= inc.ToBlock {
					continue
				}
				from := inc.FromBlock
				if h > from {
					from = h
				}
				promised = promised.Add(inc.AmountPerBlock.MulRaw(inc.ToBlock - from))
			}
			if promised.IsPositive() {
				put(m, "pending_backed_net_of_promised@denom="+d, posPart(math.NewIntFromBigInt(tot).Sub(bal.Sub(promised))))
				Clauses.Inc("pending_backed_net_of_promised")
			}
			if tot.Sign() > 0 {
				Clauses.Inc("pending_backed_nonzero")
			}
		}
		return m
	},
		// a holder whose committed balance of a pool went from zero to positive in this block may have
		// been credited at most this block's distribution on that balance: nothing from earlier blocks
		Pre: func(w *World, op *Op, plan *BlockPlan) interface{} { return snapC13(w) },
		Post: func(t *Transition) []Finding {
			pre := t.Pre.(*c13snap)
			post := snapC13(t.W)
			ctx := t.W.RCtx()
			k := t.W.App.MasterchefKeeper
			var out []Finding
			// the SURPLUS of a reward denom (balance - promised to future blocks - credited) never goes down:
			// a distribution moves promised or incoming funds into credit one for one (rounding stays in the
			// surplus), a claim moves the same amount out of balance and out of credit. Paying a claimant more
			// than it was credited, or crediting more than came in, shows here at once — long before the last
			// claimant finds the module short.
			for d, u0 := range pre.surplus {
				u1, ok := post.surplus[d]
				if !ok {
					continue
				}
				Clauses.Inc("reward_surplus_monotone")
				if u1.LT(u0.SubRaw(10)) {
					out = append(out, Finding{Clause: "reward_surplus_decreased", Disc: "denom=" + d, Detail: fmt.Sprintf("%s: balance - promised - credited went %s -> %s in op %s (more was paid out or credited than the books allow)", d, u0, u1, t.Op.Name)})
				}
			}
			for key, b := range post.bal {
				if _, had := pre.bal[key]; had {
					continue
				}
				var holder string
				var pool uint64
				parts := strings.SplitN(key, "|", 2)
				holder = parts[0]
				fmt.Sscanf(parts[1], "%d", &pool)
				addr := sdk.MustAccAddressFromBech32(holder)
				for ad, accPost := range post.acc {
					var p2 uint64
					var denom string
					pp := strings.SplitN(ad, "|", 2)
					fmt.Sscanf(pp[0], "%d", &p2)
					denom = pp[1]
					if p2 != pool {
						continue
					}
					accPre, ok := pre.acc[ad]
					if !ok {
						accPre = math.LegacyZeroDec()
					}
					uri, found := k.GetUserRewardInfo(ctx, addr, pool, denom)
					pend, debt := math.LegacyZeroDec(), math.LegacyZeroDec()
					if found {
						pend, debt = uri.RewardPending, uri.RewardDebt
					}
					pending := pend.Add(accPost.MulInt(b).Sub(debt).QuoInt(ammtypes.OneShare))
					limit := accPost.Sub(accPre).MulInt(b).QuoInt(ammtypes.OneShare).Add(math.LegacyOneDec())
					Clauses.Inc("fresh_commit_earns_only_this_block")
					if pending.GT(limit) {
						out = append(out, Finding{Clause: "fresh_commit_credited_past_rewards", Disc: "denom=" + denom, Detail: fmt.Sprintf("holder %s committed %s shares of pool %d in this block and is already credited %s %s; this block's distribution on that balance is at most %s", holder, b, pool, pending, denom, limit)})
					}
				}
			}
			return out
		},
	}
}

// C13Drain: below a node, every claimant claims in every order (one block per order, all claims in
// it); every claim must succeed. The leveraged-LP claim of t1's positions goes first or last.
func C13Drain(maxDepth int) func(x *Explorer, depth int, path []string, root string, phase int) {
	holders := []string{"lp1", "lp2", "t1", "t2"}
	var perms [][]string
	var rec func(cur []string, rest []string)
	rec = func(cur, rest []string) {
		if len(rest) == 0 {
			perms = append(perms, append([]string{}, cur...))
			return
		}
		for i := range rest {
			nr := append(append([]string{}, rest[:i]...), rest[i+1:]...)
			rec(append(cur, rest[i]), nr)
		}
	}
	rec(nil, holders)
	return func(x *Explorer, depth int, path []string, root string, phase int) {
		if depth > maxDepth {
			return
		}
		w := x.W
		v, env := w.Height(), w.Env
		ids := []uint64{}
		for _, ps := range w.LLPsOf("t1") {
			ids = append(ids, ps.Id)
		}
		for pi, perm := range perms {
			plan := &BlockPlan{Dt: 5, Feed: true}
			llp := PlannedTx{Signer: "t1", Msgs: []sdk.Msg{&llptypes.MsgClaimRewards{Sender: w.A("t1").Addr.String(), Ids: ids}}}
			if len(ids) > 0 && pi%2 == 0 {
				plan.Txs = append(plan.Txs, llp)
			}
			for _, h := range perm {
				plan.Txs = append(plan.Txs, PlannedTx{Signer: h, Msgs: []sdk.Msg{&mctypes.MsgClaimRewards{Sender: w.A(h).Addr.String(), PoolIds: []uint64{1, 2, uint64(sstypes.PoolId)}}}})
			}
			if len(ids) > 0 && pi%2 == 1 {
				plan.Txs = append(plan.Txs, llp)
			}
			br := w.Exec(plan)
			x.CountTransition()
			if br.OK() {
				Clauses.Inc("drain_orders")
				// the leveraged-LP claim names position ids: a position that THIS block's begin-block sweep closed
				// (its rewards were paid out with the close) cannot be claimed for any more — not a failed payout
				llpGone := false
				if len(ids) > 0 {
					left := map[uint64]bool{}
					for _, ps := range w.LLPsOf("t1") {
						left[ps.Id] = true
					}
					for _, id := range ids {
						if !left[id] {
							llpGone = true
						}
					}
				}
				for i, ti := range plan.TxIndex {
					if llpGone && len(plan.Txs[i].Msgs) == 1 {
						if _, isLlp := plan.Txs[i].Msgs[0].(*llptypes.MsgClaimRewards); isLlp {
							Clauses.Inc("drain_llp_claim_of_position_closed_in_the_same_block_not_judged")
							continue
						}
					}
					if r := br.Res.TxResults[ti]; r.Code != 0 {
						log := r.Log
						if len(log) > 160 {
							log = log[:160]
						}
						x.Record(Finding{Clause: "claim_failed_in_drain", Culprit: "drain", Disc: "claimant_position=" + fmt.Sprint(i), Detail: fmt.Sprintf("after %s%v, claim order %v: claim #%d (signer %s) failed: %s", root, path, perm, i, plan.Txs[i].Signer, log)}, root, path, phase)
					}
				}
			}
			w.Rollback(v, env)
		}
	}
}

// ---------------------------------------------------------------------------------------------
// C15 (state part): externally issued assets keep their genesis supply

func OracleC15Supply() *Oracle {
	return &Oracle{Name: "C15", State: func(w *World) Measure {
		ctx := w.RCtx()
		m := Measure{}
		for _, d := range []string{"uusdc", "uatom"} {
			put(m, "external_supply@denom="+d, w.App.BankKeeper.GetSupply(ctx, d).Amount.Sub(genesisPerDenom))
			Clauses.Inc("external_supply")
		}
		return m
	}}
}

// coinList looks amounts up in a raw []sdk.Coin (which, unlike sdk.Coins, may legally hold
// negative or zero amounts in Elys' accounted-pool records).
type coinList []sdk.Coin

func (c coinList) AmountOf(d string) math.Int {
	for _, x := range c {
		if x.Denom == d {
			return x.Amount
		}
	}
	return math.ZeroInt()
}
