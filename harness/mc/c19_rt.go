//go:build verif && verifrt

package mc

import (
	"fmt"
	"runtime"
	_ "unsafe"
)

// Map-iteration seam: these symbols exist only in the runtime overlaid by /verif/check (rt build).

//go:linkname verifMapSet runtime.verifMapSet
func verifMapSet(mode uint32, target uintptr, alt uintptr)

//go:linkname verifMapReset runtime.verifMapReset
func verifMapReset()

//go:linkname verifMapSitesCopy runtime.verifMapSitesCopy
func verifMapSitesCopy() ([]uintptr, []uint32)

const HaveMapSeam = true

func MapSeamSet(mode uint32, target uintptr, alt uintptr) { verifMapSet(mode, target, alt) }
func MapSeamReset()                                       { verifMapReset() }
func MapSeamSites() ([]uintptr, []uint32)                 { return verifMapSitesCopy() }

// SiteName symbolises the return PC of a range-over-map statement.
func SiteName(pc uintptr) string {
	f := runtime.FuncForPC(pc - 1)
	if f == nil {
		return fmt.Sprintf("pc:%x", pc)
	}
	file, line := f.FileLine(pc - 1)
	return fmt.Sprintf("%s:%d (%s)", file, line, f.Name())
}
