//go:build verif

package mc

import (
	"fmt"
	"sort"
	"strings"
)

// C18 (transition part): a block whose user transactions all failed must leave every module
// store equal to the sibling block with the same header and no user transactions, apart from the
// signer's account record (sequence) — "fails alone and is rolled back". The sibling is obtained
// by rolling the instance back, executing the empty sibling, and re-executing the original block.

type c18pre struct {
	v   int64
	env Env
}

func OracleC18() *Oracle {
	skip := map[string]bool{"acc": true}
	return &Oracle{Name: "C18",
		Pre: func(w *World, op *Op, plan *BlockPlan) interface{} { return &c18pre{w.Height(), w.Env} },
		Post: func(t *Transition) []Finding {
			if len(t.Plan.TxIndex) == 0 {
				return nil
			}
			feePaid := false
			for _, pt := range t.Plan.Txs {
				if !pt.Fee.IsZero() {
					feePaid = true
				}
			}
			for _, ti := range t.Plan.TxIndex {
				if t.Res.Res.TxResults[ti].Code == 0 {
					return nil
				}
			}
			if feePaid {
				Clauses.Inc("failed_tx_with_fee_not_judged")
				return nil
			}
			w := t.W
			pre := t.Pre.(*c18pre)
			got := w.StoreDigest(w.RCtx(), skip)
			wantHash := w.App.LastCommitID().Hash
			// sibling: same header, same gov steps and feed, no user txs
			w.Rollback(pre.v, pre.env)
			sib := *t.Plan
			sib.Txs = nil
			sib.TxIndex = nil
			sib.GovErrs = nil
			br := w.Exec(&sib)
			var out []Finding
			if !br.OK() {
				// the sibling itself fails: block failure, judged by the block-failure clause
				w.Rollback(pre.v, pre.env)
			} else {
				want := w.StoreDigest(w.RCtx(), skip)
				diff := []string{}
				for k, v := range want {
					if got[k] != v {
						diff = append(diff, k)
					}
				}
				sort.Strings(diff)
				Clauses.Inc("failed_tx_rolled_back")
				if len(diff) > 0 {
					out = append(out, Finding{Clause: "failed_tx_left_state_behind", Disc: "stores=" + strings.Join(diff, "+"),
						Detail: fmt.Sprintf("all user txs of op %s failed (codes %v) yet stores %v differ from the sibling block without them", t.Op.Name, t.Res.Codes(), diff)})
				}
				w.Rollback(pre.v, pre.env)
			}
			// restore the explored state by re-executing the original plan
			re := *t.Plan
			re.TxIndex = nil
			re.GovErrs = nil
			rb := w.Exec(&re)
			if !rb.OK() || string(w.App.LastCommitID().Hash) != string(wantHash) {
				panic(fmt.Sprintf("C18 sibling check: re-execution of %s diverged", t.Op.Name))
			}
			return out
		},
	}
}
