//go:build verif

package mc

import (
	"fmt"
	"time"

	"cosmossdk.io/math"
	sdk "github.com/cosmos/cosmos-sdk/types"
	authtypes "github.com/cosmos/cosmos-sdk/x/auth/types"
	distrtypes "github.com/cosmos/cosmos-sdk/x/distribution/types"
	ctypes "github.com/elys-network/elys/x/commitment/types"
)

// Engine K part of C18: the begin-block reward allocation among SEVERAL receivers. The chain hands the
// stakers' share of every block's fees to the bonded validators and to the two virtual validators that
// stand for all committed Eden and all committed Eden Boost, in proportion to their weight. Whether the
// shares and the amounts fit together is a matter of the RATIOS between the three weights, which block-level
// histories of the fixture barely vary (its Eden Boost is a few hundred units). The product sets the ratios
// directly — committed Eden and Eden Boost at 0, 1/4, 1/3, 1/7 and 1x the bonded stake, credited the way
// rewards are (AddEdenEdenBOnAccount + the real MsgCommitClaimedRewards) — under every boundary of the
// community tax (the real MsgUpdateParams of x/distribution) and three fee sizes, then runs the real
// end-blockers that collect the fee and the application's real BeginBlocker of the next height.
// Judged: neither panics nor returns an error.

type c18kCase struct {
	Tax                 string
	EdenFrac, BoostFrac string
	Fee                 int64
}

func c18kAllocationAll() (cases int64, findings []foundViolation) {
	w := NewWorld(FixtureCfg{})
	defer w.Close()
	lp1, lp2 := w.A("lp1"), w.A("lp2")
	base, _ := w.Ctx().CacheContext()
	base = base.WithBlockHeight(w.Height() + 1).WithBlockTime(time.Unix(w.Env.Tm+5, 0).UTC())
	bonded, err := w.App.EstakingKeeper.TotalBondedTokens(base)
	if err != nil || !bonded.IsPositive() {
		return 0, []foundViolation{{Finding: Finding{Clause: "harness_error", Detail: fmt.Sprint("bonded tokens: ", bonded, err)}, Root: "K"}}
	}
	deliver := func(ctx sdk.Context, msg sdk.Msg) (err error) {
		defer func() {
			if r := recover(); r != nil {
				err = fmt.Errorf("panic: %v", r)
			}
		}()
		_, err = w.App.MsgServiceRouter().Handler(msg)(ctx, msg)
		return err
	}
	fracs := []struct {
		n        string
		num, den int64
	}{{"0", 0, 1}, {"1/4", 1, 4}, {"1/3", 1, 3}, {"1/7", 1, 7}, {"1", 1, 1}}
	seen := map[string]bool{}
	for _, tax := range []string{"default", "0", "1"} {
		for _, ef := range fracs {
			for _, bf := range fracs {
				for _, fee := range []int64{7, 600, 1e9} {
					c := c18kCase{tax, ef.n, bf.n, fee}
					ctx, _ := base.CacheContext()
					if tax != "default" {
						p, err := w.App.DistrKeeper.Params.Get(ctx)
						if err != nil {
							continue
						}
						p.CommunityTax = Dec(tax)
						if err := deliver(ctx, &distrtypes.MsgUpdateParams{Authority: w.Gov, Params: p}); err != nil {
							continue // the configuration is refused: nothing to judge
						}
					}
					eden, boost := bonded.MulRaw(ef.num).QuoRaw(ef.den), bonded.MulRaw(bf.num).QuoRaw(bf.den)
					ok := true
					if eden.IsPositive() {
						w.App.CommitmentKeeper.AddEdenEdenBOnAccount(ctx, lp1.Addr, sdk.NewCoins(sdk.NewCoin("ueden", eden)))
						ok = ok && deliver(ctx, &ctypes.MsgCommitClaimedRewards{Creator: lp1.Addr.String(), Denom: "ueden", Amount: eden}) == nil
					}
					if boost.IsPositive() {
						w.App.CommitmentKeeper.AddEdenEdenBOnAccount(ctx, lp2.Addr, sdk.NewCoins(sdk.NewCoin("uedenb", boost)))
						ok = ok && deliver(ctx, &ctypes.MsgCommitClaimedRewards{Creator: lp2.Addr.String(), Denom: "uedenb", Amount: boost}) == nil
					}
					if !ok {
						continue
					}
					if err := w.App.BankKeeper.SendCoinsFromAccountToModule(ctx, w.A("t3").Addr, authtypes.FeeCollectorName, sdk.NewCoins(sdk.NewCoin("uusdc", math.NewInt(fee)))); err != nil {
						continue
					}
					cases++
					var failure string
					func() {
						defer func() {
							if r := recover(); r != nil {
								failure = fmt.Sprintf("panic: %v", r)
							}
						}()
						if err := w.App.MasterchefKeeper.EndBlocker(ctx); err != nil {
							failure = "masterchef end-blocker: " + err.Error()
							return
						}
						if err := w.App.EstakingKeeper.EndBlocker(ctx); err != nil {
							failure = "estaking end-blocker: " + err.Error()
							return
						}
						next := ctx.WithBlockHeight(ctx.BlockHeight() + 1).WithBlockTime(ctx.BlockTime().Add(5 * time.Second))
						if _, err := w.App.BeginBlocker(next); err != nil {
							failure = "begin-block: " + err.Error()
						}
					}()
					if failure != "" {
						disc := "tax=" + tax
						if !seen[disc] {
							seen[disc] = true
							findings = append(findings, foundViolation{Finding: Finding{Clause: "block_processing_failed", Culprit: "reward_allocation", Disc: disc, Detail: fmt.Sprintf("community tax %s, bonded %s, committed Eden %s (%s of bonded), committed Eden Boost %s (%s), fee %d uusdc collected: the next block's processing fails: %s", tax, bonded, eden, ef.n, boost, bf.n, fee, firstLines(failure, 3))}, Root: "K", Trace: []string{fmt.Sprintf("%+v", c)}})
						}
					}
				}
			}
		}
	}
	return
}
