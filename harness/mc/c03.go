//go:build verif

package mc

import (
	authtypes "github.com/cosmos/cosmos-sdk/x/auth/types"
	"encoding/json"
	"fmt"
	"math"
	"math/big"
	"os"
	"time"

	sdkmath "cosmossdk.io/math"
	sdk "github.com/cosmos/cosmos-sdk/types"
	aptypes "github.com/elys-network/elys/x/accountedpool/types"
	ammtypes "github.com/elys-network/elys/x/amm/types"
	oracletypes "github.com/elys-network/elys/x/oracle/types"
)

// Engine G (+K) for C03.
//  part "grid":   full Cartesian product over the REAL Pool.CalcOutAmtGivenIn / CalcInAmtGivenOut
//  part "seq":    round trips and split trades through the real keeper + bank on real CPMM pools
//  part "oracle": product of oracle-pool configurations, real keeper swaps, bank-delta oracle

type c03Unit struct {
	Part string `json:"part"`
	I    int    `json:"i"`
	J    int    `json:"j"`
	Tier string `json:"tier"`
}

var c03Reserves = []string{"1000", "3000", "1000000", "3000000", "1000000000", "3000000000", "1000000000000", "3000000000000", "1000000000000000", "3000000000000000", "1000000000000000000", "3000000000000000000"}
var c03Weights = [][2]int64{{1, 1}, {1, 2}, {2, 1}, {1, 4}, {4, 1}, {80, 20}, {20, 80}, {1, 3}}
var c03Fees = []string{"0", "0.001", "0.003", "0.01", "0.02", "0.0024", "0.016"}

func bigI(s string) sdkmath.Int { v, _ := sdkmath.NewIntFromString(s); return v }

func c03Sizes(r sdkmath.Int, out bool) []sdkmath.Int {
	m := map[string]bool{}
	var res []sdkmath.Int
	add := func(v sdkmath.Int) {
		if v.IsPositive() && !m[v.String()] {
			m[v.String()] = true
			res = append(res, v)
		}
	}
	add(sdkmath.NewInt(1))
	add(sdkmath.NewInt(2))
	add(sdkmath.NewInt(10))
	add(r.QuoRaw(1000000))
	add(r.QuoRaw(1000))
	add(r.QuoRaw(100))
	add(r.QuoRaw(10))
	add(r.QuoRaw(2))
	add(r.MulRaw(9).QuoRaw(10))
	if out {
		add(r.SubRaw(1))
	} else {
		add(r)
		add(r.MulRaw(3))
	}
	return res
}

func ratOfDec(d sdkmath.LegacyDec) *big.Rat {
	return new(big.Rat).SetFrac(d.BigInt(), new(big.Int).Exp(big.NewInt(10), big.NewInt(18), nil))
}

func f64(r *big.Rat) float64 { f, _ := r.Float64(); return f }

type c03Grid struct {
	w  *World
	st *KStats
}

func (g *c03Grid) find(f Finding, in interface{}) {
	for _, x := range g.st.Findings {
		if x.Sig() == f.Sig() {
			return
		}
	}
	g.st.Findings = append(g.st.Findings, KFinding{Finding: f, Input: in, Len: 1})
}

func c03Pool(bi, bo sdkmath.Int, wi, wo int64, fee string) ammtypes.Pool {
	return ammtypes.Pool{PoolId: 9999, Address: ammtypes.NewPoolAddress(9999).String(), RebalanceTreasury: ammtypes.NewPoolRebalanceTreasury(9999).String(),
		PoolParams:  ammtypes.PoolParams{SwapFee: Dec(fee), UseOracle: false, FeeDenom: "uusdc"},
		TotalShares: sdk.NewCoin("amm/pool/9999", sdkmath.NewInt(1e18).MulRaw(100)),
		PoolAssets: []ammtypes.PoolAsset{
			{Token: sdk.NewCoin("uina", bi), Weight: sdkmath.NewInt(wi), ExternalLiquidityRatio: sdkmath.LegacyOneDec()},
			{Token: sdk.NewCoin("uouta", bo), Weight: sdkmath.NewInt(wo), ExternalLiquidityRatio: sdkmath.LegacyOneDec()},
		}, TotalWeight: sdkmath.NewInt(wi + wo)}
}

func (g *c03Grid) cell(bi, bo sdkmath.Int) {
	ctx := g.w.RCtx()
	ok, ak := g.w.App.OracleKeeper, g.w.App.AccountedPoolKeeper
	for _, wt := range c03Weights {
		for _, fee := range c03Fees {
			pool := c03Pool(bi, bo, wt[0], wt[1], fee)
			feeR := ratOfDec(Dec(fee))
			oneMinusFee := new(big.Rat).Sub(big.NewRat(1, 1), feeR)
			equal := wt[0] == wt[1]
			regime := "unequal_weights"
			if equal {
				regime = "equal_weights"
			}
			// ---- exact in
			for _, a := range c03Sizes(bi, false) {
				g.st.Evaluations++
				var out sdk.Coin
				var err error
				func() {
					defer func() {
						if r := recover(); r != nil {
							err = fmt.Errorf("panic: %v", r)
						}
					}()
					out, _, err = pool.CalcOutAmtGivenIn(ctx, ok, &pool, sdk.Coins{sdk.NewCoin("uina", a)}, "uouta", Dec(fee), ak)
				}()
				if err != nil {
					g.st.Clauses["exact_in_refused"]++
					continue
				}
				g.st.Clauses["exact_in_"+regime]++
				aEff := new(big.Rat).Mul(new(big.Rat).SetInt(a.BigInt()), oneMinusFee)
				biR, boR := new(big.Rat).SetInt(bi.BigInt()), new(big.Rat).SetInt(bo.BigInt())
				y := new(big.Rat).Quo(biR, new(big.Rat).Add(biR, aEff)) // <= 1
				var excess float64                                      // impl − reference, in base units
				var allow float64
				if equal {
					ref := new(big.Rat).Mul(boR, new(big.Rat).Sub(big.NewRat(1, 1), y)) // exact
					excess = f64(new(big.Rat).Sub(new(big.Rat).SetInt(out.Amount.BigInt()), ref))
					allow = 1 + 2*f64(boR)*1e-18
				} else {
					r := float64(wt[0]) / float64(wt[1])
					ref := f64(boR) * (1 - math.Pow(f64(y), r))
					excess = float64FromInt(out.Amount) - ref
					allow = 1 + 1.0001e-8*f64(boR)
				}
				if rel := excess / allow; rel > g.st.Extra["max_excess_over_allowance_exact_in_"+regime] {
					g.st.Extra["max_excess_over_allowance_exact_in_"+regime] = rel
				}
				if excess > allow {
					g.find(Finding{Clause: "swap_pays_more_than_formula", Culprit: "CalcOutAmtGivenIn", Disc: regime, Detail: fmt.Sprintf("reserves in=%s out=%s weights %d:%d fee %s: %s in gives %s out, exact formula allows %.3f less (allowance %.3f)", bi, bo, wt[0], wt[1], fee, a, out.Amount, excess, allow)},
						map[string]interface{}{"fn": "CalcOutAmtGivenIn", "bi": bi.String(), "bo": bo.String(), "wi": wt[0], "wo": wt[1], "fee": fee, "amount": a.String()})
				}
			}
			// ---- exact out
			for _, o := range c03Sizes(bo, true) {
				g.st.Evaluations++
				var in sdk.Coin
				var err error
				func() {
					defer func() {
						if r := recover(); r != nil {
							err = fmt.Errorf("panic: %v", r)
						}
					}()
					in, _, err = pool.CalcInAmtGivenOut(ctx, ok, &pool, sdk.Coins{sdk.NewCoin("uouta", o)}, "uina", Dec(fee), ak)
				}()
				if err != nil {
					g.st.Clauses["exact_out_refused"]++
					continue
				}
				g.st.Clauses["exact_out_"+regime]++
				biR, boR := new(big.Rat).SetInt(bi.BigInt()), new(big.Rat).SetInt(bo.BigInt())
				y := new(big.Rat).Quo(boR, new(big.Rat).Sub(boR, new(big.Rat).SetInt(o.BigInt()))) // >= 1
				var short, allow float64                                                           // reference − impl
				if equal {
					ref := new(big.Rat).Quo(new(big.Rat).Mul(biR, new(big.Rat).Sub(y, big.NewRat(1, 1))), oneMinusFee)
					short = f64(new(big.Rat).Sub(ref, new(big.Rat).SetInt(in.Amount.BigInt())))
					allow = 1 + 2*f64(biR)*f64(y)*1e-18/f64(oneMinusFee)
				} else {
					r := float64(wt[1]) / float64(wt[0])
					p := math.Pow(f64(y), r)
					ref := f64(biR) * (p - 1) / f64(oneMinusFee)
					short = ref - float64FromInt(in.Amount)
					allow = 1 + 1.0001e-8*f64(biR)*math.Max(1, p)/f64(oneMinusFee)
				}
				if rel := short / allow; rel > g.st.Extra["max_excess_over_allowance_exact_out_"+regime] {
					g.st.Extra["max_excess_over_allowance_exact_out_"+regime] = rel
				}
				if short > allow {
					g.find(Finding{Clause: "swap_charges_less_than_formula", Culprit: "CalcInAmtGivenOut", Disc: regime, Detail: fmt.Sprintf("reserves in=%s out=%s weights %d:%d fee %s: %s out costs %s in, exact formula requires %.3f more (allowance %.3f)", bi, bo, wt[0], wt[1], fee, o, in.Amount, short, allow)},
						map[string]interface{}{"fn": "CalcInAmtGivenOut", "bi": bi.String(), "bo": bo.String(), "wi": wt[0], "wo": wt[1], "fee": fee, "amount": o.String()})
				}
			}
		}
	}
	g.st.Sequences++
}

func float64FromInt(i sdkmath.Int) float64 {
	f, _ := new(big.Float).SetInt(i.BigInt()).Float64()
	return f
}

// ---------------------------------------------------------------------------------------------
// part "seq": real keeper, real bank, real CPMM pools of the worker's world

type c03Env struct {
	w     *World
	pools []uint64
}

func c03Setup() *c03Env {
	w := NewWorld(FixtureCfg{})
	lp1 := w.A("lp1")
	e := &c03Env{w: w}
	mk := func(d2 string, a2, ausdc, w2, wusdc int64, fee string) {
		w.mustBlock("c03 pool", PlannedTx{Signer: "lp1", Msgs: []sdk.Msg{mkPoolMsg(lp1, false, d2, a2, ausdc, w2, wusdc, fee)}})
		ps := w.App.AmmKeeper.GetAllPool(w.RCtx())
		e.pools = append(e.pools, ps[len(ps)-1].PoolId)
	}
	mk("uatom", 1e12, 5e12, 1, 1, "0.003")
	mk("uatom", 4e6, 5e6, 80, 20, "0.01")
	mk("uelys", 1e9, 1e9, 1, 2, "0")
	// the DEEPEST uatom/uusdc pool of the chain (three times the fixture's oracle pool): the pool masterchef's
	// end-block fee conversion goes through — msgseq's fee-block variant needs the trader and the conversion on
	// the same pool
	mk("uatom", 3e12, 15e12, 1, 1, "0.003")
	return e
}

func (e *c03Env) swapIn(ctx sdk.Context, poolId uint64, who sdk.AccAddress, in sdk.Coin, outDenom string) (sdkmath.Int, error) {
	p, _ := e.w.App.AmmKeeper.GetPool(ctx, poolId)
	c, write := ctx.CacheContext()
	out, err := e.w.App.AmmKeeper.InternalSwapExactAmountIn(c, who, who, p, in, outDenom, sdkmath.OneInt(), p.PoolParams.SwapFee)
	if err == nil {
		write()
	}
	return out, err
}

func (e *c03Env) seq(st *KStats, pi int) {
	w := e.w
	poolId := e.pools[pi]
	base, _ := w.Ctx().CacheContext()
	base = base.WithBlockHeight(w.Height() + 1).WithBlockTime(time.Unix(w.Env.Tm+5, 0).UTC())
	p, _ := w.App.AmmKeeper.GetPool(base, poolId)
	who := w.A("q8").Addr
	da, db := p.PoolAssets[0].Token.Denom, p.PoolAssets[1].Token.Denom
	equal := p.PoolAssets[0].Weight.Equal(p.PoolAssets[1].Weight)
	find := func(f Finding, in interface{}) {
		for _, x := range st.Findings {
			if x.Sig() == f.Sig() {
				return
			}
		}
		st.Findings = append(st.Findings, KFinding{Finding: f, Input: in, Len: 2})
	}
	allowFor := func(reserve sdkmath.Int) float64 {
		if equal {
			return 1 + 2*float64FromInt(reserve)*1e-18
		}
		return 1 + 1.0001e-8*float64FromInt(reserve)
	}
	for _, dir := range [][2]string{{da, db}, {db, da}} {
		rin := p.PoolAssets[0].Token.Amount
		rout := p.PoolAssets[1].Token.Amount
		if dir[0] == db {
			rin, rout = rout, rin
		}
		sizes := c03Sizes(rin, false)
		for _, a := range sizes {
			// round trip a: A -> B -> A
			c, _ := base.CacheContext()
			b0 := w.App.BankKeeper.GetBalance(c, who, dir[0]).Amount
			st.Evaluations++
			o1, err := e.swapIn(c, poolId, who, sdk.NewCoin(dir[0], a), dir[1])
			if err != nil {
				continue
			}
			st.Evaluations++
			if _, err = e.swapIn(c, poolId, who, sdk.NewCoin(dir[1], o1), dir[0]); err != nil {
				continue
			}
			st.Clauses["round_trip"]++
			b1 := w.App.BankKeeper.GetBalance(c, who, dir[0]).Amount
			gain := float64FromInt(b1.Sub(b0))
			al := allowFor(rin) + allowFor(rout) // one allowance per swap, in the units of each leg (conservative: legs valued 1:1 only for the bound on A)
			al = allowFor(rin) * 2
			if gain > al {
				find(Finding{Clause: "round_trip_gains", Culprit: "keeper_swap", Disc: fmt.Sprintf("pool_weights_equal=%v", equal), Detail: fmt.Sprintf("pool %d: %s%s -> %s -> %s ends with %+.0f %s (allowance %.3f)", poolId, a, dir[0], dir[1], dir[0], gain, dir[0], al)},
					map[string]interface{}{"part": "seq", "pool": pi, "kind": "round_trip", "in": dir[0], "amount": a.String()})
			}
			st.Sequences++
			// splits: a = a1 + a2 (a1 from the same size set), and 3-way a = a1 + a1 + rest
			c1, _ := base.CacheContext()
			st.Evaluations++
			single, err := e.swapIn(c1, poolId, who, sdk.NewCoin(dir[0], a), dir[1])
			if err != nil {
				continue
			}
			for _, a1 := range sizes {
				if !a1.LT(a) {
					continue
				}
				for _, three := range []bool{false, true} {
					parts := []sdkmath.Int{a1, a.Sub(a1)}
					if three {
						if !a1.MulRaw(2).LT(a) {
							continue
						}
						parts = []sdkmath.Int{a1, a1, a.Sub(a1.MulRaw(2))}
					}
					c2, _ := base.CacheContext()
					total := sdkmath.ZeroInt()
					okAll := true
					for _, part := range parts {
						st.Evaluations++
						o, err := e.swapIn(c2, poolId, who, sdk.NewCoin(dir[0], part), dir[1])
						if err != nil {
							okAll = false
							break
						}
						total = total.Add(o)
					}
					if !okAll {
						continue
					}
					st.Clauses["split_trade"]++
					st.Sequences++
					gain := float64FromInt(total.Sub(single))
					al := allowFor(rout) * float64(len(parts))
					if gain > al {
						find(Finding{Clause: "split_trade_gains", Culprit: "keeper_swap", Disc: fmt.Sprintf("pool_weights_equal=%v", equal), Detail: fmt.Sprintf("pool %d: %s%s in %d pieces (first %s) yields %s %s, single trade %s (allowance %.3f)", poolId, a, dir[0], len(parts), a1, total, dir[1], single, al)},
							map[string]interface{}{"part": "seq", "pool": pi, "kind": "split", "in": dir[0], "amount": a.String(), "first": a1.String(), "three": three})
					}
				}
			}
		}
	}
}

// ---------------------------------------------------------------------------------------------
// part "msgseq": every sequence (up to a depth) of swap MESSAGES of one trader on one pool, through
// the real message handlers (routing layer included: single-hop, same-pool two- and three-hop
// routes, exact-in and exact-out), prices unchanged. Oracle (dominance): with dA, dB the trader's
// net balance changes, (a) not both >= 0 with one above the allowance (value from nothing), and
// (b) if the trader net sold one asset, what it net received of the other is at most what the exact
// fee-free weighted-product formula allows for the net amount on the START reserves (+ allowance
// per hop). (A first version compared with one real swap of the net amount INCLUDING its fee; that
// was a false alarm of the oracle: the tier module records the trader's portfolio after its first
// swap, so later pieces legitimately get the membership discount — the property bounds swaps by
// the formula "for any fee/discount", not by another fee-paying swap.)

type c03Form struct {
	Name string
	Hops int
	Mk   func(who Acct, pool uint64, a, b string, ra, rb sdkmath.Int) sdk.Msg
}

func c03Forms() []c03Form {
	frac := func(r sdkmath.Int, den int64) sdkmath.Int {
		v := r.QuoRaw(den)
		if !v.IsPositive() {
			v = sdkmath.OneInt()
		}
		return v
	}
	var fs []c03Form
	for _, sz := range []struct {
		n   string
		den int64
	}{{"big", 10}, {"small", 1000}} {
		den := sz.den
		fs = append(fs,
			c03Form{"in_AB_" + sz.n, 1, func(who Acct, pool uint64, a, b string, ra, rb sdkmath.Int) sdk.Msg {
				return swapIn(who, "", sdk.NewCoin(a, frac(ra, den)), 1, rin(pool, b))
			}},
			c03Form{"in_BA_" + sz.n, 1, func(who Acct, pool uint64, a, b string, ra, rb sdkmath.Int) sdk.Msg {
				return swapIn(who, "", sdk.NewCoin(b, frac(rb, den)), 1, rin(pool, a))
			}},
			c03Form{"in_ABA_" + sz.n, 2, func(who Acct, pool uint64, a, b string, ra, rb sdkmath.Int) sdk.Msg {
				return swapIn(who, "", sdk.NewCoin(a, frac(ra, den)), 1, rin(pool, b), rin(pool, a))
			}},
			c03Form{"in_BAB_" + sz.n, 2, func(who Acct, pool uint64, a, b string, ra, rb sdkmath.Int) sdk.Msg {
				return swapIn(who, "", sdk.NewCoin(b, frac(rb, den)), 1, rin(pool, a), rin(pool, b))
			}},
			c03Form{"in_ABAB_" + sz.n, 3, func(who Acct, pool uint64, a, b string, ra, rb sdkmath.Int) sdk.Msg {
				return swapIn(who, "", sdk.NewCoin(a, frac(ra, den)), 1, rin(pool, b), rin(pool, a), rin(pool, b))
			}},
			c03Form{"out_AB_" + sz.n, 1, func(who Acct, pool uint64, a, b string, ra, rb sdkmath.Int) sdk.Msg {
				return swapOut(who, "", sdk.NewCoin(b, frac(rb, den)), 1<<62, rout(pool, a))
			}},
			c03Form{"out_BA_" + sz.n, 1, func(who Acct, pool uint64, a, b string, ra, rb sdkmath.Int) sdk.Msg {
				return swapOut(who, "", sdk.NewCoin(a, frac(ra, den)), 1<<62, rout(pool, b))
			}},
			c03Form{"out_ABA_" + sz.n, 2, func(who Acct, pool uint64, a, b string, ra, rb sdkmath.Int) sdk.Msg {
				return swapOut(who, "", sdk.NewCoin(a, frac(ra, den)), 1<<62, rout(pool, a), rout(pool, b))
			}},
		)
	}
	return fs
}

func (e *c03Env) msgseq(st *KStats, pi int, depth int) {
	e.msgseqVariant(st, pi, depth, false)
	// the same sequences in blocks that ALSO carry a dust gas fee paid in asset A: masterchef's end-blocker then
	// converts it to USDC through the best A/USDC pool AFTER the amm end-blocker executed the trader's swap —
	// only where the pool under test is that best pool (the conversion must touch the pool the trader uses)
	e.msgseqVariant(st, pi, depth, true)
}

// c03FeeDust: the gas fee of the fee-block variant, in base units of asset A (its whole value is added to the
// allowance: a third party selling A moves the price in favour of a trader who buys A)
const c03FeeDust = 1000

func (e *c03Env) msgseqVariant(st *KStats, pi int, depth int, feeBlocks bool) {
	w := e.w
	poolId := e.pools[pi]
	base, _ := w.Ctx().CacheContext()
	base = base.WithBlockHeight(w.Height() + 1).WithBlockTime(time.Unix(w.Env.Tm+5, 0).UTC())
	p, _ := w.App.AmmKeeper.GetPool(base, poolId)
	who := w.A("q8")
	a, b := p.PoolAssets[0].Token.Denom, p.PoolAssets[1].Token.Denom
	ra, rb := p.PoolAssets[0].Token.Amount, p.PoolAssets[1].Token.Amount
	equal := p.PoolAssets[0].Weight.Equal(p.PoolAssets[1].Weight)
	forms := c03Forms()
	if feeBlocks {
		best, found := w.App.AmmKeeper.GetBestPoolWithDenoms(base, []string{a, "uusdc"}, false)
		if !found || best.PoolId != poolId || a == "uusdc" {
			return
		}
	}
	allow := func(reserve sdkmath.Int, hops int) float64 {
		per := 1 + 2*float64FromInt(reserve)*1e-18
		if !equal {
			per = 1 + 1.0001e-8*float64FromInt(reserve)
		}
		if feeBlocks {
			// every block's converted fee (at most c03FeeDust of A, worth at most that many times the B/A reserve
			// ratio in B) shifts the pool in the trader's favour on one side
			per += c03FeeDust * (1 + float64FromInt(rb)/float64FromInt(ra))
		}
		return per * float64(hops)
	}
	find := func(f Finding, in interface{}) {
		for _, x := range st.Findings {
			if x.Sig() == f.Sig() {
				return
			}
		}
		st.Findings = append(st.Findings, KFinding{Finding: f, Input: in, Len: depth})
	}
	do := func(c sdk.Context, msg sdk.Msg) error {
		cc, write := c.CacheContext()
		_, err := w.App.MsgServiceRouter().Handler(msg)(cc, msg)
		if err == nil {
			// a swap message only queues a request; the amm end-blocker executes the queue — one
			// message per block here (same-block batches are C04's subject)
			if feeBlocks {
				// the block's gas fee, paid in asset A by another account, sits in the fee collector
				_ = w.App.BankKeeper.SendCoinsFromAccountToModule(cc, w.A("t3").Addr, authtypes.FeeCollectorName, sdk.NewCoins(sdk.NewCoin(a, sdkmath.NewInt(c03FeeDust))))
			}
			w.App.AmmKeeper.EndBlocker(cc)
			if feeBlocks {
				func() {
					defer func() { recover() }()
					_ = w.App.MasterchefKeeper.EndBlocker(cc) // runs after amm's in the real block
				}()
				st.Clauses["msg_sequence_blocks_with_fee_conversion"]++
			}
			write()
		}
		return err
	}
	// reference: the exact fee-free weighted-product formula on the START reserves for the net
	// amount sold (fees and tier discounts only ever lower what a trader gets; a fee-free
	// constant-function pool is path independent, so no sequence can beat it)
	wa, wb := float64FromInt(p.PoolAssets[0].Weight), float64FromInt(p.PoolAssets[1].Weight)
	formula := func(sellA bool, n sdkmath.Int) float64 {
		x, y, r := float64FromInt(ra), float64FromInt(rb), wa/wb
		if !sellA {
			x, y, r = y, x, wb/wa
		}
		return y * (1 - math.Pow(x/(x+float64FromInt(n)), r))
	}
	a0 := w.App.BankKeeper.GetBalance(base, who.Addr, a).Amount
	b0 := w.App.BankKeeper.GetBalance(base, who.Addr, b).Amount
	var rec func(c sdk.Context, path []string, hops int)
	rec = func(c sdk.Context, path []string, hops int) {
		if len(path) > 0 {
			st.Sequences++
			st.Clauses["msg_sequence"]++
			dA := w.App.BankKeeper.GetBalance(c, who.Addr, a).Amount.Sub(a0)
			dB := w.App.BankKeeper.GetBalance(c, who.Addr, b).Amount.Sub(b0)
			fa, fb := float64FromInt(dA), float64FromInt(dB)
			alA, alB := allow(ra, hops), allow(rb, hops)
			in := map[string]interface{}{"part": "msgseq", "pool": pi, "path": append([]string{}, path...), "blocks_with_fee_conversion": feeBlocks}
			if os.Getenv("VERIF_DEBUG_C03") != "" {
				fmt.Fprintf(os.Stderr, "msgseq pool=%d %v dA=%s dB=%s\n", poolId, path, dA, dB)
			}
			switch {
			case fa >= -0.5 && fb >= -0.5:
				if fa > alA || fb > alB {
					find(Finding{Clause: "sequence_gains_from_nothing", Culprit: "msg_swap", Disc: fmt.Sprintf("pool_weights_equal=%v,blocks_with_fee_conversion=%v", equal, feeBlocks), Detail: fmt.Sprintf("pool %d: %v leaves the trader with %+.0f %s and %+.0f %s", poolId, path, fa, a, fb, b)}, in)
				}
			case dA.IsNegative() && dB.IsPositive():
				ref := formula(true, dA.Neg())
				st.Clauses["net_vs_formula"]++
				if g := fb - ref; g > alB+ref*1e-12 {
					find(Finding{Clause: "sequence_beats_fee_free_formula", Culprit: "msg_swap", Disc: fmt.Sprintf("pool_weights_equal=%v,blocks_with_fee_conversion=%v", equal, feeBlocks), Detail: fmt.Sprintf("pool %d: %v net sells %s %s for %s %s; the fee-free formula on the start reserves allows %.0f (gain %+.0f, allowance %.3f)", poolId, path, dA.Neg(), a, dB, b, ref, g, alB)}, in)
				}
			case dB.IsNegative() && dA.IsPositive():
				ref := formula(false, dB.Neg())
				st.Clauses["net_vs_formula"]++
				if g := fa - ref; g > alA+ref*1e-12 {
					find(Finding{Clause: "sequence_beats_fee_free_formula", Culprit: "msg_swap", Disc: fmt.Sprintf("pool_weights_equal=%v,blocks_with_fee_conversion=%v", equal, feeBlocks), Detail: fmt.Sprintf("pool %d: %v net sells %s %s for %s %s; the fee-free formula on the start reserves allows %.0f (gain %+.0f, allowance %.3f)", poolId, path, dB.Neg(), b, dA, a, ref, g, alA)}, in)
				}
			}
		}
		if len(path) >= depth {
			return
		}
		for _, f := range forms {
			cc, _ := c.CacheContext()
			st.Evaluations++
			if err := do(cc, f.Mk(who, poolId, a, b, ra, rb)); err != nil {
				st.Clauses["msg_rejected"]++
				if st.Extra != nil {
					st.Extra["rejected_"+f.Name]++
				}
				continue
			}
			rec(cc, append(path, f.Name), hops+f.Hops)
		}
	}
	rec(base, nil, 1)
}

// ---------------------------------------------------------------------------------------------
// part "oracle": pool 1 of the fixture under a product of configurations

var c03Shapes = [][2]int64{{1000000000000, 5000000000000}, {1600000000000, 2000000000000}, {400000000000, 8000000000000}} // (uatom, uusdc) at ATOM=5: balanced, 80:20, 20:80 by value
var c03Prices = []string{"0.5", "5", "50000"}
var c03ExtRatios = []string{"1", "2", "10"}
var c03OFees = []string{"0", "0.003", "0.02"}
var c03Treasury = []int64{0, 1000, 1000000000000}

func (e *c03Env) oracleCell(st *KStats, si, pi int) {
	w := e.w
	app := w.App
	find := func(f Finding, in interface{}) {
		for _, x := range st.Findings {
			if x.Sig() == f.Sig() {
				return
			}
		}
		st.Findings = append(st.Findings, KFinding{Finding: f, Input: in, Len: 1})
	}
	who := w.A("q9").Addr
	rich := w.A("q8").Addr
	for _, er := range c03ExtRatios {
		for _, fee := range c03OFees {
			for _, tr := range c03Treasury {
				base, _ := w.Ctx().CacheContext()
				base = base.WithBlockHeight(w.Height() + 1).WithBlockTime(time.Unix(w.Env.Tm+5, 0).UTC())
				pool, _ := app.AmmKeeper.GetPool(base, 1)
				poolAddr := sdk.MustAccAddressFromBech32(pool.Address)
				treasury := sdk.MustAccAddressFromBech32(pool.RebalanceTreasury)
				// price
				app.OracleKeeper.SetPrice(base, oracletypes.Price{Asset: "ATOM", Price: Dec(c03Prices[pi]), Source: "elys", Provider: "verif", Timestamp: uint64(base.BlockTime().Unix()), BlockHeight: uint64(base.BlockHeight())})
				app.OracleKeeper.SetPrice(base, oracletypes.Price{Asset: "USDC", Price: Dec("1"), Source: "elys", Provider: "verif", Timestamp: uint64(base.BlockTime().Unix()), BlockHeight: uint64(base.BlockHeight())})
				// shape: reserves, bank balance of the pool address and the accounted pool set consistently
				want := map[string]sdkmath.Int{"uatom": sdkmath.NewInt(c03Shapes[si][0]), "uusdc": sdkmath.NewInt(c03Shapes[si][1])}
				tot := []sdk.Coin{}
				for i := range pool.PoolAssets {
					d := pool.PoolAssets[i].Token.Denom
					have := app.BankKeeper.GetBalance(base, poolAddr, d).Amount
					if want[d].GT(have) {
						if err := app.BankKeeper.SendCoins(base, rich, poolAddr, sdk.NewCoins(sdk.NewCoin(d, want[d].Sub(have)))); err != nil {
							st.HarnessErr = err.Error()
							return
						}
					} else if want[d].LT(have) {
						if err := app.BankKeeper.SendCoins(base, poolAddr, rich, sdk.NewCoins(sdk.NewCoin(d, have.Sub(want[d])))); err != nil {
							st.HarnessErr = err.Error()
							return
						}
					}
					pool.PoolAssets[i].Token.Amount = want[d]
					pool.PoolAssets[i].ExternalLiquidityRatio = Dec(er)
					tot = append(tot, sdk.NewCoin(d, want[d]))
				}
				pool.PoolParams.SwapFee = Dec(fee)
				app.AmmKeeper.SetPool(base, pool)
				app.AccountedPoolKeeper.SetAccountedPool(base, aptypes.AccountedPool{PoolId: 1, TotalTokens: tot, NonAmmPoolTokens: []sdk.Coin{sdk.NewCoin("uatom", sdkmath.ZeroInt()), sdk.NewCoin("uusdc", sdkmath.ZeroInt())}})
				// treasury level (both denoms)
				for _, d := range []string{"uatom", "uusdc"} {
					have := app.BankKeeper.GetBalance(base, treasury, d).Amount
					if have.IsPositive() {
						app.BankKeeper.SendCoins(base, treasury, rich, sdk.NewCoins(sdk.NewCoin(d, have)))
					}
					if tr > 0 {
						app.BankKeeper.SendCoins(base, rich, treasury, sdk.NewCoins(sdk.NewCoin(d, sdkmath.NewInt(tr))))
					}
				}
				pa, pu := ratOfDec(Dec(c03Prices[pi])), big.NewRat(1, 1)
				priceOf := map[string]*big.Rat{"uatom": pa, "uusdc": pu}
				for _, acc := range []bool{true, false} {
					for _, prior := range []string{"none", "opposite", "same"} {
						for _, dir := range [][2]string{{"uusdc", "uatom"}, {"uatom", "uusdc"}} {
							for _, exactOut := range []bool{false, true} {
								ref := want[dir[0]]
								if exactOut {
									ref = want[dir[1]]
								}
								for _, amt := range []sdkmath.Int{sdkmath.NewInt(1), sdkmath.NewInt(10), sdkmath.NewInt(1000), ref.QuoRaw(1000000), ref.QuoRaw(1000), ref.QuoRaw(100), ref.QuoRaw(10), ref.QuoRaw(3)} {
									if !amt.IsPositive() {
										continue
									}
									c, _ := base.CacheContext()
									if !acc {
										// a pool that was never enabled for leverage / perpetuals has no accounted pool
										app.AccountedPoolKeeper.RemoveAccountedPool(c, 1)
									}
									if prior != "none" {
										// an EARLIER swap of another trader in the SAME block (it fixes the block-start
										// snapshot in the transient store and moves the reserves)
										pp, _ := app.AmmKeeper.GetPool(c, 1)
										pin, pout := dir[1], dir[0]
										if prior == "same" {
											pin, pout = dir[0], dir[1]
										}
										if _, perr := app.AmmKeeper.InternalSwapExactAmountIn(c, rich, rich, pp, sdk.NewCoin(pin, want[pin].QuoRaw(5).AddRaw(1)), pout, sdkmath.OneInt(), pp.PoolParams.SwapFee); perr != nil {
											st.Clauses["oracle_prior_swap_refused"]++
											continue
										}
									}
									p, _ := app.AmmKeeper.GetPool(c, 1)
									bal := func(a sdk.AccAddress, d string) sdkmath.Int { return app.BankKeeper.GetBalance(c, a, d).Amount }
									tin0, tout0 := bal(who, dir[0]), bal(who, dir[1])
									pin0, pout0 := bal(poolAddr, dir[0]), bal(poolAddr, dir[1])
									trOut0 := bal(treasury, dir[1])
									st.Evaluations++
									var err error
									poolPays := amt // what the pool itself owes the trader (exact-out: the requested amount)
									if exactOut {
										_, err = app.AmmKeeper.InternalSwapExactAmountOut(c, who, who, p, dir[0], sdkmath.NewInt(1e15), sdk.NewCoin(dir[1], amt), p.PoolParams.SwapFee)
									} else {
										poolPays, err = app.AmmKeeper.InternalSwapExactAmountIn(c, who, who, p, sdk.NewCoin(dir[0], amt), dir[1], sdkmath.OneInt(), p.PoolParams.SwapFee)
									}
									if err != nil {
										st.Clauses["oracle_swap_refused"]++
										continue
									}
									st.Clauses["oracle_swap"]++
									paid := tin0.Sub(bal(who, dir[0]))
									got := bal(who, dir[1]).Sub(tout0)
									poolOut := pout0.Sub(bal(poolAddr, dir[1]))
									poolIn := bal(poolAddr, dir[0]).Sub(pin0)
									fromTreasury := trOut0.Sub(bal(treasury, dir[1]))
									if fromTreasury.IsNegative() {
										fromTreasury = sdkmath.ZeroInt()
									}
									in := map[string]interface{}{"part": "oracle", "shape": si, "price": c03Prices[pi], "ext_ratio": er, "fee": fee, "treasury": tr, "in": dir[0], "exact_out": exactOut, "amount": amt.String(), "prior_swap_same_block": prior, "accounted_pool": acc}
									if prior != "none" {
										st.Clauses["oracle_swap_after_prior_"+prior]++
									}
									// what the pool itself paid out is worth no more than what the trader paid in (+1 unit of out)
									vOut := new(big.Rat).Mul(new(big.Rat).SetInt(poolOut.BigInt()), priceOf[dir[1]])
									vIn := new(big.Rat).Mul(new(big.Rat).SetInt(paid.BigInt()), priceOf[dir[0]])
									slack := new(big.Rat).Add(priceOf[dir[1]], priceOf[dir[0]])
									if vOut.Cmp(new(big.Rat).Add(vIn, slack)) > 0 {
										find(Finding{Clause: "oracle_pool_pays_more_than_received", Culprit: "keeper_swap", Disc: fmt.Sprintf("exact_out=%v", exactOut), Detail: fmt.Sprintf("shape %v ATOM=%s ext=%s fee=%s treasury=%d prior=%s accounted=%v: trader paid %s%s (value %s), pool address paid out %s%s (value %s)", c03Shapes[si], c03Prices[pi], er, fee, tr, prior, acc, paid, dir[0], vIn.FloatString(3), poolOut, dir[1], vOut.FloatString(3))}, in)
									}
									// anything the trader got beyond the swap's own out amount is the rebalancing bonus: it must
									// be covered by the treasury's balance of the out token before the swap (the pool address
									// also moves out-tokens for the fee conversion, so the bonus is measured on the trader's side)
									extra := got.Sub(poolPays)
									if extra.IsNegative() {
										find(Finding{Clause: "trader_received_less_than_swap_amount", Culprit: "keeper_swap", Disc: fmt.Sprintf("exact_out=%v", exactOut), Detail: fmt.Sprintf("swap reports %s out, trader's balance grew by %s", poolPays, got)}, in)
									}
									if extra.IsPositive() {
										st.Clauses["oracle_swap_with_bonus"]++
										if extra.GT(trOut0) {
											find(Finding{Clause: "bonus_exceeds_treasury", Culprit: "keeper_swap", Disc: fmt.Sprintf("exact_out=%v", exactOut), Detail: fmt.Sprintf("trader received a bonus of %s %s, the rebalance treasury held only %s", extra, dir[1], trOut0)}, in)
										}
										if fromTreasury.LT(extra.SubRaw(2)) {
											find(Finding{Clause: "bonus_not_from_treasury", Culprit: "keeper_swap", Disc: fmt.Sprintf("exact_out=%v", exactOut), Detail: fmt.Sprintf("trader received a bonus of %s %s but the treasury's balance fell only by %s", extra, dir[1], fromTreasury)}, in)
										}
									}
									_ = poolIn
								}
							}
						}
					}
				}
				st.Sequences++
			}
		}
	}
}

func c03Worker(tier string) KUnitFunc {
	var env *c03Env
	return func(raw json.RawMessage, deadline time.Time) *KStats {
		var u c03Unit
		if err := json.Unmarshal(raw, &u); err != nil {
			return &KStats{HarnessErr: err.Error()}
		}
		if env == nil {
			env = c03Setup()
		}
		st := &KStats{Clauses: map[string]int64{}, Extra: map[string]float64{}}
		switch u.Part {
		case "grid":
			g := &c03Grid{w: env.w, st: st}
			g.cell(bigI(c03Reserves[u.I]), bigI(c03Reserves[u.J]))
			if len(st.Samples) == 0 {
				st.Samples = append(st.Samples, map[string]interface{}{"part": "grid", "reserve_in": c03Reserves[u.I], "reserve_out": c03Reserves[u.J], "weights": c03Weights, "fees": c03Fees})
			}
		case "seq":
			env.seq(st, u.I)
		case "oracle":
			env.oracleCell(st, u.I, u.J)
		case "msgseq":
			env.msgseq(st, u.I, u.J)
		}
		st.NStates = st.Sequences
		return st
	}
}

func RunC03(tier string) int {
	var units []interface{}
	for i := range c03Reserves {
		for j := range c03Reserves {
			if tier != "thorough" && (i%2 == 1 && j%2 == 1) {
				continue // quick: drop the cells where both reserves are of the 3x kind
			}
			units = append(units, c03Unit{Part: "grid", I: i, J: j, Tier: tier})
		}
	}
	for i := 0; i < 3; i++ {
		units = append(units, c03Unit{Part: "seq", I: i, Tier: tier})
	}
	for i := 0; i < 4; i++ {
		d := 2
		if tier == "thorough" {
			d = 3
		}
		units = append(units, c03Unit{Part: "msgseq", I: i, J: d, Tier: tier})
	}
	for i := range c03Shapes {
		for j := range c03Prices {
			units = append(units, c03Unit{Part: "oracle", I: i, J: j, Tier: tier})
		}
	}
	sum := RunSharded("C03", tier, units, deadlineFor(tier))
	sum.Validated = sum.Clauses["round_trip"] + sum.Clauses["split_trade"] + sum.Clauses["oracle_swap"] + sum.Clauses["msg_sequence"]
	bounds := map[string]interface{}{"grid_reserves": c03Reserves, "grid_weights": c03Weights, "grid_effective_fees(fee x (1-discount))": c03Fees, "grid_sizes": "1,2,10,R/1e6,R/1e3,R/100,R/10,R/2,0.9R,R(-1),3R", "seq_pools": "1:1 1e12/5e12 fee .3%, 80:20 4e6/5e6 fee 1%, 1:2 1e9/1e9 fee 0", "msgseq": "per seq pool: every sequence up to depth 2 (quick) / 3 (thorough) over 16 message forms {exact-in A>B, B>A, same-pool routes A>B>A, B>A>B, A>B>A>B; exact-out A>B, B>A, same-pool A>B>A} x {reserve/10, reserve/1000}, real MsgSwapExactAmountIn/Out handlers", "oracle_shapes(uatom,uusdc)": c03Shapes, "oracle_prices": c03Prices, "oracle_ext_liquidity_ratios": c03ExtRatios, "oracle_fees": c03OFees, "oracle_treasury_levels": c03Treasury}
	return KConclude("C03", tier, "G+K: Cartesian input grids over the real pool functions + real keeper swaps, exact/float reference", "grid: full product reserves x weights x effective fees x trade sizes x {CalcOutAmtGivenIn, CalcInAmtGivenOut} against out*=Bo(1-y^r) (exact rationals for equal weights, float64 pow otherwise); seq: every round trip and every 2-/3-way split over the size set through the real keeper and bank on three real pools; msgseq: every bounded sequence of swap messages (routing layer, same-pool multi-hop routes, exact-in/out) judged by net-balance dominance against the fee-free formula on the start reserves; oracle: product shape x price x external-liquidity ratio x fee x treasury level x direction x exact-in/out x 8 sizes of real keeper swaps judged on bank deltas",
		[]string{"tolerance: 1 unit (+2e-18 x reserve for Dec quantisation) with equal weights, 1 unit + 1e-8 x reserve x max(1,y^r) with unequal weights", "traces_validated_against_impl counts the swaps executed through the real keeper+bank (the grid calls the same Pool methods the keeper calls)"}, sum, bounds, nil)
}

func init() {
	OtherEngines["C03"] = RunC03
	KWorkers["C03"] = c03Worker
	OtherReplays["C03"] = func(r *Replay) int {
		fmt.Println("C03 replays re-run the whole grid cell; run ./check C03 quick")
		return RunC03("quick")
	}
}
