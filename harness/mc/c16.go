//go:build verif

package mc

import (
	"encoding/json"
	"fmt"
	"sort"
	"strings"
	"time"

	"cosmossdk.io/math"
	sdk "github.com/cosmos/cosmos-sdk/types"
	oracletypes "github.com/elys-network/elys/x/oracle/types"
)

// Engine K for C16: every sequence of feed / feeder-management / asset-info / end-block ops up to
// a depth bound on the REAL oracle handlers (through the router, own cache layer each) against a
// reference map; after every op ALL lookups are compared.

type c16Params struct {
	Expiry uint64 `json:"price_expiry_time"`
	Life   uint64 `json:"life_time_in_blocks"`
}

type c16Unit struct {
	P     c16Params `json:"params"`
	First int       `json:"first"`
	Depth int       `json:"depth"`
	Set   string    `json:"alphabet"`
}

type c16Op struct {
	Name   string
	Kind   string // feed multi feeder_inactive feeder_active feeder_delete gov_remove gov_add info_remove info_create endblock
	Who    string // f1 f2 out
	Asset  string
	Source string
	Dt     int64 // endblock: seconds (0 = expiry-1, -1 = expiry+1)
	Dh     int64 // endblock: blocks (-1 = life+1)
}

var c16Assets = []string{"ATM", "ATMX", "ATMelys", "ATMband", "ATMXelys", "BTK"}
var c16Sources = []string{"elys", "band", "x", "elysx"}

func c16Ops(set string) []c16Op {
	ops := []c16Op{}
	assets, sources := c16Assets, c16Sources
	if set == "core" {
		assets = []string{"ATM", "ATMX", "ATMelys", "BTK"}
		sources = []string{"elys", "band", "x", "elysx"}
	}
	for _, a := range assets {
		for _, s := range sources {
			ops = append(ops, c16Op{Name: fmt.Sprintf("feed(%s,%s)by_f1", a, s), Kind: "feed", Who: "f1", Asset: a, Source: s})
		}
	}
	// RE-feeds of an UNCHANGED value (every other feed carries a value unique to its depth)
	ops = append(ops,
		c16Op{Name: "refeed_same_value(ATM,elys)by_f1", Kind: "feed", Who: "f1", Asset: "ATM", Source: "elys", Dt: 777},
		c16Op{Name: "multirefeed_same_value(ATM/elys,ATMX/x)by_f1", Kind: "multi", Who: "f1", Dt: 777})
	ops = append(ops,
		c16Op{Name: "feed(ATM,elys)by_f2", Kind: "feed", Who: "f2", Asset: "ATM", Source: "elys"},
		c16Op{Name: "feed(ATMX,band)by_f2", Kind: "feed", Who: "f2", Asset: "ATMX", Source: "band"},
		c16Op{Name: "feed(ATM,elys)by_outsider", Kind: "feed", Who: "out", Asset: "ATM", Source: "elys"},
		c16Op{Name: "feed(BTK,x)by_outsider", Kind: "feed", Who: "out", Asset: "BTK", Source: "x"},
		c16Op{Name: "multifeed(ATM/elys,ATMX/x)by_f1", Kind: "multi", Who: "f1"},
		c16Op{Name: "multifeed(ATM/elys,ATMX/x)by_outsider", Kind: "multi", Who: "out"},
		c16Op{Name: "f1.set_inactive", Kind: "feeder_inactive", Who: "f1"},
		c16Op{Name: "f1.set_active", Kind: "feeder_active", Who: "f1"},
		c16Op{Name: "f1.delete_self", Kind: "feeder_delete", Who: "f1"},
		c16Op{Name: "outsider.set_active", Kind: "feeder_active", Who: "out"},
		c16Op{Name: "f2.set_active", Kind: "feeder_active", Who: "f2"},
		c16Op{Name: "gov.remove(f2)", Kind: "gov_remove", Who: "f2"},
		c16Op{Name: "gov.add(f1)", Kind: "gov_add", Who: "f1"},
		// LISTS: an entry that is not (or no longer) registered before a registered one, a repeated entry
		c16Op{Name: "gov.remove([outsider,f2])", Kind: "gov_remove", Who: "out+f2"},
		c16Op{Name: "gov.remove([f1,f1,f2])", Kind: "gov_remove", Who: "f1+f1+f2"},
		c16Op{Name: "gov.add([f2,f2,f1])", Kind: "gov_add", Who: "f2+f2+f1"},
		c16Op{Name: "gov.remove_asset_info(uaaa)", Kind: "info_remove", Asset: "uaaa"},
		c16Op{Name: "create_asset_info(uaaa->ATM)", Kind: "info_create", Asset: "uaaa", Source: "ATM"},
		c16Op{Name: "endblock(+1s,+1)", Kind: "endblock", Dt: 1, Dh: 1},
		c16Op{Name: "endblock(+expiry-1,+1)", Kind: "endblock", Dt: 0, Dh: 1},
		c16Op{Name: "endblock(+expiry+1,+1)", Kind: "endblock", Dt: -1, Dh: 1},
		c16Op{Name: "endblock(+1s,+life+1)", Kind: "endblock", Dt: 1, Dh: -1},
	)
	return ops
}

type c16Rec struct {
	Asset, Source string
	Ts, Height    uint64
	Price         int64
	Seq           int // write order (later writes to the same logical key replace)
}

type c16Ref struct {
	recs    map[string]c16Rec    // logical key asset|source|ts
	feeders map[string]bool      // name -> active (absent = not registered)
	infos   map[string][2]string // denom -> display, decimal
	t, h    uint64
	seq     int
}

func (r *c16Ref) clone() *c16Ref {
	n := &c16Ref{recs: map[string]c16Rec{}, feeders: map[string]bool{}, infos: map[string][2]string{}, t: r.t, h: r.h, seq: r.seq}
	for k, v := range r.recs {
		n.recs[k] = v
	}
	for k, v := range r.feeders {
		n.feeders[k] = v
	}
	for k, v := range r.infos {
		n.infos[k] = v
	}
	return n
}

func (r *c16Ref) key() string {
	ks := make([]string, 0, len(r.recs))
	for _, v := range r.recs {
		// age in seconds AND in blocks relative to now: both expiry rules depend on them (an earlier
		// version keyed records by absolute timestamp only and so merged states that differ in the
		// time elapsed since the feed — an unsound merge that hid the time rule's futures)
		ks = append(ks, fmt.Sprintf("%s|%s@-%ds,%d:%d#%d", v.Asset, v.Source, int64(r.t)-int64(v.Ts), int64(v.Height)-int64(r.h), v.Price, v.Seq))
	}
	sort.Strings(ks)
	fs := []string{}
	for k, v := range r.feeders {
		fs = append(fs, fmt.Sprintf("%s=%v", k, v))
	}
	sort.Strings(fs)
	is := []string{}
	for k := range r.infos {
		is = append(is, k)
	}
	sort.Strings(is)
	return strings.Join(ks, ",") + "|" + strings.Join(fs, ",") + "|" + strings.Join(is, ",")
}

type c16Run struct {
	w        *World
	st       *KStats
	keys     map[string]bool
	deadline time.Time
	ops      []c16Op
	p        c16Params
	addr     map[string]sdk.AccAddress
	cfgName  string
}

func (r *c16Run) find(f Finding, path []string) {
	for _, x := range r.st.Findings {
		if x.Sig() == f.Sig() && x.Len <= len(path) {
			return
		}
	}
	kept := r.st.Findings[:0]
	for _, x := range r.st.Findings {
		if x.Sig() != f.Sig() {
			kept = append(kept, x)
		}
	}
	r.st.Findings = append(kept, KFinding{Finding: f, Input: append([]string{r.cfgName}, path...), Len: len(path)})
}

func (r *c16Run) deliver(ctx sdk.Context, msg sdk.Msg) (err error) {
	c, write := ctx.CacheContext()
	defer func() {
		if rec := recover(); rec != nil {
			err = fmt.Errorf("panic: %v", rec)
		}
	}()
	if _, err = r.w.App.MsgServiceRouter().Handler(msg)(c, msg); err == nil {
		write()
	}
	return err
}

func priceDump(w *World, ctx sdk.Context) string {
	ps := w.App.OracleKeeper.GetAllPrice(ctx)
	ss := make([]string, 0, len(ps))
	for _, p := range ps {
		ss = append(ss, fmt.Sprintf("%s|%s|%d|%d|%s", p.Asset, p.Source, p.Timestamp, p.BlockHeight, p.Price))
	}
	sort.Strings(ss)
	return strings.Join(ss, ";")
}

func (r *c16Run) apply(ctx sdk.Context, ref *c16Ref, op c16Op, depth int, path []string) sdk.Context {
	bad := func(clause, disc, detail string) {
		r.find(Finding{Clause: clause, Culprit: op.Kind, Disc: disc, Detail: detail}, path)
	}
	price := int64(1000*(depth+1) + 1)
	if (op.Kind == "feed" || op.Kind == "multi") && op.Dt > 0 {
		price = op.Dt // constant value: a re-feed of the same number
	}
	who := r.addr[op.Who]
	authorised := func(name string) bool { a, ok := ref.feeders[name]; return ok && a }
	switch op.Kind {
	case "feed", "multi":
		before := priceDump(r.w, ctx)
		var msg sdk.Msg
		feeds := []oracletypes.FeedPrice{{Asset: op.Asset, Source: op.Source, Price: math.LegacyNewDec(price)}}
		if op.Kind == "multi" {
			feeds = []oracletypes.FeedPrice{{Asset: "ATM", Source: "elys", Price: math.LegacyNewDec(price)}, {Asset: "ATMX", Source: "x", Price: math.LegacyNewDec(price + 1)}}
			msg = &oracletypes.MsgFeedMultiplePrices{Creator: who.String(), FeedPrices: feeds}
		} else {
			msg = &oracletypes.MsgFeedPrice{Provider: who.String(), FeedPrice: feeds[0]}
		}
		err := r.deliver(ctx, msg)
		r.st.Clauses["feed"]++
		if authorised(op.Who) {
			if err != nil {
				bad("authorised_feed_rejected", "", fmt.Sprintf("%s: %v", op.Name, err))
			} else {
				for _, f := range feeds {
					ref.seq++
					ref.recs[fmt.Sprintf("%s|%s|%d", f.Asset, f.Source, ref.t)] = c16Rec{f.Asset, f.Source, ref.t, ref.h, f.Price.TruncateInt64(), ref.seq}
				}
			}
		} else {
			r.st.Clauses["unauthorised_feed"]++
			if err == nil {
				bad("unauthorised_feed_accepted", "who="+feederState(ref, op.Who), fmt.Sprintf("%s accepted although the sender is %s", op.Name, feederState(ref, op.Who)))
			}
			if after := priceDump(r.w, ctx); after != before {
				bad("unauthorised_feed_changed_prices", "who="+feederState(ref, op.Who), fmt.Sprintf("%s changed the price set: %s -> %s", op.Name, before, after))
			}
		}
	case "feeder_inactive", "feeder_active":
		err := r.deliver(ctx, &oracletypes.MsgSetPriceFeeder{Feeder: who.String(), IsActive: op.Kind == "feeder_active"})
		if _, ok := ref.feeders[op.Who]; ok {
			if err == nil {
				ref.feeders[op.Who] = op.Kind == "feeder_active"
			}
		} else if err == nil {
			bad("non_feeder_registered_itself", "", op.Name+" accepted from an account that is not a registered feeder")
		}
	case "feeder_delete":
		err := r.deliver(ctx, &oracletypes.MsgDeletePriceFeeder{Feeder: who.String()})
		if err == nil {
			delete(ref.feeders, op.Who)
		}
	case "gov_remove":
		// an accepted removal removes EVERY listed account, whatever else the list contains
		names := strings.Split(op.Who, "+")
		list := []string{}
		for _, n := range names {
			list = append(list, r.addr[n].String())
		}
		if err := r.deliver(ctx, &oracletypes.MsgRemovePriceFeeders{Authority: r.w.Gov, Feeders: list}); err == nil {
			for _, n := range names {
				delete(ref.feeders, n)
			}
		}
	case "gov_add":
		names := strings.Split(op.Who, "+")
		list := []string{}
		for _, n := range names {
			list = append(list, r.addr[n].String())
		}
		if err := r.deliver(ctx, &oracletypes.MsgAddPriceFeeders{Authority: r.w.Gov, Feeders: list}); err == nil {
			for _, n := range names {
				ref.feeders[n] = true
			}
		}
	case "info_remove":
		if err := r.deliver(ctx, &oracletypes.MsgRemoveAssetInfo{Authority: r.w.Gov, Denom: op.Asset}); err == nil {
			delete(ref.infos, op.Asset)
		}
	case "info_create":
		if err := r.deliver(ctx, &oracletypes.MsgCreateAssetInfo{Creator: r.addr["f1"].String(), Denom: op.Asset, Display: op.Source, BandTicker: op.Source, ElysTicker: op.Source, Decimal: 6}); err == nil {
			ref.infos[op.Asset] = [2]string{op.Source, "6"}
		}
	case "endblock":
		r.w.App.OracleKeeper.EndBlock(ctx)
		for k, v := range ref.recs {
			if v.Ts+r.p.Expiry < ref.t || v.Height+r.p.Life < ref.h {
				delete(ref.recs, k)
			}
		}
		dt, dh := op.Dt, op.Dh
		if dt == 0 {
			dt = int64(r.p.Expiry) - 1
		} else if dt == -1 {
			dt = int64(r.p.Expiry) + 1
		}
		if dh == -1 {
			dh = int64(r.p.Life) + 1
		}
		if dt < 1 {
			dt = 1
		}
		ref.t += uint64(dt)
		ref.h += uint64(dh)
		ctx = ctx.WithBlockHeight(int64(ref.h)).WithBlockTime(time.Unix(int64(ref.t), 0).UTC())
		r.st.Clauses["endblock"]++
	}
	r.recordSet(ctx, ref, op, path)
	r.lookups(ctx, ref, op, path)
	return ctx
}

// recordSet compares the STORED price records with the reference set (asset, source, timestamp,
// height, value) after every op: a feed that was accepted but not written, or written with a stale
// timestamp / height, shows here at once — lookups only show it when the older record has expired.
// States in which two reference records share one store key (the known un-separated key format) are
// left to the lookup clauses.
func (r *c16Run) recordSet(ctx sdk.Context, ref *c16Ref, op c16Op, path []string) {
	keys := map[string]int{}
	want := make([]string, 0, len(ref.recs))
	for _, v := range ref.recs {
		keys[fmt.Sprintf("%s%s|%d", v.Asset, v.Source, v.Ts)]++
		want = append(want, fmt.Sprintf("%s|%s|%d|%d|%d", v.Asset, v.Source, v.Ts, v.Height, v.Price))
	}
	for _, n := range keys {
		if n > 1 {
			r.st.Clauses["record_set_skipped_key_collision"]++
			return
		}
	}
	sort.Strings(want)
	got := []string{}
	for _, p := range r.w.App.OracleKeeper.GetAllPrice(ctx) {
		got = append(got, fmt.Sprintf("%s|%s|%d|%d|%d", p.Asset, p.Source, p.Timestamp, p.BlockHeight, p.Price.TruncateInt64()))
	}
	sort.Strings(got)
	r.st.Clauses["record_set"]++
	if strings.Join(got, ";") != strings.Join(want, ";") {
		r.find(Finding{Clause: "stored_price_records_differ_from_reference", Culprit: op.Kind, Disc: "", Detail: fmt.Sprintf("after %s the store holds [%s], expected [%s]", op.Name, strings.Join(got, "; "), strings.Join(want, "; "))}, path)
	}
}

func feederState(ref *c16Ref, who string) string {
	a, ok := ref.feeders[who]
	if !ok {
		return "not_registered"
	}
	if !a {
		return "inactive"
	}
	return "active"
}

// lookups compares every lookup the module offers with the reference.
func (r *c16Run) lookups(ctx sdk.Context, ref *c16Ref, op c16Op, path []string) {
	bad := func(clause, disc, detail string) {
		r.find(Finding{Clause: clause, Culprit: "lookup", Disc: disc, Detail: detail + "\nreference price set: " + refDump(ref)}, path)
	}
	// physical key collisions: two logical records whose asset+source concatenation and timestamp coincide
	phys := map[string][]c16Rec{}
	for _, v := range ref.recs {
		pk := fmt.Sprintf("%s%s/%d", v.Asset, v.Source, v.Ts)
		phys[pk] = append(phys[pk], v)
	}
	collides := func(v c16Rec) bool { return len(phys[fmt.Sprintf("%s%s/%d", v.Asset, v.Source, v.Ts)]) > 1 }
	for _, asset := range c16Assets {
		// newest per source of exactly this asset
		newest := map[string]c16Rec{}
		for _, v := range ref.recs {
			if v.Asset != asset {
				continue
			}
			if o, ok := newest[v.Source]; !ok || v.Ts > o.Ts {
				newest[v.Source] = v
			}
		}
		got, found := r.w.App.OracleKeeper.GetAssetPrice(ctx, asset)
		r.st.Clauses["lookup"]++
		var want *c16Rec
		if v, ok := newest["elys"]; ok {
			want = &v
		} else if v, ok := newest["band"]; ok {
			want = &v
		}
		anyColl := false
		for _, v := range newest {
			if collides(v) {
				anyColl = true
			}
		}
		coll := ""
		if anyColl {
			coll = ",store_key_collision"
		}
		if !found {
			if len(newest) > 0 {
				r.st.Clauses["lookup_live"]++
				bad("live_price_not_served", "asset_shape="+shape(asset)+coll, fmt.Sprintf("GetAssetPrice(%q) found nothing although a live price of exactly that asset exists", asset))
			}
			continue
		}
		gp := got.Price.TruncateInt64()
		desc := fmt.Sprintf("GetAssetPrice(%q) returned {asset=%s source=%s ts=%d price=%d}", asset, got.Asset, got.Source, got.Timestamp, gp)
		if got.Asset != asset {
			bad("price_of_other_asset_served", "asked_shape="+shape(asset)+",got_shape="+shape(got.Asset)+coll, desc)
			continue
		}
		if len(newest) == 0 {
			bad("dead_price_served", "", desc+" but no live price of that asset exists")
			continue
		}
		r.st.Clauses["lookup_live"]++
		if want != nil {
			if got.Source != want.Source || got.Timestamp != want.Ts || gp != want.Price {
				bad("not_the_newest_preferred_price", "preferred="+want.Source+coll, desc+fmt.Sprintf(", expected {source=%s ts=%d price=%d}", want.Source, want.Ts, want.Price))
			}
		} else {
			v, ok := newest[got.Source]
			if !ok || got.Timestamp != v.Ts || gp != v.Price {
				bad("not_the_newest_price_of_its_source", "source=other"+coll, desc+", which is not the newest live entry of that source")
			}
		}
	}
	for _, denom := range []string{"uaaa", "unone"} {
		got := r.w.App.OracleKeeper.GetAssetPriceFromDenom(ctx, denom)
		info, ok := ref.infos[denom]
		r.st.Clauses["lookup_by_denom"]++
		if !ok {
			if !got.IsZero() {
				bad("denom_without_asset_info_priced", "", fmt.Sprintf("GetAssetPriceFromDenom(%q) = %s but the denom has no asset info", denom, got))
			}
			continue
		}
		p, found := r.w.App.OracleKeeper.GetAssetPrice(ctx, info[0])
		want := math.LegacyZeroDec()
		if found {
			want = p.Price.Quo(math.LegacyNewDec(1000000))
		}
		if !got.Equal(want) {
			bad("denom_price_differs_from_asset_price", "", fmt.Sprintf("GetAssetPriceFromDenom(%q) = %s, asset lookup/10^6 = %s", denom, got, want))
		}
	}
}

func shape(a string) string {
	// the structural class of a name relative to the source names
	for _, s := range c16Sources {
		if strings.HasSuffix(a, s) && len(a) > len(s) {
			return "name+" + "source_suffix"
		}
	}
	if len(a) > 3 {
		return "extends_other_name"
	}
	return "plain"
}

func refDump(ref *c16Ref) string {
	ss := []string{}
	for _, v := range ref.recs {
		ss = append(ss, fmt.Sprintf("(%s,%s,ts=%d,h=%d,p=%d)", v.Asset, v.Source, v.Ts, v.Height, v.Price))
	}
	sort.Strings(ss)
	return strings.Join(ss, " ") + fmt.Sprintf(" now t=%d h=%d", ref.t, ref.h)
}

// fingerprint: what the oracle keeper answers on a state (store iteration AND point lookups).
func (r *c16Run) fingerprint(ctx sdk.Context) string {
	k := r.w.App.OracleKeeper
	fs := []string{}
	for _, f := range k.GetAllPriceFeeder(ctx) {
		fs = append(fs, fmt.Sprintf("%s=%v", f.Feeder, f.IsActive))
	}
	sort.Strings(fs)
	ai := []string{}
	for _, a := range k.GetAllAssetInfo(ctx) {
		ai = append(ai, a.Denom+">"+a.Display)
	}
	sort.Strings(ai)
	p := k.GetParams(ctx)
	// POINT lookups too (a keeper-side cache answers these, not the store iteration above)
	pl := []string{}
	for _, d := range []string{"uaaa", "unone"} {
		info, found := k.GetAssetInfo(ctx, d)
		pl = append(pl, fmt.Sprintf("%s:%v/%s/%s", d, found, info.Display, k.GetAssetPriceFromDenom(ctx, d)))
	}
	return fmt.Sprintf("prices[%s] feeders[%s] infos[%s] lookups[%s] expiry=%d life=%d", priceDump(r.w, ctx), strings.Join(fs, ","), strings.Join(ai, ","), strings.Join(pl, ","), p.PriceExpiryTime, p.LifeTimeInBlocks)
}

func (r *c16Run) dfs(ctx sdk.Context, ref *c16Ref, depth, maxDepth int, path []string, first int) {
	if depth >= maxDepth {
		r.st.Sequences++
		if len(r.st.Samples) < 2 {
			r.st.Samples = append(r.st.Samples, append([]string{r.cfgName}, path...))
		}
		return
	}
	if time.Now().After(r.deadline) {
		r.st.Incomplete = true
		return
	}
	// ISOLATION (see c14.go): the parent state must read the same through the keeper before and after every
	// DISCARDED child branch
	fpOf := func() string { return r.fingerprint(ctx) }
	fp0 := fpOf()
	last := -1
	iso := func() {
		if last < 0 || r.st.Polluted {
			return
		}
		r.st.Clauses["discarded_branch_isolation"]++
		if fp := fpOf(); fp != fp0 {
			r.find(Finding{Clause: "discarded_branch_changed_what_the_parent_sees", Culprit: r.ops[last].Kind, Disc: "", Detail: fmt.Sprintf("after exploring and DISCARDING the branch of op %s the oracle keeper answers differently on the untouched parent state:\nbefore: %s\nafter:  %s", r.ops[last].Name, fp0, fp)}, append(append([]string{}, path...), "discard:"+r.ops[last].Name))
			r.st.Polluted = true
			r.st.Incomplete = true
		}
	}
	defer iso()
	for oi, op := range r.ops {
		if depth == 0 && first >= 0 && oi != first {
			continue
		}
		iso()
		if r.st.Polluted {
			return
		}
		last = oi
		np := append(path, op.Name)
		c, _ := ctx.CacheContext()
		nr := ref.clone()
		r.st.Evaluations++
		c = r.apply(c, nr, op, depth, np)
		k := nr.key()
		r.keys[k] = true
		kk := fmt.Sprintf("%s#%d", k, maxDepth-depth-1)
		if r.keys[kk] {
			continue
		}
		r.keys[kk] = true
		r.dfs(c, nr, depth+1, maxDepth, np, -1)
	}
}

func c16RunUnit(w *World, u c16Unit, deadline time.Time, fixed []string) *KStats {
	r := &c16Run{w: w, st: &KStats{Clauses: map[string]int64{}}, keys: map[string]bool{}, deadline: deadline, p: u.P, ops: c16Ops(u.Set)}
	r.cfgName = fmt.Sprintf("params:%d/%d/%s", u.P.Expiry, u.P.Life, u.Set)
	r.addr = map[string]sdk.AccAddress{"f1": w.A("q2").Addr, "f2": w.A("q3").Addr, "out": w.A("q4").Addr}
	base, _ := w.Ctx().CacheContext()
	h0 := uint64(w.Height() + 1)
	t0 := uint64(w.Env.Tm + 5)
	base = base.WithBlockHeight(int64(h0)).WithBlockTime(time.Unix(int64(t0), 0).UTC())
	k := w.App.OracleKeeper
	// clean oracle state: no prices, feeders f1,f2 registered through the gov handler, asset info uaaa->A
	for _, p := range k.GetAllPrice(base) {
		k.RemovePrice(base, p.Asset, p.Source, p.Timestamp)
	}
	params := k.GetParams(base)
	params.PriceExpiryTime, params.LifeTimeInBlocks = u.P.Expiry, u.P.Life
	if err := r.deliver(base, &oracletypes.MsgUpdateParams{Authority: w.Gov, Params: params}); err != nil {
		return &KStats{HarnessErr: err.Error()}
	}
	if err := r.deliver(base, &oracletypes.MsgAddPriceFeeders{Authority: w.Gov, Feeders: []string{r.addr["f1"].String(), r.addr["f2"].String()}}); err != nil {
		return &KStats{HarnessErr: err.Error()}
	}
	if err := r.deliver(base, &oracletypes.MsgCreateAssetInfo{Creator: r.addr["f1"].String(), Denom: "uaaa", Display: "ATM", BandTicker: "ATM", ElysTicker: "ATM", Decimal: 6}); err != nil {
		return &KStats{HarnessErr: err.Error()}
	}
	ref := &c16Ref{recs: map[string]c16Rec{}, feeders: map[string]bool{"f1": true, "f2": true}, infos: map[string][2]string{"uaaa": {"ATM", "6"}}, t: t0, h: h0}
	if fixed != nil {
		ctx := base
		for d, name := range fixed {
			discard := strings.HasPrefix(name, "discard:")
			name = strings.TrimPrefix(name, "discard:")
			var op *c16Op
			for i := range r.ops {
				if r.ops[i].Name == name {
					op = &r.ops[i]
				}
			}
			if op == nil {
				return &KStats{HarnessErr: "unknown op " + name}
			}
			if discard {
				before := r.fingerprint(ctx)
				dc, _ := ctx.CacheContext()
				keep := r.st.Findings
				r.apply(dc, ref.clone(), *op, d, fixed[:d+1])
				r.st.Findings = keep
				if after := r.fingerprint(ctx); after != before {
					r.find(Finding{Clause: "discarded_branch_changed_what_the_parent_sees", Culprit: op.Kind, Disc: "", Detail: "before: " + before + "\nafter:  " + after}, fixed[:d+1])
				}
				continue
			}
			c, _ := ctx.CacheContext()
			r.st.Evaluations++
			ctx = r.apply(c, ref, *op, d, fixed[:d+1])
		}
		return r.st
	}
	r.dfs(base, ref, 0, u.Depth, nil, u.First)
	n := 0
	for k := range r.keys {
		if !strings.Contains(k, "#") {
			n++
		}
	}
	r.st.NStates = int64(n)
	return r.st
}

func c16Worker(tier string) KUnitFunc {
	w := NewWorld(FixtureCfg{})
	return func(raw json.RawMessage, deadline time.Time) *KStats {
		var u c16Unit
		if err := json.Unmarshal(raw, &u); err != nil {
			return &KStats{HarnessErr: err.Error()}
		}
		st := c16RunUnit(w, u, deadline, nil)
		if st.Polluted {
			w.Close()
			w = NewWorld(FixtureCfg{})
		}
		return st
	}
}

func c16ParseCfg(s string) c16Unit {
	var u c16Unit
	parts := strings.Split(strings.TrimPrefix(s, "params:"), "/")
	if len(parts) == 3 {
		fmt.Sscanf(parts[0], "%d", &u.P.Expiry)
		fmt.Sscanf(parts[1], "%d", &u.P.Life)
		u.Set = parts[2]
	}
	return u
}

func RunC16(tier string) int {
	params := []c16Params{{86400, 1}, {10, 100}, {10, 1}}
	type phase struct {
		set   string
		depth int
	}
	phases := []phase{{"full", 3}}
	if tier == "thorough" {
		phases = []phase{{"full", 3}, {"core", 4}}
	}
	var units []interface{}
	for _, ph := range phases {
		for _, p := range params {
			for i := range c16Ops(ph.set) {
				units = append(units, c16Unit{P: p, First: i, Depth: ph.depth, Set: ph.set})
			}
		}
	}
	sum := RunSharded("C16", tier, units, deadlineFor(tier))
	sum.Validated += c16ValidateABCI(sum)
	bounds := map[string]interface{}{"params(expiry,life)": params, "phases(alphabet,depth)": phases, "assets": c16Assets, "sources": c16Sources, "ops_full": len(c16Ops("full")), "ops_core": len(c16Ops("core")), "senders": []string{"feeder f1", "feeder f2", "outsider"}}
	return KConclude("C16", tier, "K: exhaustive op sequences on the real oracle handlers (CacheContext tree) vs a reference map", "all sequences of length <= depth over {feed(asset,source) by each sender, multi-feed, feeder (de)activation/deletion, gov add/remove feeder, remove/create asset info, end-block with time/height steps around both expiry rules} for every parameter set; after EVERY op GetAssetPrice for all 6 names and GetAssetPriceFromDenom for a listed and an unlisted denom are compared with the reference",
		[]string{"names/sources/time steps as listed in bounds", "expiry boundary semantics taken from the code (age > PriceExpiryTime, height gap > LifeTimeInBlocks); the equality points are not in the time alphabet"}, sum, bounds,
		func(f KFinding) bool {
			path, ok := toStrings(f.Input)
			if !ok || len(path) == 0 {
				return false
			}
			w := NewWorld(FixtureCfg{})
			defer w.Close()
			st := c16RunUnit(w, c16ParseCfg(path[0]), time.Now().Add(time.Minute), path[1:])
			for _, x := range st.Findings {
				if x.Sig() == f.Sig() {
					return true
				}
			}
			return false
		})
}

// c16ValidateABCI replays fixed feed/expiry sequences as real signed txs in real blocks and
// compares the module's answers with the keeper-level run of the same sequence.
func c16ValidateABCI(sum *KSummary) int64 {
	type step struct{ asset, source, who string }
	seqs := [][]step{
		{{"ATM", "elys", "q2"}, {"ATMX", "x", "q2"}, {"", "", ""}, {"ATM", "band", "q2"}, {"", "", ""}, {"", "", ""}},
		{{"ATMelys", "band", "q2"}, {"ATM", "x", "q4"}, {"ATM", "elysx", "q2"}, {"", "", ""}, {"", "", ""}},
	}
	var ok int64
	for si, seq := range seqs {
		w := NewWorld(FixtureCfg{})
		w.MustGov("feeders", func(ctx sdk.Context) error {
			c, write := ctx.CacheContext()
			m := &oracletypes.MsgAddPriceFeeders{Authority: w.Gov, Feeders: []string{w.A("q2").Addr.String()}}
			if _, err := w.App.MsgServiceRouter().Handler(m)(c, m); err != nil {
				return err
			}
			write()
			return nil
		})
		w.mustBlock("seed")
		agree := true
		// keeper-level twin: same blocks, but the feed is delivered on a context instead of a tx
		k := w.Fork()
		for i, s := range seq {
			var txs []PlannedTx
			var msg sdk.Msg
			if s.asset != "" {
				msg = &oracletypes.MsgFeedPrice{Provider: w.A(s.who).Addr.String(), FeedPrice: oracletypes.FeedPrice{Asset: s.asset, Source: s.source, Price: math.LegacyNewDec(int64(100 + i))}}
				txs = []PlannedTx{{Signer: s.who, Msgs: []sdk.Msg{msg}}}
			}
			br := w.Exec(&BlockPlan{Dt: 5, Feed: true, Txs: txs})
			if !br.OK() {
				sum.HarnessErrs = append(sum.HarnessErrs, "abci-binding: "+br.Err)
				agree = false
				break
			}
			// twin: gov-style write of the same message between blocks is not equivalent (timestamps);
			// instead compare the tx verdict with the handler verdict on a context at the same header
			if msg != nil {
				c, _ := k.Ctx().CacheContext()
				c = c.WithBlockHeight(w.Height()).WithBlockTime(time.Unix(w.Env.Tm, 0).UTC())
				_, herr := k.App.MsgServiceRouter().Handler(msg)(c, msg)
				if (herr == nil) != (br.Res.TxResults[1].Code == 0) {
					sum.HarnessErrs = append(sum.HarnessErrs, fmt.Sprintf("abci-binding seq %d step %d: tx code %d vs handler err %v", si, i, br.Res.TxResults[1].Code, herr))
					agree = false
					break
				}
			}
			kb := k.Exec(&BlockPlan{Dt: 5, Feed: true, Txs: txs})
			if !kb.OK() || kb.Hash != br.Hash {
				sum.HarnessErrs = append(sum.HarnessErrs, fmt.Sprintf("abci-binding seq %d: twin diverged", si))
				agree = false
				break
			}
		}
		if agree {
			ok++
		}
		k.Close()
		w.Close()
	}
	return ok
}

func init() {
	OtherEngines["C16"] = RunC16
	KWorkers["C16"] = c16Worker
	OtherReplays["C16"] = func(r *Replay) int {
		path, ok := toStrings(r.Extra["input"])
		if !ok || len(path) == 0 {
			return 2
		}
		w := NewWorld(FixtureCfg{})
		defer w.Close()
		st := c16RunUnit(w, c16ParseCfg(path[0]), time.Now().Add(time.Minute), path[1:])
		hit := false
		for _, x := range st.Findings {
			fmt.Printf("finding clause=%s disc=%s\n  %s\n", x.Clause, x.Disc, firstLines(x.Detail, 5))
			if x.Sig() == r.Finding.Sig() {
				hit = true
			}
		}
		if hit {
			fmt.Println("VIOLATION property=C16 replay=(reproduced)")
			return 1
		}
		fmt.Println("replay: recorded finding not reproduced on this tree")
		return 0
	}
}
