//go:build verif

package mc

import (
	"fmt"
	"reflect"
	"sort"
	"strings"
	"time"

	msgv1 "cosmossdk.io/api/cosmos/msg/v1"
	"cosmossdk.io/math"
	sdk "github.com/cosmos/cosmos-sdk/types"
	"github.com/cosmos/cosmos-sdk/x/authz"
	gogoproto "github.com/cosmos/gogoproto/proto"
	"google.golang.org/protobuf/proto"
	"google.golang.org/protobuf/reflect/protoreflect"

	ammtypes "github.com/elys-network/elys/x/amm/types"
	aptypes "github.com/elys-network/elys/x/assetprofile/types"
	burnertypes "github.com/elys-network/elys/x/burner/types"
	ctypes "github.com/elys-network/elys/x/commitment/types"
	estypes "github.com/elys-network/elys/x/estaking/types"
	llpkeeper "github.com/elys-network/elys/x/leveragelp/keeper"
	llptypes "github.com/elys-network/elys/x/leveragelp/types"
	mctypes "github.com/elys-network/elys/x/masterchef/types"
	oracletypes "github.com/elys-network/elys/x/oracle/types"
	paramtypes "github.com/elys-network/elys/x/parameter/types"
	perptypes "github.com/elys-network/elys/x/perpetual/types"
	sstypes "github.com/elys-network/elys/x/stablestake/types"
	tktypes "github.com/elys-network/elys/x/tokenomics/types"
	tstypes "github.com/elys-network/elys/x/tradeshield/types"
)

// Engine R: exhaustive enumeration of the message router.

// signerField returns the proto field named by the cosmos.msg.v1.signer option of a message type.
func signerField(fullName string) (string, error) {
	d, err := gogoproto.HybridResolver.FindDescriptorByName(protoreflect.FullName(fullName))
	if err != nil {
		return "", err
	}
	md, ok := d.(protoreflect.MessageDescriptor)
	if !ok {
		return "", fmt.Errorf("%s is not a message", fullName)
	}
	ext := proto.GetExtension(md.Options(), msgv1.E_Signer)
	ss, _ := ext.([]string)
	if len(ss) != 1 {
		return "", fmt.Errorf("%s: signer option %v", fullName, ss)
	}
	return ss[0], nil
}

// setField sets the string field with protobuf name `name` of a gogoproto message.
func setField(m sdk.Msg, name, value string) error {
	v := reflect.ValueOf(m).Elem()
	t := v.Type()
	for i := 0; i < t.NumField(); i++ {
		tag := t.Field(i).Tag.Get("protobuf")
		for _, part := range strings.Split(tag, ",") {
			if part == "name="+name {
				if v.Field(i).Kind() != reflect.String {
					return fmt.Errorf("signer field %s is not a string", name)
				}
				v.Field(i).SetString(value)
				return nil
			}
		}
	}
	return fmt.Errorf("no field %s in %T", name, m)
}

// cloneMsg copies a message through its wire form (custom math types have no gogoproto merger).
func cloneMsg(m sdk.Msg) sdk.Msg {
	bz, err := gogoproto.Marshal(m)
	if err != nil {
		panic(err)
	}
	n := reflect.New(reflect.TypeOf(m).Elem()).Interface().(sdk.Msg)
	if err := gogoproto.Unmarshal(bz, n); err != nil {
		panic(err)
	}
	return n
}

// boolVariants: the message with each of its top-level boolean fields flipped (a handler whose guard
// looks at such a field may let the other value through).
func boolVariants(m sdk.Msg) (names []string, out []sdk.Msg) {
	t := reflect.TypeOf(m).Elem()
	for i := 0; i < t.NumField(); i++ {
		if t.Field(i).Type.Kind() != reflect.Bool || t.Field(i).PkgPath != "" {
			continue
		}
		n := cloneMsg(m)
		fv := reflect.ValueOf(n).Elem().Field(i)
		fv.SetBool(!fv.Bool())
		names = append(names, fmt.Sprintf("%s=%v", t.Field(i).Name, fv.Bool()))
		out = append(out, n)
	}
	return
}

// category of every Elys message type that is not auto-classified (signer field "authority").
// gov  = must be refused from anyone but the governance authority
// owner= names a resource (order / position) that belongs to an account; refused from others
// role = gated on a registered role (price feeder, allowed pool creator)
// self = acts only on the signer's own funds / ledger (nothing to refuse beyond the signature)
var c17Table = map[string]string{
	"/elys.parameter.MsgUpdateMinCommission":       "gov",
	"/elys.parameter.MsgUpdateMaxVotingPower":      "gov",
	"/elys.parameter.MsgUpdateMinSelfDelegation":   "gov",
	"/elys.parameter.MsgUpdateTotalBlocksPerYear":  "gov",
	"/elys.parameter.MsgUpdateRewardsDataLifetime": "gov",

	"/elys.tradeshield.MsgUpdateSpotOrder":           "owner",
	"/elys.tradeshield.MsgCancelSpotOrder":           "owner",
	"/elys.tradeshield.MsgCancelSpotOrders":          "owner",
	"/elys.tradeshield.MsgUpdatePerpetualOrder":      "owner",
	"/elys.tradeshield.MsgCancelPerpetualOrder":      "owner",
	"/elys.tradeshield.MsgCancelPerpetualOrders":     "owner",
	"/elys.tradeshield.MsgCreatePerpetualCloseOrder": "owner",
	"/elys.perpetual.MsgClose":                       "owner",
	"/elys.perpetual.MsgUpdateStopLoss":              "owner",
	"/elys.perpetual.MsgUpdateTakeProfitPrice":       "owner",
	"/elys.leveragelp.MsgClose":                      "owner",
	"/elys.leveragelp.MsgUpdateStopLoss":             "owner",
	"/elys.leveragelp.MsgClaimRewards":               "owner",

	"/elys.oracle.MsgFeedPrice":                  "role",
	"/elys.oracle.MsgFeedMultiplePrices":         "role",
	"/elys.amm.MsgFeedMultipleExternalLiquidity": "role",
	"/elys.amm.MsgCreatePool":                    "role",
	"/elys.oracle.MsgSetPriceFeeder":             "role",
	"/elys.oracle.MsgDeletePriceFeeder":          "role",

	"/elys.amm.MsgJoinPool": "self", "/elys.amm.MsgExitPool": "self", "/elys.amm.MsgSwapExactAmountIn": "self", "/elys.amm.MsgSwapExactAmountOut": "self", "/elys.amm.MsgSwapByDenom": "self",
	"/elys.commitment.MsgCommitClaimedRewards": "self", "/elys.commitment.MsgUncommitTokens": "self", "/elys.commitment.MsgVest": "self", "/elys.commitment.MsgCancelVest": "self", "/elys.commitment.MsgClaimVesting": "self",
	"/elys.commitment.MsgVestNow": "self", "/elys.commitment.MsgVestLiquid": "self", "/elys.commitment.MsgStake": "self", "/elys.commitment.MsgUnstake": "self",
	"/elys.estaking.MsgWithdrawReward": "self", "/elys.estaking.MsgWithdrawElysStakingRewards": "self", "/elys.estaking.MsgWithdrawAllRewards": "self",
	"/elys.leveragelp.MsgOpen": "self", "/elys.leveragelp.MsgClosePositions": "self", "/elys.perpetual.MsgOpen": "self", "/elys.perpetual.MsgClosePositions": "self",
	"/elys.masterchef.MsgAddExternalIncentive": "self", "/elys.masterchef.MsgClaimRewards": "self", "/elys.stablestake.MsgBond": "self", "/elys.stablestake.MsgUnbond": "self",
	"/elys.tokenomics.MsgClaimAirdrop": "self", "/elys.tradeshield.MsgCreateSpotOrder": "self", "/elys.tradeshield.MsgCreatePerpetualOpenOrder": "self", "/elys.tradeshield.MsgExecuteOrders": "self",
	// permissionless in this snapshot: the signer field is "creator", the handler has no authority
	// comparison and the statement's scope is "messages that carry a governance-authority field"
	"/elys.assetprofile.MsgAddEntry": "self", "/elys.oracle.MsgCreateAssetInfo": "self", "/elys.tier.MsgSetPortfolio": "self",
}

// govPayloads returns, for every governance-only type, a well-formed payload with the authority
// field left empty (filled per case).
func govPayloads(w *World) map[string]sdk.Msg { return govPayloadsAt(w, w.RCtx()) }

// govPayloadsAt builds the payloads from the state visible through ctx (current params as the base).
func govPayloadsAt(w *World, ctx sdk.Context) map[string]sdk.Msg {
	app := w.App
	t1 := w.A("t1").Addr.String()
	ammP := app.AmmKeeper.GetParams(ctx)
	llpP := app.LeveragelpKeeper.GetParams(ctx)
	perpP := app.PerpetualKeeper.GetParams(ctx)
	ssP := app.StablestakeKeeper.GetParams(ctx)
	tsP := app.TradeshieldKeeper.GetParams(ctx)
	infl := &tktypes.InflationEntry{LmRewards: 10, IcsStakingRewards: 10, CommunityFund: 10, StrategicReserve: 10, TeamTokensVested: 10}
	entry := aptypes.MsgUpdateEntry{BaseDenom: "uatom", Decimals: 6, Denom: "uatom", DisplayName: "ATOM2", CommitEnabled: true, WithdrawEnabled: true}
	list := []sdk.Msg{
		&ammtypes.MsgUpdatePoolParams{PoolId: 2, PoolParams: ammtypes.PoolParams{SwapFee: Dec("0.005"), UseOracle: false, FeeDenom: "uusdc"}},
		&ammtypes.MsgUpdateParams{Params: &ammP},
		&entry,
		&aptypes.MsgDeleteEntry{BaseDenom: "uelys"},
		&burnertypes.MsgUpdateParams{Params: burnertypes.Params{EpochIdentifier: "day"}},
		&ctypes.MsgUpdateVestingInfo{BaseDenom: "ueden", VestingDenom: "uelys", NumBlocks: 77, VestNowFactor: 80, NumMaxVestings: 5},
		&ctypes.MsgUpdateEnableVestNow{EnableVestNow: false},
		&estypes.MsgUpdateParams{Params: app.EstakingKeeper.GetParams(ctx)},
		&llptypes.MsgUpdateParams{Params: &llpP},
		&llptypes.MsgWhitelist{WhitelistedAddress: t1},
		&llptypes.MsgDewhitelist{WhitelistedAddress: t1},
		&llptypes.MsgAddPool{Pool: llptypes.AddPool{AmmPoolId: 3, LeverageMax: Dec("5")}},
		&llptypes.MsgRemovePool{Id: 4},
		&mctypes.MsgAddExternalRewardDenom{RewardDenom: "uelys", MinAmount: I(1), Supported: true},
		&mctypes.MsgUpdateParams{Params: app.MasterchefKeeper.GetParams(ctx)},
		&mctypes.MsgUpdatePoolMultipliers{PoolMultipliers: []mctypes.PoolMultiplier{{PoolId: 1, Multiplier: Dec("2")}}},
		&mctypes.MsgTogglePoolEdenRewards{PoolId: 2, Enable: true},
		&oracletypes.MsgRemoveAssetInfo{Denom: "uelys"},
		&oracletypes.MsgAddPriceFeeders{Feeders: []string{t1}},
		&oracletypes.MsgRemovePriceFeeders{Feeders: []string{w.A("feeder").Addr.String()}},
		&oracletypes.MsgUpdateParams{Params: app.OracleKeeper.GetParams(ctx)},
		&perptypes.MsgUpdateParams{Params: &perpP},
		&perptypes.MsgWhitelist{WhitelistedAddress: t1},
		&perptypes.MsgDewhitelist{WhitelistedAddress: t1},
		&sstypes.MsgUpdateParams{Params: &ssP},
		&tktypes.MsgCreateAirdrop{Intent: "verif-new", Amount: 5, Expiry: 9999999999},
		&tktypes.MsgUpdateAirdrop{Intent: "verif", Amount: 6, Expiry: 9999999999},
		&tktypes.MsgDeleteAirdrop{Intent: "verif"},
		&tktypes.MsgUpdateGenesisInflation{Inflation: infl, SeedVesting: 1, StrategicSalesVesting: 1},
		&tktypes.MsgCreateTimeBasedInflation{StartBlockHeight: 200000000, EndBlockHeight: 300000000, Description: "x", Inflation: infl},
		&tktypes.MsgUpdateTimeBasedInflation{StartBlockHeight: 1, EndBlockHeight: 100000000, Description: "y", Inflation: infl},
		&tktypes.MsgDeleteTimeBasedInflation{StartBlockHeight: 1, EndBlockHeight: 100000000},
		&tstypes.MsgUpdateParams{Params: &tsP},
		&paramtypes.MsgUpdateMinCommission{MinCommission: Dec("0.06")},
		&paramtypes.MsgUpdateMaxVotingPower{MaxVotingPower: Dec("0.9")},
		&paramtypes.MsgUpdateMinSelfDelegation{MinSelfDelegation: I(2)},
		&paramtypes.MsgUpdateTotalBlocksPerYear{TotalBlocksPerYear: 6307201},
		&paramtypes.MsgUpdateRewardsDataLifetime{RewardsDataLifetime: 86401},
	}
	out := map[string]sdk.Msg{}
	for _, m := range list {
		out[sdk.MsgTypeURL(m)] = m
	}
	return out
}

type c17Case struct {
	Type    string `json:"type"`
	Route   string `json:"route"`
	Sender  string `json:"sender"`
	Variant string `json:"variant"`
	Result  string `json:"result"`
}

func digestEq(a, b map[string]string) []string {
	var diff []string
	for k, v := range a {
		if b[k] != v {
			diff = append(diff, k)
		}
	}
	sort.Strings(diff)
	return diff
}

// c17World builds the fixture plus the resources the owner-scoped cases need.
func c17World() *World {
	w := NewWorld(FixtureCfg{})
	lib := NewOpLib()
	for _, n := range []string{"perp_open_long_t1", "llp_open_t1_x3"} {
		if br := w.ExecOp(lib.Get(n)); !br.OK() {
			panic(br.Err)
		}
	}
	own1 := w.A("own1")
	w.mustBlock("orders",
		PlannedTx{Signer: "own1", Msgs: []sdk.Msg{&tstypes.MsgCreateSpotOrder{OwnerAddress: own1.Addr.String(), OrderType: tstypes.SpotOrderType_LIMITBUY, OrderPrice: tstypes.OrderPrice{BaseDenom: "uusdc", QuoteDenom: "uatom", Rate: Dec("0.5")}, OrderAmount: C("uusdc", 1000000), OrderTargetDenom: "uatom"}}},
		PlannedTx{Signer: "own1", Msgs: []sdk.Msg{&tstypes.MsgCreatePerpetualOpenOrder{OwnerAddress: own1.Addr.String(), TriggerPrice: tstypes.TriggerPrice{TradingAssetDenom: "uatom", Rate: Dec("3")}, Collateral: C("uusdc", 1000000), TradingAsset: "uatom", Position: tstypes.PerpetualPosition_LONG, Leverage: Dec("2"), TakeProfitPrice: Dec("8"), StopLossPrice: math.LegacyZeroDec(), PoolId: 1}}},
	)
	own2 := w.A("own2")
	w.mustBlock("orders of the would-be intruder",
		PlannedTx{Signer: "own2", Msgs: []sdk.Msg{&tstypes.MsgCreateSpotOrder{OwnerAddress: own2.Addr.String(), OrderType: tstypes.SpotOrderType_LIMITBUY, OrderPrice: tstypes.OrderPrice{BaseDenom: "uusdc", QuoteDenom: "uatom", Rate: Dec("0.1")}, OrderAmount: C("uusdc", 1), OrderTargetDenom: "uatom"}}},
		PlannedTx{Signer: "own2", Msgs: []sdk.Msg{&tstypes.MsgCreatePerpetualOpenOrder{OwnerAddress: own2.Addr.String(), TriggerPrice: tstypes.TriggerPrice{TradingAssetDenom: "uatom", Rate: Dec("3")}, Collateral: C("uusdc", 1000000), TradingAsset: "uatom", Position: tstypes.PerpetualPosition_LONG, Leverage: Dec("2"), TakeProfitPrice: Dec("8"), StopLossPrice: math.LegacyZeroDec(), PoolId: 1}}},
	)
	w.MustGov("airdrop", func(ctx sdk.Context) error {
		w.App.TokenomicsKeeper.SetAirdrop(ctx, tktypes.Airdrop{Intent: "verif", Amount: 1, Authority: w.Gov, Expiry: 9999999999})
		return nil
	})
	lp1 := w.A("lp1")
	w.mustBlock("pool3", PlannedTx{Signer: "lp1", Msgs: []sdk.Msg{mkPoolMsg(lp1, true, "uatom", 1e9, 5e9, 10, 10, "0.002")}})
	w.mustBlock("pool4", PlannedTx{Signer: "lp1", Msgs: []sdk.Msg{mkPoolMsg(lp1, true, "uatom", 1e9, 5e9, 10, 10, "0.002")}})
	w.MustGov("leveragelp AddPool 4", func(ctx sdk.Context) error {
		_, err := llpkeeper.NewMsgServerImpl(*w.App.LeveragelpKeeper).AddPool(ctx, &llptypes.MsgAddPool{Authority: w.Gov, Pool: llptypes.AddPool{AmmPoolId: 4, LeverageMax: math.LegacyNewDec(10)}})
		return err
	})
	if br := w.ExecOp(lib.Get("gap_61m")); !br.OK() {
		panic(br.Err)
	}
	w.mustBlock("settle")
	return w
}

func ownerCases(w *World) map[string]sdk.Msg {
	// B = own2 / t2 names the resources of A = own1 / t1
	b := w.A("own2").Addr.String()
	t2 := w.A("t2").Addr.String()
	mtp := w.MTPsOf("t1")[0]
	pos := w.LLPsOf("t1")[0]
	list := []sdk.Msg{
		&tstypes.MsgUpdateSpotOrder{OwnerAddress: b, OrderId: 1, OrderPrice: tstypes.OrderPrice{BaseDenom: "uusdc", QuoteDenom: "uatom", Rate: Dec("9")}},
		&tstypes.MsgCancelSpotOrder{OwnerAddress: b, OrderId: 1},
		&tstypes.MsgCancelSpotOrders{Creator: b, SpotOrderIds: []uint64{1}},
		&tstypes.MsgUpdatePerpetualOrder{OwnerAddress: b, OrderId: 1, TriggerPrice: tstypes.TriggerPrice{TradingAssetDenom: "uatom", Rate: Dec("4")}},
		&tstypes.MsgCancelPerpetualOrder{OwnerAddress: b, OrderId: 1},
		&tstypes.MsgCancelPerpetualOrders{OwnerAddress: b, OrderIds: []uint64{1}},
		&tstypes.MsgCreatePerpetualCloseOrder{OwnerAddress: t2, TriggerPrice: tstypes.TriggerPrice{TradingAssetDenom: "uatom", Rate: Dec("9")}, PositionId: mtp.Id},
		&perptypes.MsgClose{Creator: t2, Id: mtp.Id, Amount: mtp.Custody},
		&perptypes.MsgUpdateStopLoss{Creator: t2, Id: mtp.Id, Price: Dec("4")},
		&perptypes.MsgUpdateTakeProfitPrice{Creator: t2, Id: mtp.Id, Price: Dec("7")},
		&llptypes.MsgClose{Creator: t2, Id: pos.Id, LpAmount: pos.LeveragedLpAmount},
		&llptypes.MsgUpdateStopLoss{Creator: t2, Position: pos.Id, Price: Dec("0.5")},
		&llptypes.MsgClaimRewards{Sender: t2, Ids: []uint64{pos.Id}},
	}
	out := map[string]sdk.Msg{}
	for _, m := range list {
		out[sdk.MsgTypeURL(m)] = m
	}
	return out
}

// ownerMixedCases: batch messages whose id list mixes the sender's OWN resource (id 2) with a
// foreign one (id 1) — a batch-level owner check that only asks "does the sender own something
// here?" passes these.
func ownerMixedCases(w *World) []sdk.Msg {
	b := w.A("own2").Addr.String()
	return []sdk.Msg{
		&tstypes.MsgCancelSpotOrders{Creator: b, SpotOrderIds: []uint64{2, 1}},
		&tstypes.MsgCancelSpotOrders{Creator: b, SpotOrderIds: []uint64{1, 2}},
		&tstypes.MsgCancelPerpetualOrders{OwnerAddress: b, OrderIds: []uint64{2, 1}},
		&tstypes.MsgCancelPerpetualOrders{OwnerAddress: b, OrderIds: []uint64{1, 2}},
	}
}

func roleCases(w *World) map[string]sdk.Msg {
	x := w.A("t3").Addr.String()
	list := []sdk.Msg{
		&oracletypes.MsgFeedPrice{Provider: x, FeedPrice: oracletypes.FeedPrice{Asset: "ATOM", Price: Dec("1"), Source: "elys"}},
		&oracletypes.MsgFeedMultiplePrices{Creator: x, FeedPrices: []oracletypes.FeedPrice{{Asset: "ATOM", Price: Dec("1"), Source: "elys"}}},
		&ammtypes.MsgFeedMultipleExternalLiquidity{Sender: x, Liquidity: []ammtypes.ExternalLiquidity{{PoolId: 1, AmountDepthInfo: []ammtypes.AssetAmountDepth{{Asset: "ATOM", Amount: Dec("1000"), Depth: Dec("0.1")}, {Asset: "USDC", Amount: Dec("1000"), Depth: Dec("0.1")}}}}},
		mkPoolMsg(w.A("t3"), false, "uatom", 1e6, 1e6, 1, 1, "0.01"),
		&oracletypes.MsgSetPriceFeeder{Feeder: x, IsActive: true},
		&oracletypes.MsgDeletePriceFeeder{Feeder: x},
	}
	out := map[string]sdk.Msg{}
	for _, m := range list {
		out[sdk.MsgTypeURL(m)] = m
	}
	return out
}

// RunC17 is the whole check (quick == thorough: one pass is exhaustive over the router).
func RunC17(tier string) int {
	t0 := time.Now()
	w := c17World()
	defer w.Close()
	app := w.App
	kf := LoadKnownFindings()
	var findings []Finding
	var cases []c17Case
	vacuous := []string{}
	add := func(f Finding) { findings = append(findings, f) }

	// 1. enumerate the router
	impls := app.InterfaceRegistry().ListImplementations(sdk.MsgInterfaceProtoName)
	sort.Strings(impls)
	var elys []string
	for _, u := range impls {
		if strings.HasPrefix(u, "/elys.") {
			elys = append(elys, u)
		}
	}
	gov := govPayloads(w)
	owner := ownerCases(w)
	role := roleCases(w)
	cat := map[string]string{}
	sf := map[string]string{}
	for _, u := range elys {
		m, err := app.InterfaceRegistry().Resolve(u)
		if err != nil {
			add(Finding{Clause: "harness", Disc: u, Detail: err.Error()})
			continue
		}
		msg, ok := m.(sdk.Msg)
		if !ok {
			continue
		}
		if app.MsgServiceRouter().Handler(msg) == nil {
			cat[u] = "no-handler"
			continue
		}
		f, err := signerField(strings.TrimPrefix(u, "/"))
		if err != nil {
			add(Finding{Clause: "unclassified_message", Disc: "type=" + u, Detail: "cannot read signer option: " + err.Error()})
			continue
		}
		sf[u] = f
		switch {
		case f == "authority":
			cat[u] = "gov"
		case c17Table[u] != "":
			cat[u] = c17Table[u]
		default:
			add(Finding{Clause: "unclassified_message", Disc: "type=" + u, Detail: "registered message with a handler is neither auto-classified nor in the table (signer field " + f + ")"})
		}
		if cat[u] == "gov" && gov[u] == nil {
			add(Finding{Clause: "unclassified_message", Disc: "type=" + u, Detail: "governance-only message without a payload builder"})
		}
		if cat[u] == "owner" && owner[u] == nil {
			add(Finding{Clause: "unclassified_message", Disc: "type=" + u, Detail: "owner-scoped message without a case builder"})
		}
	}

	base := w.Ctx()
	direct := func(m sdk.Msg) (error, []string) {
		c, _ := base.CacheContext()
		c = c.WithBlockHeight(w.Height() + 1).WithBlockTime(time.Unix(w.Env.Tm+5, 0).UTC())
		before := w.StoreDigest(c, nil)
		h := app.MsgServiceRouter().Handler(m)
		var err error
		func() {
			defer func() {
				if r := recover(); r != nil {
					err = fmt.Errorf("panic: %v", r)
				}
			}()
			_, err = h(c, m)
		}()
		return err, digestEq(w.StoreDigest(c, nil), before)
	}
	senders := []struct{ name, addr string }{
		{"ordinary_account", w.A("t1").Addr.String()},
		{"other_module_account", modAddr("masterchef").String()},
		{"validator_operator_account", w.A("val").Addr.String()},
		{"empty_string", ""},
		{"garbage_string", "garbage"},
	}
	states, transitions := int64(1), int64(0)
	nGov, nOwner, nRole := 0, 0, 0
	for _, u := range elys {
		switch cat[u] {
		case "gov":
			nGov++
			p := gov[u]
			if p == nil {
				continue
			}
			// positive control: the same payload from the authority must be accepted
			pc := cloneMsg(p)
			setField(pc, sf[u], w.Gov)
			err, diff := direct(pc)
			transitions++
			if err != nil {
				vacuous = append(vacuous, u+": authority-signed control rejected: "+err.Error())
				cases = append(cases, c17Case{u, "direct", "gov_authority", "control", "REJECTED(vacuous): " + err.Error()})
			} else {
				cases = append(cases, c17Case{u, "direct", "gov_authority", "control", fmt.Sprintf("accepted, stores changed: %v", diff)})
			}
			for _, s := range senders {
				m := cloneMsg(p)
				setField(m, sf[u], s.addr)
				err, diff := direct(m)
				transitions++
				res := "rejected"
				if err == nil {
					res = "ACCEPTED"
					add(Finding{Clause: "gov_message_accepted_from_non_authority", Culprit: "direct", Disc: "type=" + u, Detail: fmt.Sprintf("%s with %s=%q (%s) was accepted by the router handler; stores changed: %v", u, sf[u], s.addr, s.name, diff)})
				}
				cases = append(cases, c17Case{u, "direct", s.name, "authority=sender", res})
			}
			// authz.MsgExec by an ordinary account: inner authority = gov (no grant) and = grantee
			for _, inner := range []string{w.Gov, w.A("t1").Addr.String()} {
				m := cloneMsg(p)
				setField(m, sf[u], inner)
				ex := authz.NewMsgExec(w.A("t1").Addr, []sdk.Msg{m})
				err, diff := direct(&ex)
				transitions++
				res := "rejected"
				if err == nil {
					res = "ACCEPTED"
					add(Finding{Clause: "gov_message_accepted_from_non_authority", Culprit: "authz_exec", Disc: "type=" + u, Detail: fmt.Sprintf("authz.MsgExec by an ordinary account wrapping %s with %s=%s was accepted; stores changed: %v", u, sf[u], inner, diff)})
				}
				v := "inner_authority=gov"
				if inner != w.Gov {
					v = "inner_authority=grantee"
				}
				cases = append(cases, c17Case{u, "authz_exec", "ordinary_account", v, res})
			}
		case "owner":
			nOwner++
			m := owner[u]
			if m == nil {
				continue
			}
			err, diff := direct(m)
			transitions++
			res := "rejected"
			if err == nil {
				res = "ACCEPTED"
				add(Finding{Clause: "owner_scoped_message_accepted_from_non_owner", Culprit: "direct", Disc: "type=" + u, Detail: fmt.Sprintf("%s sent by a non-owner naming another account's resource was accepted; stores changed: %v", u, diff)})
			}
			cases = append(cases, c17Case{u, "direct", "non_owner", "names_foreign_resource", res})
			vn, vm := boolVariants(m)
			for i, v := range vm {
				err, diff := direct(v)
				transitions++
				res := "rejected"
				if err == nil && len(diff) > 0 {
					res = "ACCEPTED"
					add(Finding{Clause: "owner_scoped_message_accepted_from_non_owner", Culprit: "direct", Disc: "type=" + u + ",variant=" + vn[i], Detail: fmt.Sprintf("%s with %s sent by a non-owner naming another account's resource was accepted and changed stores: %v", u, vn[i], diff)})
				}
				cases = append(cases, c17Case{u, "direct", "non_owner", "field_variant:" + vn[i], res})
			}
		case "role":
			nRole++
			m := role[u]
			if m == nil {
				continue
			}
			err, diff := direct(m)
			transitions++
			res := "rejected"
			if err == nil {
				res = "ACCEPTED"
				// SetPriceFeeder / DeletePriceFeeder by a non-feeder act on the sender's own (absent) record
				add(Finding{Clause: "role_gated_message_accepted_without_role", Culprit: "direct", Disc: "type=" + u, Detail: fmt.Sprintf("%s from an account without the role was accepted; stores changed: %v", u, diff)})
			}
			cases = append(cases, c17Case{u, "direct", "no_role", "", res})
			vn, vm := boolVariants(m)
			for i, v := range vm {
				err, diff := direct(v)
				transitions++
				res := "rejected"
				if err == nil && len(diff) > 0 {
					res = "ACCEPTED"
					add(Finding{Clause: "role_gated_message_accepted_without_role", Culprit: "direct", Disc: "type=" + u + ",variant=" + vn[i], Detail: fmt.Sprintf("%s with %s from an account without the role was accepted and changed stores: %v", u, vn[i], diff)})
				}
				cases = append(cases, c17Case{u, "direct", "no_role", "field_variant:" + vn[i], res})
			}
		}
	}

	// governance-only messages aimed at a target the SENDER ITSELF created with a permissionless message
	// (an authority check that compares with the authority STORED in the target accepts these), and the
	// same messages carrying the authority stored in a module-written target
	{
		t1 := w.A("t1").Addr.String()
		type prepared struct {
			name   string
			prep   []sdk.Msg
			attack sdk.Msg
		}
		addEntry := &aptypes.MsgAddEntry{Creator: t1, BaseDenom: "unewtok", Denom: "unewtok", Decimals: 6, DisplayName: "NEW", CommitEnabled: true, WithdrawEnabled: true}
		var preps []prepared
		preps = append(preps,
			prepared{"sender_created_the_entry", []sdk.Msg{addEntry}, &aptypes.MsgUpdateEntry{Authority: t1, BaseDenom: "unewtok", Denom: "unewtok", Decimals: 18, DisplayName: "HIJACK"}},
			prepared{"sender_created_the_entry", []sdk.Msg{addEntry}, &aptypes.MsgDeleteEntry{Authority: t1, BaseDenom: "unewtok"}},
			prepared{"sender_created_the_asset_info", []sdk.Msg{&oracletypes.MsgCreateAssetInfo{Creator: t1, Denom: "unewtok", Display: "NEW", BandTicker: "NEW", ElysTicker: "NEW", Decimal: 6}}, &oracletypes.MsgRemoveAssetInfo{Authority: t1, Denom: "unewtok"}},
		)
		for _, e := range app.AssetprofileKeeper.GetAllEntry(base) {
			if e.Authority != "" && e.Authority != w.Gov {
				preps = append(preps,
					prepared{"authority_stored_in_module_written_entry(" + e.BaseDenom + ")", nil, &aptypes.MsgUpdateEntry{Authority: e.Authority, BaseDenom: e.BaseDenom, Denom: e.Denom, Decimals: 18, DisplayName: "HIJACK"}},
					prepared{"authority_stored_in_module_written_entry(" + e.BaseDenom + ")", nil, &aptypes.MsgDeleteEntry{Authority: e.Authority, BaseDenom: e.BaseDenom}})
			}
		}
		// a ROLE granted and taken away by governance stays taken away: after the governance removal of a
		// price feeder, none of the feeder's own (non-governance) messages may bring it back or act
		fdr := w.A("feeder").Addr.String()
		rm := &oracletypes.MsgRemovePriceFeeders{Authority: w.Gov, Feeders: []string{fdr}}
		preps = append(preps,
			prepared{"role_removed_by_governance", []sdk.Msg{rm}, &oracletypes.MsgSetPriceFeeder{Feeder: fdr, IsActive: true}},
			prepared{"role_removed_by_governance", []sdk.Msg{rm}, &oracletypes.MsgFeedPrice{Provider: fdr, FeedPrice: oracletypes.FeedPrice{Asset: "ATOM", Source: "elys", Price: Dec("123")}}},
			prepared{"role_removed_by_governance", []sdk.Msg{rm}, &oracletypes.MsgFeedMultiplePrices{Creator: fdr, FeedPrices: []oracletypes.FeedPrice{{Asset: "ATOM", Source: "elys", Price: Dec("123")}}}},
			prepared{"role_removed_by_governance", []sdk.Msg{rm, &oracletypes.MsgSetPriceFeeder{Feeder: fdr, IsActive: true}}, &oracletypes.MsgFeedPrice{Provider: fdr, FeedPrice: oracletypes.FeedPrice{Asset: "ATOM", Source: "elys", Price: Dec("123")}}},
		)
		for _, pc := range preps {
			u := sdk.MsgTypeURL(pc.attack)
			c, _ := base.CacheContext()
			c = c.WithBlockHeight(w.Height() + 1).WithBlockTime(time.Unix(w.Env.Tm+5, 0).UTC())
			okPrep := true
			for pi, pm := range pc.prep {
				if _, err := app.MsgServiceRouter().Handler(pm)(c, pm); err != nil {
					if pi > 0 && pc.name == "role_removed_by_governance" {
						continue // the removed account's own attempt to come back: refusal is the right answer
					}
					okPrep = false
					vacuous = append(vacuous, u+": preparation "+sdk.MsgTypeURL(pm)+" rejected: "+err.Error())
				}
			}
			if !okPrep {
				continue
			}
			before := w.StoreDigest(c, nil)
			var err error
			func() {
				defer func() {
					if r := recover(); r != nil {
						err = fmt.Errorf("panic: %v", r)
					}
				}()
				_, err = app.MsgServiceRouter().Handler(pc.attack)(c, pc.attack)
			}()
			transitions++
			res := "rejected"
			if err == nil {
				res = "ACCEPTED"
				cl := "gov_message_accepted_from_non_authority"
				if pc.name == "role_removed_by_governance" {
					cl = "role_gated_message_accepted_without_role"
				}
				add(Finding{Clause: cl, Culprit: "direct", Disc: "type=" + u + ",ground=" + strings.SplitN(pc.name, "(", 2)[0], Detail: fmt.Sprintf("%s (%s) was accepted by the router handler; stores changed: %v", u, pc.name, digestEq(w.StoreDigest(c, nil), before))})
			}
			cases = append(cases, c17Case{u, "direct", "ordinary_account", pc.name, res})
		}
	}

	// GROUND "the sender holds every LESSER role governance can grant": through the real governance handlers the
	// ordinary account was put on the amm pool-creator list, made a price feeder and whitelisted in both position
	// modules. None of that is the governance authority: every governance-only message naming the sender as
	// authority must still be refused, with every store untouched
	{
		t1 := w.A("t1").Addr.String()
		g, _ := base.CacheContext()
		g = g.WithBlockHeight(w.Height() + 1).WithBlockTime(time.Unix(w.Env.Tm+5, 0).UTC())
		ammP := app.AmmKeeper.GetParams(g)
		ammP.AllowedPoolCreators = append(append([]string{}, ammP.AllowedPoolCreators...), t1)
		grants := []sdk.Msg{
			&ammtypes.MsgUpdateParams{Authority: w.Gov, Params: &ammP},
			&oracletypes.MsgAddPriceFeeders{Authority: w.Gov, Feeders: []string{t1}},
			&oracletypes.MsgSetPriceFeeder{Feeder: t1, IsActive: true},
			&perptypes.MsgWhitelist{Authority: w.Gov, WhitelistedAddress: t1},
			&llptypes.MsgWhitelist{Authority: w.Gov, WhitelistedAddress: t1},
		}
		granted := 0
		for _, gm := range grants {
			if _, err := app.MsgServiceRouter().Handler(gm)(g, gm); err != nil {
				vacuous = append(vacuous, "lesser-role ground: "+sdk.MsgTypeURL(gm)+" rejected: "+err.Error())
			} else {
				granted++
			}
		}
		if granted > 0 {
			gp := govPayloadsAt(w, g)
			for _, u := range elys {
				if cat[u] != "gov" || gp[u] == nil {
					continue
				}
				m := cloneMsg(gp[u])
				setField(m, sf[u], t1)
				c, _ := g.CacheContext()
				before := w.StoreDigest(c, nil)
				var err error
				func() {
					defer func() {
						if r := recover(); r != nil {
							err = fmt.Errorf("panic: %v", r)
						}
					}()
					_, err = app.MsgServiceRouter().Handler(m)(c, m)
				}()
				transitions++
				res := "rejected"
				if err == nil {
					res = "ACCEPTED"
					add(Finding{Clause: "gov_message_accepted_from_non_authority", Culprit: "direct", Disc: "type=" + u + ",ground=sender_holds_every_lesser_role", Detail: fmt.Sprintf("%s with %s = an account that is on the amm pool-creator list, a price feeder and whitelisted in both position modules (but is not the authority) was accepted; stores changed: %v", u, sf[u], digestEq(w.StoreDigest(c, nil), before))})
				} else if d := digestEq(w.StoreDigest(c, nil), before); len(d) > 0 {
					add(Finding{Clause: "rejected_message_changed_state", Culprit: "direct", Disc: "type=" + u + ",ground=sender_holds_every_lesser_role", Detail: fmt.Sprintf("%s was rejected yet stores %v changed", u, d)})
				}
				cases = append(cases, c17Case{u, "direct", "ordinary_account", "ground=sender_holds_every_lesser_role", res})
			}
		}
	}

	for _, m := range ownerMixedCases(w) {
		u := sdk.MsgTypeURL(m)
		err, diff := direct(m)
		transitions++
		res := "rejected"
		if err == nil {
			res = "ACCEPTED"
			add(Finding{Clause: "owner_scoped_message_accepted_from_non_owner", Culprit: "direct", Disc: "type=" + u + ",batch=own+foreign", Detail: fmt.Sprintf("%s listing the sender's own resource together with another account's was accepted; stores changed: %v", u, diff)})
		}
		cases = append(cases, c17Case{u, "direct", "non_owner", "batch_mixing_own_and_foreign_ids", res})
	}
	// positive controls for owner-scoped messages: the owner's own request must be accepted
	ownerFix := map[string]string{w.A("own2").Addr.String(): w.A("own1").Addr.String(), w.A("t2").Addr.String(): w.A("t1").Addr.String()}
	for u, m := range owner {
		pc := cloneMsg(m)
		cur := reflect.ValueOf(pc).Elem()
		for i := 0; i < cur.NumField(); i++ {
			if cur.Field(i).Kind() == reflect.String {
				if o, ok := ownerFix[cur.Field(i).String()]; ok {
					cur.Field(i).SetString(o)
				}
			}
		}
		err, _ := direct(pc)
		transitions++
		if err != nil && strings.Contains(err.Error(), "disabled for v1") {
			cases = append(cases, c17Case{u, "direct", "owner", "control", "message disabled in this snapshot: " + err.Error()})
		} else if err != nil {
			vacuous = append(vacuous, u+": owner-signed control rejected: "+err.Error())
			cases = append(cases, c17Case{u, "direct", "owner", "control", "REJECTED(vacuous): " + err.Error()})
		} else {
			cases = append(cases, c17Case{u, "direct", "owner", "control", "accepted"})
		}
	}

	// 2. ABCI route: every unauthorised request as a real signed tx in real blocks; the block's
	// stores must equal the sibling block without those txs on everything but auth (sequences).
	type abciCase struct {
		u      string
		signer string
		m      sdk.Msg
		v      string
	}
	var ab []abciCase
	for _, u := range elys {
		switch cat[u] {
		case "gov":
			if gov[u] == nil {
				continue
			}
			m := cloneMsg(gov[u])
			setField(m, sf[u], w.A("t1").Addr.String())
			ab = append(ab, abciCase{u, "t1", m, "authority=signer"})
			m2 := cloneMsg(gov[u])
			setField(m2, sf[u], w.Gov)
			ab = append(ab, abciCase{u, "t1", m2, "authority=gov,signed_by_other"})
		case "owner":
			if owner[u] == nil {
				continue
			}
			s := "own2"
			if strings.Contains(u, "perpetual.Msg") || strings.Contains(u, "leveragelp.Msg") || strings.Contains(u, "MsgCreatePerpetualCloseOrder") {
				s = "t2"
			}
			ab = append(ab, abciCase{u, s, owner[u], "names_foreign_resource"})
		case "role":
			if role[u] != nil {
				ab = append(ab, abciCase{u, "t3", role[u], "no_role"})
			}
		}
	}
	for _, m := range ownerMixedCases(w) {
		ab = append(ab, abciCase{sdk.MsgTypeURL(m), "own2", m, "batch_mixing_own_and_foreign_ids"})
	}
	cat["/elys.tradeshield.MsgCancelSpotOrders"], cat["/elys.tradeshield.MsgCancelPerpetualOrders"] = "owner", "owner"
	skip := map[string]bool{"acc": true}
	v0, env0 := w.Height(), w.Env
	sib := w.Exec(&BlockPlan{Dt: 5, Feed: true})
	if !sib.OK() {
		add(Finding{Clause: "harness", Detail: sib.Err})
	}
	want := w.StoreDigest(w.RCtx(), skip)
	w.Rollback(v0, env0)
	runBatch := func(cs []abciCase) (*BlockResult, []string) {
		plan := &BlockPlan{Dt: 5, Feed: true}
		for _, c := range cs {
			plan.Txs = append(plan.Txs, PlannedTx{Signer: c.signer, Msgs: []sdk.Msg{c.m}})
		}
		br := safeExec(w, plan)
		var diff []string
		if br.OK() {
			diff = digestEq(w.StoreDigest(w.RCtx(), skip), want)
		}
		w.Rollback(v0, env0)
		return br, diff
	}
	// all together first (one block), then one block per case so that a difference is attributed
	br, diff := runBatch(ab)
	transitions++
	if !br.OK() {
		add(Finding{Clause: "harness", Detail: "batch block failed: " + br.Err})
	}
	batchClean := br.OK() && len(diff) == 0
	for i, c := range ab {
		code := uint32(0)
		if br.OK() {
			code = br.Res.TxResults[i+1].Code
		}
		res := fmt.Sprintf("code=%d", code)
		if br.OK() && code == 0 {
			res = "ACCEPTED code=0"
		}
		cases = append(cases, c17Case{c.u, "abci_tx_batch", c.signer, c.v, res})
	}
	for _, c := range ab {
		b1, d1 := runBatch([]abciCase{c})
		transitions++
		states++
		if !b1.OK() {
			add(Finding{Clause: "harness", Detail: "block failed: " + b1.Err})
			continue
		}
		code := b1.Res.TxResults[1].Code
		clause := map[string]string{"gov": "gov_message_accepted_from_non_authority", "owner": "owner_scoped_message_accepted_from_non_owner", "role": "role_gated_message_accepted_without_role"}[cat[c.u]]
		if code == 0 {
			add(Finding{Clause: clause, Culprit: "abci_tx", Disc: "type=" + c.u, Detail: fmt.Sprintf("signed tx by %s carrying %s (%s) has code 0; stores changed vs sibling block: %v", c.signer, c.u, c.v, d1)})
		} else if len(d1) > 0 {
			add(Finding{Clause: "rejected_message_changed_state", Culprit: "abci_tx", Disc: "type=" + c.u, Detail: fmt.Sprintf("tx by %s carrying %s (%s) was rejected (code %d) yet stores %v differ from the sibling block without it", c.signer, c.u, c.v, code, d1)})
		}
		cases = append(cases, c17Case{c.u, "abci_tx", c.signer, c.v, fmt.Sprintf("code=%d stores_changed=%v", code, d1)})
	}
	_ = batchClean

	// conclude
	exit := 0
	nvio := 0
	var vioOut []map[string]interface{}
	seen := map[string]bool{}
	for _, f := range findings {
		if seen[f.Sig()] {
			continue
		}
		seen[f.Sig()] = true
		if f.Clause == "harness" {
			fmt.Println("HARNESS-ERROR:", f.Detail)
			exit = 2
			continue
		}
		if k := MatchKnown(kf, "C17", f); k != nil {
			fmt.Printf("KNOWN-FINDING: property=C17 %s\n", k.What)
			vioOut = append(vioOut, map[string]interface{}{"known": true, "finding": f})
			continue
		}
		nvio++
		p := WriteReplay(&Replay{Property: "C17", Engine: "R", Finding: f}, nvio)
		fmt.Printf("VIOLATION property=C17 replay=%s\n  clause=%s route=%s %s\n  %s\n", p, f.Clause, f.Culprit, f.Disc, firstLines(f.Detail, 4))
		vioOut = append(vioOut, map[string]interface{}{"known": false, "finding": f, "replay": p})
		if exit == 0 {
			exit = 1
		}
	}
	catCount := map[string]int{}
	for _, u := range elys {
		catCount[cat[u]]++
	}
	samples := []interface{}{}
	for i, c := range cases {
		if i%37 == 0 && len(samples) < 12 {
			samples = append(samples, c)
		}
	}
	WriteEvidence(&Evidence{PropertyID: "C17", Tier: tier, Seed: Seed(), Level: "model_checking", WallS: time.Since(t0).Seconds(), Violations: nvio,
		Assumptions: []string{"signature verification and authz grant checks of the SDK are the trusted base for 'sender'", "classification of non-authority signer fields comes from the table in c17.go; an unlisted registered type fails the check", "MsgAddEntry / MsgCreateAssetInfo / MsgSetPortfolio carry no authority field and are permissionless in this snapshot (outside the statement's scope)"},
		Coverage: map[string]interface{}{
			"states":                        states + int64(len(cases)),
			"transitions":                   transitions,
			"traces_validated_against_impl": int64(len(ab)),
			"samples":                       samples,
			"exhaustive":                    true,
			"engine":                        "R: exhaustive enumeration of the app's message router (InterfaceRegistry x MsgServiceRouter) x senders x routes on the real ElysApp",
			"rule":                          "every /elys. Msg implementation registered in the interface registry with a router handler is classified (signer option 'authority' => governance-only, else table); each governance-only type is exercised with a well-formed payload (positive control: accepted from the authority) from 5 non-authorised senders on the direct router route, inside authz.MsgExec (2 variants) and as signed txs through FinalizeBlock (2 variants); each owner-scoped / role-gated type with a foreign resource / missing role on the direct and ABCI routes",
			"registered_elys_msg_types":     len(elys),
			"by_category":                   catCount,
			"gov_types":                     nGov,
			"owner_types":                   nOwner,
			"role_types":                    nRole,
			"cases":                         len(cases),
			"vacuous_controls":              vacuous,
			"all_cases":                     cases,
			"findings":                      vioOut,
			"validation":                    "the ABCI-route cases are the same requests replayed as real signed transactions in real blocks and compared store-by-store with the sibling block without them",
		}})
	fmt.Printf("C17 %s: msg_types=%d gov=%d owner=%d role=%d cases=%d vacuous_controls=%d violations=%d wall=%.1fs\n", tier, len(elys), nGov, nOwner, nRole, len(cases), len(vacuous), nvio, time.Since(t0).Seconds())
	for _, v := range vacuous {
		fmt.Println("  vacuous:", v)
	}
	return exit
}

// safeExec runs a plan and converts a signing panic (unknown account etc.) into a failed result.
func safeExec(w *World, p *BlockPlan) (br *BlockResult) {
	defer func() {
		if r := recover(); r != nil {
			br = &BlockResult{Err: fmt.Sprintf("harness panic: %v", r)}
		}
	}()
	return w.Exec(p)
}

func init() {
	OtherEngines["C17"] = RunC17
	OtherReplays["C17"] = func(r *Replay) int { return RunC17("quick") }
}
