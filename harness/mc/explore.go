//go:build verif

package mc

import (
	"bufio"
	"encoding/json"
	"fmt"
	"os"
	"os/exec"
	"runtime"
	"runtime/debug"
	"sort"
	"strconv"
	"strings"
	"sync"
	"time"
)

// Finding is one oracle verdict against one transition (or root state).
type Finding struct {
	Clause  string `json:"clause"`
	Culprit string `json:"culprit"` // op kind of the block in which the clause broke
	Disc    string `json:"disc"`    // discriminators (pool / denom / module / call path …)
	Detail  string `json:"detail"`
}

func (f Finding) Sig() string { return f.Clause + "|" + f.Culprit + "|" + f.Disc }

// Measure is a vector of named drifts A−B of equality invariants on the committed state
// ("" / "0" = no drift).
type Measure map[string]string

// Transition is what a transition oracle sees.
type Transition struct {
	W    *World
	Op   *Op
	Plan *BlockPlan
	Res  *BlockResult
	Pre  interface{} // whatever the oracle's Pre hook captured before the block
	Path []string
}

// Oracle bundles a state oracle (drift measures) and/or a transition oracle.
type Oracle struct {
	Name string
	// State returns the drift vector of the committed state; a drift that changes in a block to a
	// non-zero value is a violation whose culprit is that block's op kind.
	State func(w *World) Measure
	// Pre captures pre-block observations for Post.
	Pre func(w *World, op *Op, plan *BlockPlan) interface{}
	// Post judges one transition.
	Post func(t *Transition) []Finding
	// Clauses counts how often each clause was exercised non-trivially (vacuity report).
}

// Phase is one bounded exploration: all op sequences of length ≤ Depth over Ops from each root,
// with at most Dev deviation cost.
type Phase struct {
	Name  string   `json:"name"`
	Roots []string `json:"roots"`
	Ops   []string `json:"ops"`
	Depth int      `json:"depth"`
	Dev   int      `json:"dev_budget"`
	// optional restriction of the FIRST / SECOND op of every path to a subset of Ops (product-shaped
	// phases such as "every configuration boundary x every follow-up op"); deeper levels use all Ops
	First  []string `json:"first_ops,omitempty"`
	Second []string `json:"second_ops,omitempty"`
}

// Config of one property check on Engine W.
type Config struct {
	Property    string
	Tier        string
	Fixture     FixtureCfg
	Phases      []Phase
	Oracles     []*Oracle
	ValidateMod int           // validate every n-th explored path linearly on a forked instance
	Deadline    time.Duration // wall-clock budget for exploration
	Assumptions []string
	Rule        string
	LeafHook    func(x *Explorer, path []string) // optional: extra exploration at leaves
	// NodeHook runs extra exploration below a node (must leave the instance at the node's state)
	NodeHook      func(x *Explorer, depth int, path []string, root string, phase int)
	BlockFailure  bool     // judge block failures (C18)
	Variants      []string // fixture variants to run (first = default)
	VariantPhases []Phase  // phases used for the non-default variants (nil = same)
}

// Counter is a concurrent-safe clause exercise counter used by oracles.
type Counter struct {
	mu sync.Mutex
	m  map[string]int64
}

func (c *Counter) Inc(k string) { c.Add(k, 1) }
func (c *Counter) Add(k string, n int64) {
	c.mu.Lock()
	if c.m == nil {
		c.m = map[string]int64{}
	}
	c.m[k] += n
	c.mu.Unlock()
}
func (c *Counter) Snapshot() map[string]int64 {
	c.mu.Lock()
	defer c.mu.Unlock()
	out := map[string]int64{}
	for k, v := range c.m {
		out[k] = v
	}
	return out
}

// Clauses is the process-wide clause counter (each worker is its own process).
var Clauses = &Counter{}

// ---------------------------------------------------------------------------------------------

type unit struct {
	Phase  int    `json:"phase"`
	Root   string `json:"root"`
	Prefix []int  `json:"prefix"`
	// exactly one unit per (phase, root) judges the root state, and one per (phase, root, first op)
	// judges the first op's block (the first unit emitted for it)
	JudgeRoot  bool `json:"judge_root"`
	JudgeFirst bool `json:"judge_first"`
}

type foundViolation struct {
	Finding
	Root    string   `json:"root"`
	Trace   []string `json:"trace"`
	Phase   int      `json:"phase"`
	Variant string   `json:"variant"`
}

type unitResult struct {
	Unit        unit             `json:"unit"`
	Transitions int64            `json:"transitions"`
	Blocked     int64            `json:"blocked"`
	FailedTxs   int64            `json:"failed_txs"`
	OkTxs       int64            `json:"ok_txs"`
	Keys        []string         `json:"keys"`
	Outcomes    []string         `json:"outcomes"`
	Violations  []foundViolation `json:"violations"`
	Validated   int64            `json:"validated"`
	ValidateErr string           `json:"validate_err"`
	Samples     [][]string       `json:"samples"`
	Clauses     map[string]int64 `json:"clauses"`
	Incomplete  bool             `json:"incomplete"`
	HarnessErr  string           `json:"harness_err"`
	MaxDepth    int              `json:"max_depth"`
	OpFail      map[string]int64 `json:"op_fail"`
	OpOk        map[string]int64 `json:"op_ok"`
	BlockedAt   []string         `json:"blocked_at"`
}

// Explorer is the per-process exploration state.
type Explorer struct {
	Cfg      *Config
	Lib      *OpLib
	W        *World
	rootV    map[string]int64
	rootEnv  map[string]Env
	rootDB   map[string]*World // forked pristine copies per root for linear validation
	curRoot  string
	v0       int64
	env0     Env
	deadline time.Time
	// per unit
	res     *unitResult
	seen    map[string]int
	keys    map[string]bool
	outs    map[string]bool
	nodeCtr int64
	vioSeen map[string]int // sig -> shortest trace len recorded
	// linear fallback (VERIF_LINEAR=1, set by the master when rollback exploration disagreed with linear
	// re-execution, i.e. the application keeps state OUTSIDE the committed store): no rollback shortcut —
	// every node is rebuilt by restarting the application at the root and re-executing the path
	linear bool
}

func NewExplorer(cfg *Config) *Explorer {
	x := &Explorer{Cfg: cfg, Lib: NewOpLib(), rootV: map[string]int64{}, rootEnv: map[string]Env{}, rootDB: map[string]*World{}, linear: os.Getenv("VERIF_LINEAR") != ""}
	x.W = NewWorld(cfg.Fixture)
	x.v0 = x.W.Height()
	x.env0 = x.W.Env
	x.curRoot = "R0"
	x.rootV["R0"] = x.v0
	x.rootEnv["R0"] = x.env0
	x.forkRoot("R0")
	return x
}

func (x *Explorer) gotoRoot(root string) {
	if root == "" {
		root = "R0"
	}
	if v, ok := x.rootV[root]; ok && x.curRoot == root {
		x.W.Rollback(v, x.rootEnv[root])
		if x.linear {
			x.W.Restart()
		}
		return
	}
	x.W.Rollback(x.v0, x.env0)
	if x.linear {
		x.W.Restart() // the root prefix must run on fresh memory too
	}
	BuildRoot(x.W, root, x.Lib)
	x.rootV[root] = x.W.Height()
	x.rootEnv[root] = x.W.Env
	x.curRoot = root
	x.forkRoot(root)
}

// restore brings the world to the state after root+path: by store rollback (default), or — linear
// fallback — by rolling back to the root, restarting the application (fresh memory) and re-executing
// the path.
func (x *Explorer) restore(root string, path []string, v int64, env Env) {
	if !x.linear {
		x.W.Rollback(v, env)
		return
	}
	if root == "" {
		root = "R0"
	}
	x.W.Rollback(x.rootV[root], x.rootEnv[root])
	x.W.Restart()
	for _, n := range path {
		if br := x.W.ExecOp(x.Lib.Get(n)); !br.OK() {
			panic("linear restore: re-execution of " + n + " failed: " + br.Err)
		}
	}
	x.res.Transitions += int64(len(path))
}

func (x *Explorer) forkRoot(root string) {
	if x.Cfg.ValidateMod > 0 && x.rootDB[root] == nil {
		x.rootDB[root] = x.W.Fork()
	}
}

func (x *Explorer) measures() []Measure {
	out := make([]Measure, len(x.Cfg.Oracles))
	for i, o := range x.Cfg.Oracles {
		if o.State != nil {
			out[i] = o.State(x.W)
		}
	}
	return out
}

func nz(s string) bool { return s != "" && s != "0" }

// Record lets hooks report findings.
func (x *Explorer) Record(f Finding, root string, trace []string, phase int) {
	x.record(f, root, trace, phase)
}

// CountTransition lets hooks account for the blocks they execute.
func (x *Explorer) CountTransition() { x.res.Transitions++ }

func (x *Explorer) record(f Finding, root string, trace []string, phase int) {
	sig := f.Sig()
	if n, ok := x.vioSeen[sig]; ok && n <= len(trace) {
		return
	}
	x.vioSeen[sig] = len(trace)
	// replace an earlier longer trace with the same signature
	for i := range x.res.Violations {
		if x.res.Violations[i].Sig() == sig {
			x.res.Violations[i] = foundViolation{f, root, append([]string{}, trace...), phase, x.Cfg.Fixture.Variant}
			return
		}
	}
	x.res.Violations = append(x.res.Violations, foundViolation{f, root, append([]string{}, trace...), phase, x.Cfg.Fixture.Variant})
}

// step executes op from the current state, evaluates oracles (if judge), and returns whether the
// block succeeded plus the new measures.
func (x *Explorer) step(op *Op, parent []Measure, path []string, root string, phase int, judge bool) (bool, []Measure) {
	w := x.W
	preV, preEnv := w.Height(), w.Env
	pres := make([]interface{}, len(x.Cfg.Oracles))
	plan := w.PlanOp(op)
	if judge {
		for i, o := range x.Cfg.Oracles {
			if o.Pre != nil {
				pres[i] = o.Pre(w, op, plan)
			}
		}
	}
	br := w.Exec(plan)
	for _, ge := range plan.GovErrs {
		// configuration ops: what validation + the real handler accepted / refused (vacuity control)
		if ge == "" {
			Clauses.Inc("config_change_accepted")
		} else {
			Clauses.Inc("config_change_refused_by_validation_or_handler")
		}
	}
	x.res.Transitions++
	if !br.OK() {
		x.res.Blocked++
		if len(x.res.BlockedAt) < 3 {
			x.res.BlockedAt = append(x.res.BlockedAt, fmt.Sprintf("%s%v: %s", root, path, blockFailureDisc(br.Err)))
		}
		if x.Cfg.BlockFailure && judge {
			x.record(Finding{Clause: "block_processing_failed", Culprit: "block", Disc: blockFailureDisc(br.Err), Detail: br.Err}, root, path, phase)
		}
		return false, nil
	}
	for _, r := range br.Res.TxResults {
		if r.Code != 0 {
			x.res.FailedTxs++
		} else {
			x.res.OkTxs++
		}
	}
	if len(plan.TxIndex) > 0 {
		allOk := true
		for _, ti := range plan.TxIndex {
			if br.Res.TxResults[ti].Code != 0 {
				allOk = false
			}
		}
		if allOk {
			x.res.OpOk[op.Name]++
		} else {
			x.res.OpFail[op.Name]++
		}
	}
	ms := x.measures()
	if judge {
		for i, o := range x.Cfg.Oracles {
			if o.State != nil {
				for k, v := range ms[i] {
					pv := ""
					if parent != nil && parent[i] != nil {
						pv = parent[i][k]
					}
					if nz(v) && v != pv {
						cl, disc := splitKey(k)
						culprit := op.Kind
						// attribution: if the block WITHOUT the op's transactions (same header, same feed, same
						// gov steps) shows the same drift, the culprit is block processing (begin/end blockers,
						// sweeps), not the op that happened to share the block
						if len(plan.Txs) == 0 && len(plan.Gov) == 0 {
							culprit = "block_processing" // nothing but begin/end blockers ran
						} else if len(plan.Txs) > 0 && !x.linear && x.siblingShows(i, k, v, plan, preV, preEnv) {
							culprit = "block_processing"
						}
						x.record(Finding{Clause: cl, Culprit: culprit, Disc: disc, Detail: fmt.Sprintf("drift %s -> %s after op %s", orZero(pv), v, op.Name)}, root, path, phase)
					}
				}
			}
			if o.Post != nil {
				for _, f := range o.Post(&Transition{W: w, Op: op, Plan: plan, Res: br, Pre: pres[i], Path: path}) {
					if f.Culprit == "" {
						f.Culprit = op.Kind
					}
					x.record(f, root, path, phase)
				}
			}
		}
		x.keys[w.StateKey()] = true
		x.outs[outcomeOf(br)] = true
	}
	return true, ms
}

// siblingShows re-runs the block without its transactions and reports whether oracle #oi shows the
// same drift value for key; the explored state is restored by re-executing the original plan.
func (x *Explorer) siblingShows(oi int, key, val string, plan *BlockPlan, v int64, env Env) bool {
	w := x.W
	want := w.App.LastCommitID().Hash
	w.Rollback(v, env)
	sib := *plan
	sib.Txs, sib.TxIndex, sib.GovErrs = nil, nil, nil
	shows := false
	if br := w.Exec(&sib); br.OK() {
		if m := x.Cfg.Oracles[oi].State(w); m != nil && m[key] == val {
			shows = true
		}
	}
	w.Rollback(v, env)
	re := *plan
	re.TxIndex, re.GovErrs = nil, nil
	if br := w.Exec(&re); !br.OK() || string(w.App.LastCommitID().Hash) != string(want) {
		panic("attribution sibling: re-execution diverged")
	}
	x.res.Transitions += 2
	return shows
}

func orZero(s string) string {
	if s == "" {
		return "0"
	}
	return s
}

func splitKey(k string) (string, string) {
	if i := strings.Index(k, "@"); i >= 0 {
		return k[:i], k[i+1:]
	}
	return k, ""
}

func blockFailureDisc(err string) string {
	// the innermost Elys frame of a panic (function name), or the head of the error text
	for _, l := range strings.Split(err, "\n") {
		if i := strings.Index(l, "elys-network/elys/"); i >= 0 && strings.Contains(l, " @ ") {
			s := l[i+len("elys-network/elys/"):]
			if j := strings.Index(s, " @ "); j > 0 {
				s = s[:j]
			}
			head := strings.SplitN(err, "\n", 2)[0]
			if len(head) > 60 {
				head = head[:60]
			}
			return head + " in " + s
		}
	}
	if len(err) > 100 {
		err = err[:100]
	}
	return err
}

func outcomeOf(br *BlockResult) string {
	var sb strings.Builder
	for _, r := range br.Res.TxResults {
		sb.WriteString(strconv.Itoa(int(r.Code)))
		sb.WriteString(",")
	}
	return sb.String()
}

func (x *Explorer) dfs(ph *Phase, ops []*Op, depth, dev int, path []string, parent []Measure, root string, phase int) {
	if depth >= ph.Depth {
		return
	}
	w := x.W
	v, env := w.Height(), w.Env
	for _, op := range ops {
		if dev+op.Dev > ph.Dev {
			continue
		}
		if time.Now().After(x.deadline) {
			x.res.Incomplete = true
			return
		}
		np := append(path, op.Name)
		ok, ms := x.step(op, parent, np, root, phase, true)
		if ok {
			x.nodeCtr++
			if len(np) > x.res.MaxDepth {
				x.res.MaxDepth = len(np)
			}
			if x.Cfg.ValidateMod > 0 && (x.nodeCtr%int64(x.Cfg.ValidateMod) == 0 || len(np) == 1) {
				x.validate(root, np)
			}
			if len(x.res.Samples) < 3 && depth+1 == ph.Depth {
				x.res.Samples = append(x.res.Samples, append([]string{root}, np...))
			}
			if x.Cfg.NodeHook != nil {
				x.Cfg.NodeHook(x, depth+1, np, root, phase)
			}
			rem := ph.Depth - depth - 1
			if x.linear && rem > 0 {
				// oracles with internal rollbacks (sibling blocks, drains) may have disturbed memory
				x.restore(root, np, 0, Env{})
			}
			if rem > 0 {
				key := w.StateKey() + fmt.Sprintf("/%d", dev+op.Dev)
				if x.linear {
					key = fmt.Sprintf("linear-%d", x.nodeCtr) // no state merging: memory is not part of the key
				}
				if x.seen[key] < rem {
					x.seen[key] = rem
					x.dfs(ph, ops, depth+1, dev+op.Dev, np, ms, root, phase)
				}
			} else if x.Cfg.LeafHook != nil {
				x.Cfg.LeafHook(x, np)
			}
		}
		x.restore(root, path, v, env)
	}
}

// validate re-executes root+path linearly on a fresh ElysApp over a copy of the root database
// (no rollback anywhere) and compares the resulting app hash (the Merkle root of every store,
// i.e. of everything every block of the path wrote) with the explorer's own state after the path.
func (x *Explorer) validate(root string, path []string) {
	w := x.W
	wantHash := fmt.Sprintf("%X", w.App.LastCommitID().Hash)
	base, ok := x.rootDB[root]
	if !ok {
		x.res.HarnessErr = "validate: no pristine copy of root " + root
		return
	}
	f := base.Fork()
	defer f.Close()
	for _, n := range path {
		if br := f.ExecOp(x.Lib.Get(n)); !br.OK() {
			x.res.ValidateErr = fmt.Sprintf("linear run of %v failed: %s", path, br.Err)
			return
		}
	}
	got := fmt.Sprintf("%X", f.App.LastCommitID().Hash)
	if got != wantHash {
		x.res.ValidateErr = fmt.Sprintf("linear run of %s%v gives app hash %s, explorer (rollback DFS) had %s", root, path, got, wantHash)
		return
	}
	x.res.Validated++
}

// RunUnit explores the subtree below unit.Prefix.
func (x *Explorer) RunUnit(u unit, deadline time.Time) (ret *unitResult) {
	x.deadline = deadline
	x.res = &unitResult{Unit: u, OpFail: map[string]int64{}, OpOk: map[string]int64{}}
	x.seen = map[string]int{}
	x.keys = map[string]bool{}
	x.outs = map[string]bool{}
	x.vioSeen = map[string]int{}
	defer func() {
		if r := recover(); r != nil {
			x.res.HarnessErr = fmt.Sprintf("harness panic in unit %+v: %v\n%s", u, r, debug.Stack())
			ret = x.res
			// the instance may be mid-block: rebuild it
			x.W.Poisoned = true
			x.curRoot = ""
		}
	}()
	ph := &x.Cfg.Phases[u.Phase]
	ops := x.Lib.Select(ph.Ops...)
	x.gotoRoot(u.Root)
	w := x.W
	parent := x.measures()
	// root drift must be zero (judged once, by the unit with an all-zero prefix)
	if u.JudgeRoot {
		for i, o := range x.Cfg.Oracles {
			if o.State == nil {
				continue
			}
			for k, v := range parent[i] {
				if nz(v) {
					cl, disc := splitKey(k)
					x.record(Finding{Clause: cl, Culprit: "root", Disc: disc, Detail: "non-zero drift " + v + " at root " + u.Root}, u.Root, nil, u.Phase)
				}
			}
		}
		x.keys[w.StateKey()] = true
	}
	path := []string{}
	dev := 0
	alive := true
	for i, idx := range u.Prefix {
		op := ops[idx]
		if dev+op.Dev > ph.Dev {
			alive = false
			break
		}
		dev += op.Dev
		path = append(path, op.Name)
		judge := i == len(u.Prefix)-1 || u.JudgeFirst // the last prefix op belongs to this unit alone; an earlier one is shared
		ok, ms := x.step(op, parent, path, u.Root, u.Phase, judge)
		if !ok {
			alive = false
			x.restore(u.Root, nil, x.rootV[u.Root], x.rootEnv[u.Root])
			break
		}
		if judge {
			x.nodeCtr++
			if len(path) > x.res.MaxDepth {
				x.res.MaxDepth = len(path)
			}
			if x.Cfg.ValidateMod > 0 && len(path) == 1 {
				x.validate(u.Root, path)
			}
			if x.Cfg.NodeHook != nil {
				x.Cfg.NodeHook(x, len(path), append([]string{}, path...), u.Root, u.Phase)
			}
		}
		parent = ms
	}
	if alive && x.linear && len(path) > 0 {
		x.restore(u.Root, path, 0, Env{})
	}
	if alive {
		if len(u.Prefix) < ph.Depth {
			x.dfs(ph, ops, len(u.Prefix), dev, path, parent, u.Root, u.Phase)
		} else if x.Cfg.LeafHook != nil {
			x.Cfg.LeafHook(x, path)
		}
	}
	for k := range x.keys {
		x.res.Keys = append(x.res.Keys, k)
	}
	for k := range x.outs {
		x.res.Outcomes = append(x.res.Outcomes, k)
	}
	x.res.Clauses = Clauses.Snapshot()
	Clauses = &Counter{}
	return x.res
}

func allZero(a []int) bool {
	for _, v := range a {
		if v != 0 {
			return false
		}
	}
	return true
}

// ---------------------------------------------------------------------------------------------
// worker process: reads units (JSON lines) on fd 3, writes results on fd 4.

func WorkerMain(cfg *Config) {
	in := os.NewFile(3, "units")
	out := os.NewFile(4, "results")
	x := NewExplorer(cfg)
	defer x.W.Close()
	rd := bufio.NewReaderSize(in, 1<<20)
	enc := json.NewEncoder(out)
	for {
		line, err := rd.ReadBytes('\n')
		if err != nil {
			return
		}
		var req struct {
			U        unit  `json:"u"`
			Deadline int64 `json:"deadline"`
		}
		if err := json.Unmarshal(line, &req); err != nil {
			fmt.Fprintln(os.Stderr, "bad unit:", err)
			return
		}
		res := x.RunUnit(req.U, time.Unix(req.Deadline, 0))
		if err := enc.Encode(res); err != nil {
			return
		}
	}
}

// ---------------------------------------------------------------------------------------------
// master

type Summary struct {
	States      int64
	Transitions int64
	Blocked     int64
	FailedTxs   int64
	OkTxs       int64
	Validated   int64
	Outcomes    int
	Violations  []foundViolation
	Samples     [][]string
	Clauses     map[string]int64
	Exhaustive  bool
	PhasesDone  []string
	UnitsTotal  int
	UnitsDone   int
	HarnessErrs []string
	MaxDepth    int
	OpFail      map[string]int64
	OpOk        map[string]int64
	Wall        float64
	BlockedAt   []string
}

func nWorkers() int {
	if s := os.Getenv("VERIF_WORKERS"); s != "" {
		if n, err := strconv.Atoi(s); err == nil && n > 0 {
			return n
		}
	}
	n := runtime.NumCPU()
	if n > 16 {
		n = 16
	}
	return n
}

type workerProc struct {
	cmd *exec.Cmd
	in  *os.File
	out *bufio.Reader
	id  int
}

func startWorker(id int, args []string) (*workerProc, error) {
	self, err := os.Executable()
	if err != nil {
		return nil, err
	}
	inR, inW, _ := os.Pipe()
	outR, outW, _ := os.Pipe()
	cmd := exec.Command(self, args...)
	cmd.ExtraFiles = []*os.File{inR, outW}
	logf, _ := os.Create(fmt.Sprintf("%s/worker-%d-%d.log", WorkDir(), os.Getpid(), id))
	cmd.Stdout = logf
	cmd.Stderr = logf
	cmd.Env = append(os.Environ(), "GOMAXPROCS=2")
	if err := cmd.Start(); err != nil {
		return nil, err
	}
	inR.Close()
	outW.Close()
	return &workerProc{cmd: cmd, in: inW, out: bufio.NewReaderSize(outR, 1<<22), id: id}, nil
}

// enumerate units: all prefixes of length min(2, depth) per (phase, root)
func makeUnits(cfg *Config, lib *OpLib) []unit {
	var us []unit
	for pi, ph := range cfg.Phases {
		n := len(ph.Ops)
		in := func(set []string, name string) bool {
			if len(set) == 0 {
				return true
			}
			for _, x := range set {
				if x == name {
					return true
				}
			}
			return false
		}
		for _, r := range ph.Roots {
			rootJudged := false
			if ph.Depth <= 1 {
				for i := 0; i < n; i++ {
					if in(ph.First, ph.Ops[i]) {
						us = append(us, unit{pi, r, []int{i}, !rootJudged, true})
						rootJudged = true
					}
				}
				continue
			}
			for i := 0; i < n; i++ {
				if !in(ph.First, ph.Ops[i]) {
					continue
				}
				firstJudged := false
				for j := 0; j < n; j++ {
					if in(ph.Second, ph.Ops[j]) {
						us = append(us, unit{pi, r, []int{i, j}, !rootJudged, !firstJudged})
						rootJudged, firstJudged = true, true
					}
				}
			}
		}
	}
	return us
}

// RunMaster shards the exploration over worker processes and merges the results.
func RunMaster(cfg *Config, workerArgs []string) *Summary {
	t0 := time.Now()
	lib := NewOpLib()
	units := makeUnits(cfg, lib)
	sum := &Summary{Clauses: map[string]int64{}, UnitsTotal: len(units), Exhaustive: true, OpFail: map[string]int64{}, OpOk: map[string]int64{}}
	deadline := t0.Add(cfg.Deadline)
	nw := nWorkers()
	if nw > len(units) {
		nw = len(units)
	}
	var mu sync.Mutex
	next := 0
	keys := map[string]bool{}
	outs := map[string]bool{}
	vio := map[string]foundViolation{}
	phaseUnits := map[int]int{}
	phaseDone := map[int]int{}
	for _, u := range units {
		phaseUnits[u.Phase]++
	}
	var wg sync.WaitGroup
	for i := 0; i < nw; i++ {
		wg.Add(1)
		go func(id int) {
			defer wg.Done()
			var wp *workerProc
			defer func() {
				if wp != nil {
					wp.in.Close()
					wp.cmd.Wait()
				}
			}()
			for {
				mu.Lock()
				if next >= len(units) || time.Now().After(deadline) {
					if next < len(units) {
						sum.Exhaustive = false
					}
					mu.Unlock()
					return
				}
				u := units[next]
				next++
				mu.Unlock()
				if wp == nil {
					var err error
					wp, err = startWorker(id, workerArgs)
					if err != nil {
						mu.Lock()
						sum.HarnessErrs = append(sum.HarnessErrs, "start worker: "+err.Error())
						mu.Unlock()
						return
					}
				}
				req, _ := json.Marshal(map[string]interface{}{"u": u, "deadline": deadline.Unix()})
				wp.in.Write(append(req, '\n'))
				line, err := wp.out.ReadBytes('\n')
				if err != nil {
					// worker died (fatal error / OOM): a harness-level event, reported, never a hang
					mu.Lock()
					sum.HarnessErrs = append(sum.HarnessErrs, fmt.Sprintf("worker %d died on unit %+v: %v", id, u, err))
					mu.Unlock()
					wp.cmd.Wait()
					wp = nil
					continue
				}
				var r unitResult
				if err := json.Unmarshal(line, &r); err != nil {
					mu.Lock()
					sum.HarnessErrs = append(sum.HarnessErrs, "bad result: "+err.Error())
					mu.Unlock()
					continue
				}
				mu.Lock()
				sum.UnitsDone++
				sum.Transitions += r.Transitions
				sum.Blocked += r.Blocked
				sum.FailedTxs += r.FailedTxs
				sum.OkTxs += r.OkTxs
				sum.Validated += r.Validated
				if r.MaxDepth > sum.MaxDepth {
					sum.MaxDepth = r.MaxDepth
				}
				for _, k := range r.Keys {
					keys[k] = true
				}
				for _, k := range r.Outcomes {
					outs[k] = true
				}
				for k, v := range r.Clauses {
					sum.Clauses[k] += v
				}
				for k, v := range r.OpFail {
					sum.OpFail[k] += v
				}
				for k, v := range r.OpOk {
					sum.OpOk[k] += v
				}
				if len(sum.BlockedAt) < 10 {
					sum.BlockedAt = append(sum.BlockedAt, r.BlockedAt...)
				}
				if r.Incomplete {
					sum.Exhaustive = false
				} else {
					phaseDone[r.Unit.Phase]++
				}
				if r.HarnessErr != "" {
					sum.HarnessErrs = append(sum.HarnessErrs, r.HarnessErr)
				}
				if r.ValidateErr != "" {
					sum.HarnessErrs = append(sum.HarnessErrs, "explorer validation: "+r.ValidateErr)
				}
				if len(sum.Samples) < 6 {
					sum.Samples = append(sum.Samples, r.Samples...)
				}
				for _, v := range r.Violations {
					s := v.Sig()
					if old, ok := vio[s]; !ok || len(v.Trace) < len(old.Trace) || (len(v.Trace) == len(old.Trace) && strings.Join(v.Trace, ",") < strings.Join(old.Trace, ",")) {
						vio[s] = v
					}
				}
				mu.Unlock()
			}
		}(i)
	}
	wg.Wait()
	sum.States = int64(len(keys))
	sum.Outcomes = len(outs)
	for pi, ph := range cfg.Phases {
		if phaseDone[pi] == phaseUnits[pi] {
			sum.PhasesDone = append(sum.PhasesDone, ph.Name)
		}
	}
	sigs := make([]string, 0, len(vio))
	for s := range vio {
		sigs = append(sigs, s)
	}
	sort.Strings(sigs)
	for _, s := range sigs {
		sum.Violations = append(sum.Violations, vio[s])
	}
	sum.Wall = time.Since(t0).Seconds()
	return sum
}

// MergeSummaries adds b into a (used when a property runs several fixture variants).
func MergeSummaries(a, b *Summary) *Summary {
	if a == nil {
		return b
	}
	a.States += b.States
	a.Transitions += b.Transitions
	a.Blocked += b.Blocked
	a.FailedTxs += b.FailedTxs
	a.OkTxs += b.OkTxs
	a.Validated += b.Validated
	if b.Outcomes > a.Outcomes {
		a.Outcomes = b.Outcomes
	}
	seen := map[string]bool{}
	for _, v := range a.Violations {
		seen[v.Sig()] = true
	}
	for _, v := range b.Violations {
		if !seen[v.Sig()] {
			a.Violations = append(a.Violations, v)
		}
	}
	if len(a.Samples) < 8 {
		a.Samples = append(a.Samples, b.Samples...)
	}
	for k, v := range b.Clauses {
		a.Clauses[k] += v
	}
	for k, v := range b.OpFail {
		a.OpFail[k] += v
	}
	for k, v := range b.OpOk {
		a.OpOk[k] += v
	}
	a.Exhaustive = a.Exhaustive && b.Exhaustive
	a.PhasesDone = append(a.PhasesDone, b.PhasesDone...)
	a.UnitsTotal += b.UnitsTotal
	a.UnitsDone += b.UnitsDone
	a.HarnessErrs = append(a.HarnessErrs, b.HarnessErrs...)
	if b.MaxDepth > a.MaxDepth {
		a.MaxDepth = b.MaxDepth
	}
	a.Wall += b.Wall
	return a
}
