//go:build verif

package mc

import (
	"fmt"

	"cosmossdk.io/math"
	ctypes "github.com/elys-network/elys/x/commitment/types"
)

// Engine K part of C12: Commitments.DeductFromCommitted over the full product of lock-up shapes
// (<= 3 lock-ups), times around every expiry, amounts around the withdrawable boundary, and both
// the owner path and the liquidation path, against a reference ledger.

type c12kCase struct {
	Locks [][2]int64 `json:"lockups(amount,unlock)"`
	Free  int64      `json:"unlocked_part"`
	Now   int64      `json:"now"`
	Amt   int64      `json:"amount"`
	Liq   bool       `json:"is_liquidation"`
}

func c12kEval(c c12kCase) (string, string) {
	cm := ctypes.Commitments{Creator: "x"}
	total := c.Free
	if c.Free > 0 {
		cm.AddCommittedTokens("d", math.NewInt(c.Free), 0)
	}
	live := int64(0)
	for _, l := range c.Locks {
		cm.AddCommittedTokens("d", math.NewInt(l[0]), uint64(l[1]))
		total += l[0]
		if l[1] > c.Now {
			live += l[0]
		}
	}
	if total == 0 {
		return "", ""
	}
	err := cm.DeductFromCommitted("d", math.NewInt(c.Amt), uint64(c.Now), c.Liq)
	withdrawable := total - live
	wantOK := c.Amt <= withdrawable
	if c.Liq {
		wantOK = c.Amt <= total
	}
	if wantOK && err != nil {
		return "withdrawable_amount_refused", fmt.Sprintf("committed %d, live lock-ups %d, withdraw %d at t=%d liquidation=%v refused: %v", total, live, c.Amt, c.Now, c.Liq, err)
	}
	if !wantOK && err == nil {
		if c.Amt > total {
			return "uncommit_of_more_than_held_accepted", fmt.Sprintf("committed %d, withdraw %d accepted", total, c.Amt)
		}
		return "locked_amount_withdrawn_by_owner", fmt.Sprintf("committed %d of which %d still locked at t=%d; owner withdrawal of %d accepted (lock-ups %v)", total, live, c.Now, c.Amt, c.Locks)
	}
	if err != nil {
		return "", ""
	}
	// accepted: the ledger after
	got := cm.GetCommittedAmountForDenom("d")
	if !got.Equal(math.NewInt(total - c.Amt)) {
		return "committed_amount_after_withdrawal", fmt.Sprintf("committed %d - %d gives %s", total, c.Amt, got)
	}
	if !c.Liq {
		after := int64(0)
		for _, l := range cm.GetCommittedLockUpsForDenom("d") {
			if int64(l.UnlockTimestamp) > c.Now {
				after += l.Amount.Int64()
			}
		}
		if after != live && total-c.Amt > 0 {
			return "live_lockup_dropped_on_partial_withdrawal", fmt.Sprintf("live lock-ups %d before, %d after an owner withdrawal of %d (lock-ups %v, t=%d)", live, after, c.Amt, c.Locks, c.Now)
		}
		if after > total-c.Amt {
			return "lockups_exceed_committed_after_withdrawal", fmt.Sprintf("live lock-ups %d > committed %d", after, total-c.Amt)
		}
	}
	return "", ""
}

func c12kAll() (cases int64, findings []foundViolation) {
	amts := []int64{1, 5, 10}
	times := []int64{90, 100, 110}
	nows := []int64{89, 90, 91, 99, 100, 101, 109, 110, 111}
	var shapes [][][2]int64
	shapes = append(shapes, nil)
	for _, a1 := range amts {
		for _, t1 := range times {
			shapes = append(shapes, [][2]int64{{a1, t1}})
			for _, a2 := range amts {
				for _, t2 := range times {
					shapes = append(shapes, [][2]int64{{a1, t1}, {a2, t2}})
					for _, a3 := range amts {
						for _, t3 := range times {
							shapes = append(shapes, [][2]int64{{a1, t1}, {a2, t2}, {a3, t3}})
						}
					}
				}
			}
		}
	}
	seen := map[string]bool{}
	for _, sh := range shapes {
		for _, free := range []int64{0, 3} {
			total := free
			for _, l := range sh {
				total += l[0]
			}
			for _, now := range nows {
				live := int64(0)
				for _, l := range sh {
					if l[1] > now {
						live += l[0]
					}
				}
				w := total - live
				for _, amt := range []int64{1, w - 1, w, w + 1, total - 1, total, total + 1} {
					if amt <= 0 {
						continue
					}
					for _, liq := range []bool{false, true} {
						c := c12kCase{sh, free, now, amt, liq}
						cases++
						if cl, det := c12kEval(c); cl != "" && !seen[cl] {
							seen[cl] = true
							findings = append(findings, foundViolation{Finding: Finding{Clause: cl, Culprit: "DeductFromCommitted", Disc: fmt.Sprintf("liquidation=%v", liq), Detail: det}, Root: "K", Trace: []string{fmt.Sprintf("%+v", c)}})
						}
					}
				}
			}
		}
	}
	return
}
