//go:build verif

package mc

import (
	"fmt"
	"time"

	"cosmossdk.io/math"
	sdk "github.com/cosmos/cosmos-sdk/types"
	ctypes "github.com/elys-network/elys/x/commitment/types"
)

// Engine K part of C12: Commitments.DeductFromCommitted over the full product of lock-up shapes
// (<= 3 lock-ups), times around every expiry, amounts around the withdrawable boundary, and both
// the owner path and the liquidation path, against a reference ledger.

type c12kCase struct {
	Locks [][2]int64 `json:"lockups(amount,unlock)"`
	Free  int64      `json:"unlocked_part"`
	Now   int64      `json:"now"`
	Amt   int64      `json:"amount"`
	Liq   bool       `json:"is_liquidation"`
}

func c12kEval(c c12kCase) (string, string) {
	cm := ctypes.Commitments{Creator: "x"}
	total := c.Free
	if c.Free > 0 {
		cm.AddCommittedTokens("d", math.NewInt(c.Free), 0)
	}
	live := int64(0)
	for _, l := range c.Locks {
		cm.AddCommittedTokens("d", math.NewInt(l[0]), uint64(l[1]))
		total += l[0]
		if l[1] > c.Now {
			live += l[0]
		}
	}
	if total == 0 {
		return "", ""
	}
	err := cm.DeductFromCommitted("d", math.NewInt(c.Amt), uint64(c.Now), c.Liq)
	withdrawable := total - live
	wantOK := c.Amt <= withdrawable
	if c.Liq {
		wantOK = c.Amt <= total
	}
	if wantOK && err != nil {
		return "withdrawable_amount_refused", fmt.Sprintf("committed %d, live lock-ups %d, withdraw %d at t=%d liquidation=%v refused: %v", total, live, c.Amt, c.Now, c.Liq, err)
	}
	if !wantOK && err == nil {
		if c.Amt > total {
			return "uncommit_of_more_than_held_accepted", fmt.Sprintf("committed %d, withdraw %d accepted", total, c.Amt)
		}
		return "locked_amount_withdrawn_by_owner", fmt.Sprintf("committed %d of which %d still locked at t=%d; owner withdrawal of %d accepted (lock-ups %v)", total, live, c.Now, c.Amt, c.Locks)
	}
	if err != nil {
		return "", ""
	}
	// accepted: the ledger after
	got := cm.GetCommittedAmountForDenom("d")
	if !got.Equal(math.NewInt(total - c.Amt)) {
		return "committed_amount_after_withdrawal", fmt.Sprintf("committed %d - %d gives %s", total, c.Amt, got)
	}
	if !c.Liq {
		after := int64(0)
		for _, l := range cm.GetCommittedLockUpsForDenom("d") {
			if int64(l.UnlockTimestamp) > c.Now {
				after += l.Amount.Int64()
			}
		}
		if after != live && total-c.Amt > 0 {
			return "live_lockup_dropped_on_partial_withdrawal", fmt.Sprintf("live lock-ups %d before, %d after an owner withdrawal of %d (lock-ups %v, t=%d)", live, after, c.Amt, c.Locks, c.Now)
		}
		if after > total-c.Amt {
			return "lockups_exceed_committed_after_withdrawal", fmt.Sprintf("live lock-ups %d > committed %d", after, total-c.Amt)
		}
	}
	return "", ""
}

func c12kAll() (cases int64, findings []foundViolation) {
	amts := []int64{1, 5, 10}
	times := []int64{90, 100, 110}
	nows := []int64{89, 90, 91, 99, 100, 101, 109, 110, 111}
	var shapes [][][2]int64
	shapes = append(shapes, nil)
	for _, a1 := range amts {
		for _, t1 := range times {
			shapes = append(shapes, [][2]int64{{a1, t1}})
			for _, a2 := range amts {
				for _, t2 := range times {
					shapes = append(shapes, [][2]int64{{a1, t1}, {a2, t2}})
					for _, a3 := range amts {
						for _, t3 := range times {
							shapes = append(shapes, [][2]int64{{a1, t1}, {a2, t2}, {a3, t3}})
						}
					}
				}
			}
		}
	}
	seen := map[string]bool{}
	for _, sh := range shapes {
		for _, free := range []int64{0, 3} {
			total := free
			for _, l := range sh {
				total += l[0]
			}
			for _, now := range nows {
				live := int64(0)
				for _, l := range sh {
					if l[1] > now {
						live += l[0]
					}
				}
				w := total - live
				for _, amt := range []int64{1, w - 1, w, w + 1, total - 1, total, total + 1} {
					if amt <= 0 {
						continue
					}
					for _, liq := range []bool{false, true} {
						c := c12kCase{sh, free, now, amt, liq}
						cases++
						if cl, det := c12kEval(c); cl != "" && !seen[cl] {
							seen[cl] = true
							findings = append(findings, foundViolation{Finding: Finding{Clause: cl, Culprit: "DeductFromCommitted", Disc: fmt.Sprintf("liquidation=%v", liq), Detail: det}, Root: "K", Trace: []string{fmt.Sprintf("%+v", c)}})
						}
					}
				}
			}
		}
	}
	return
}

// ---------------------------------------------------------------------------------------------
// Keeper-level product: the SAME ledger is built through the REAL Keeper.CommitLiquidTokens (one call
// per lock-up, in list order, any order of unlock times) and withdrawn through the REAL
// Keeper.UncommitTokens, on discarded branches of a real application state. This covers what the
// type-level product above cannot see: anything the keeper does to the record between the calls.

func c12kKeeperAll(maxLocks int) (cases int64, findings []foundViolation) {
	w := NewWorld(FixtureCfg{})
	defer w.Close()
	k := w.App.CommitmentKeeper
	denom := "amm/pool/2"
	who := w.A("q1").Addr
	base, _ := w.Ctx().CacheContext()
	t0 := w.Env.Tm + 5
	base = base.WithBlockHeight(w.Height() + 1).WithBlockTime(time.Unix(t0, 0).UTC())
	// liquid share tokens for the account (minted on the branch only)
	funds := sdk.NewCoins(sdk.NewCoin(denom, math.NewInt(1000)))
	if err := w.App.BankKeeper.MintCoins(base, "amm", funds); err != nil {
		return 0, []foundViolation{{Finding: Finding{Clause: "harness_error", Detail: err.Error()}, Root: "K"}}
	}
	if err := w.App.BankKeeper.SendCoinsFromModuleToAccount(base, "amm", who, funds); err != nil {
		return 0, []foundViolation{{Finding: Finding{Clause: "harness_error", Detail: err.Error()}, Root: "K"}}
	}
	amts := []int64{1, 5, 10}
	times := []int64{90, 100, 110}
	nows := []int64{89, 90, 91, 99, 100, 101, 109, 110, 111}
	var shapes [][][2]int64
	var build func(cur [][2]int64)
	build = func(cur [][2]int64) {
		if len(cur) > 0 {
			shapes = append(shapes, append([][2]int64{}, cur...))
		}
		if len(cur) == maxLocks {
			return
		}
		for _, a := range amts {
			for _, t := range times {
				build(append(cur, [2]int64{a, t}))
			}
		}
	}
	build(nil)
	seen := map[string]bool{}
	report := func(cl, det string, c c12kCase) {
		if cl != "" && !seen[cl] {
			seen[cl] = true
			findings = append(findings, foundViolation{Finding: Finding{Clause: cl, Culprit: "Keeper.CommitLiquidTokens+UncommitTokens", Disc: fmt.Sprintf("liquidation=%v", c.Liq), Detail: det}, Root: "K", Trace: []string{fmt.Sprintf("%+v", c)}})
		}
	}
	for _, sh := range shapes {
		for _, free := range []int64{0, 3} {
			// build the ledger once per (shape, free) on its own branch
			led, _ := base.CacheContext()
			ok := true
			total := free
			if free > 0 {
				if err := k.CommitLiquidTokens(led, who, denom, math.NewInt(free), 0); err != nil {
					ok = false
				}
			}
			for i, l := range sh {
				c := led.WithBlockTime(time.Unix(t0+int64(i), 0).UTC())
				if err := k.CommitLiquidTokens(c, who, denom, math.NewInt(l[0]), uint64(t0+l[1])); err != nil {
					ok = false
				}
				total += l[0]
			}
			if !ok {
				report("commit_refused", fmt.Sprintf("CommitLiquidTokens refused while building %v", sh), c12kCase{Locks: sh, Free: free})
				continue
			}
			cmLed := k.GetCommitments(led, who)
			if got := cmLed.GetCommittedAmountForDenom(denom); !got.Equal(math.NewInt(total)) {
				report("committed_amount_after_commits", fmt.Sprintf("commits %v + %d give %s", sh, free, got), c12kCase{Locks: sh, Free: free})
			}
			for _, now := range nows {
				live := int64(0)
				for _, l := range sh {
					if l[1] > now {
						live += l[0]
					}
				}
				wd := total - live
				for _, amt := range []int64{1, wd - 1, wd, wd + 1, total, total + 1} {
					if amt <= 0 {
						continue
					}
					for _, liq := range []bool{false, true} {
						c := c12kCase{sh, free, now, amt, liq}
						cases++
						br, _ := led.CacheContext()
						br = br.WithBlockTime(time.Unix(t0+now, 0).UTC())
						var err error
						func() {
							defer func() {
								if r := recover(); r != nil {
									err = fmt.Errorf("panic: %v", r)
								}
							}()
							err = k.UncommitTokens(br, who, denom, math.NewInt(amt), liq)
						}()
						wantOK := amt <= wd
						if liq {
							wantOK = amt <= total
						}
						switch {
						case wantOK && err != nil:
							report("withdrawable_amount_refused", fmt.Sprintf("committed %d, live lock-ups %d, withdraw %d at t=%d liquidation=%v refused: %v (lock-ups %v)", total, live, amt, now, liq, err, sh), c)
						case !wantOK && err == nil && amt > total:
							report("uncommit_of_more_than_held_accepted", fmt.Sprintf("committed %d, withdraw %d accepted", total, amt), c)
						case !wantOK && err == nil:
							report("locked_amount_withdrawn_by_owner", fmt.Sprintf("committed %d of which %d still locked at t=%d; owner withdrawal of %d accepted (lock-ups in commit order %v)", total, live, now, amt, sh), c)
						case err == nil:
							cmBr := k.GetCommitments(br, who)
							if got := cmBr.GetCommittedAmountForDenom(denom); !got.Equal(math.NewInt(total - amt)) {
								report("committed_amount_after_withdrawal", fmt.Sprintf("committed %d - %d gives %s", total, amt, got), c)
							}
						}
					}
				}
			}
		}
	}
	return
}

// ---------------------------------------------------------------------------------------------
// Eden Boost burn product. Uncommitting Eden and unstaking ELYS burn a SHARE of the account's Eden Boost —
// first from the claimed bucket, the rest from the committed one — through a hook chain that crosses
// three modules (commitment -> estaking -> commitment). In block-level histories the burnt amounts are a
// few units at most (boost accrues per block), so this product builds the interesting ledgers directly,
// the way rewards do (Keeper.AddEdenEdenBOnAccount + the real MsgCommitClaimedRewards), on discarded
// branches of root R8, and sends the real messages. Judged: for every denom OTHER than the one the message
// itself uncommits, the chain-wide committed total moves exactly as the sum over all accounts does.

type c12kBoostCase struct {
	EdenExtra, BoostCommitted, BoostClaimed int64
	Op                                      string
}

func c12kBoostAll() (cases int64, findings []foundViolation) {
	w := NewWorld(FixtureCfg{})
	defer w.Close()
	BuildRoot(w, "R8", NewOpLib())
	k := w.App.CommitmentKeeper
	lp1 := w.A("lp1")
	base, _ := w.Ctx().CacheContext()
	base = base.WithBlockHeight(w.Height() + 1).WithBlockTime(time.Unix(w.Env.Tm+5, 0).UTC())
	deliver := func(ctx sdk.Context, msg sdk.Msg) (err error) {
		c, write := ctx.CacheContext()
		defer func() {
			if r := recover(); r != nil {
				err = fmt.Errorf("panic: %v", r)
			}
		}()
		if _, err = w.App.MsgServiceRouter().Handler(msg)(c, msg); err == nil {
			write()
		}
		return err
	}
	sums := func(ctx sdk.Context) (tot, sum map[string]math.Int) {
		tot, sum = map[string]math.Int{}, map[string]math.Int{}
		for _, c := range k.GetParams(ctx).TotalCommitted {
			tot[c.Denom] = c.Amount
		}
		for _, cm := range k.GetAllCommitments(ctx) {
			for _, t := range cm.CommittedTokens {
				if v, ok := sum[t.Denom]; ok {
					sum[t.Denom] = v.Add(t.Amount)
				} else {
					sum[t.Denom] = t.Amount
				}
			}
		}
		return
	}
	get := func(m map[string]math.Int, d string) math.Int {
		if v, ok := m[d]; ok {
			return v
		}
		return math.ZeroInt()
	}
	seen := map[string]bool{}
	for _, edenExtra := range []int64{0, 1e9} {
		for _, bc := range []int64{0, 1000, 1e9} {
			for _, bl := range []int64{0, 10, 1e9} {
				led, _ := base.CacheContext()
				k.AddEdenEdenBOnAccount(led, lp1.Addr, sdk.NewCoins(sdk.NewCoin("ueden", math.NewInt(edenExtra+1)), sdk.NewCoin("uedenb", math.NewInt(bc+bl+1))))
				ok := true
				if edenExtra > 0 {
					ok = ok && deliver(led, &ctypes.MsgCommitClaimedRewards{Creator: lp1.Addr.String(), Denom: "ueden", Amount: math.NewInt(edenExtra)}) == nil
				}
				if bc > 0 {
					ok = ok && deliver(led, &ctypes.MsgCommitClaimedRewards{Creator: lp1.Addr.String(), Denom: "uedenb", Amount: math.NewInt(bc)}) == nil
				}
				if !ok {
					continue
				}
				// the claimed bucket keeps bl+1 (+ what R8 left there): bring it down to exactly bl where asked
				cm := k.GetCommitments(led, lp1.Addr)
				if surplus := cm.GetClaimedForDenom("uedenb").SubRaw(bl); surplus.IsPositive() {
					if _, err := k.DeductClaimed(led, lp1.Addr, "uedenb", surplus); err == nil {
						cm2 := k.GetCommitments(led, lp1.Addr)
						_ = cm2
					}
				}
				cm = k.GetCommitments(led, lp1.Addr)
				edenCommitted := cm.GetCommittedAmountForDenom("ueden")
				ops := []struct {
					name string
					msg  sdk.Msg
					own  string // the denom the message itself uncommits (judged by the W run, known finding 5)
					end  bool   // the burn happens in estaking's end-blocker
				}{
					{"uncommit(ueden,half)", &ctypes.MsgUncommitTokens{Creator: lp1.Addr.String(), Denom: "ueden", Amount: edenCommitted.QuoRaw(2)}, "ueden", false},
					{"uncommit(ueden,all)", &ctypes.MsgUncommitTokens{Creator: lp1.Addr.String(), Denom: "ueden", Amount: edenCommitted}, "ueden", false},
					{"unstake(ueden,half)", &ctypes.MsgUnstake{Creator: lp1.Addr.String(), Asset: "ueden", Amount: edenCommitted.QuoRaw(2), ValidatorAddress: w.ValAddr.String()}, "ueden", false},
					{"unstake(uelys,40%)", &ctypes.MsgUnstake{Creator: lp1.Addr.String(), Asset: "uelys", Amount: I(4e8), ValidatorAddress: w.ValAddr.String()}, "", true},
				}
				for _, op := range ops {
					c := c12kBoostCase{edenExtra, bc, bl, op.name}
					br, _ := led.CacheContext()
					tot0, sum0 := sums(br)
					cm0 := k.GetCommitments(br, lp1.Addr)
					err := deliver(br, op.msg)
					if err != nil {
						continue
					}
					if op.end {
						func() {
							defer func() { recover() }()
							w.App.EstakingKeeper.EndBlocker(br)
						}()
					}
					cases++
					tot1, sum1 := sums(br)
					cm1 := k.GetCommitments(br, lp1.Addr)
					for d := range map[string]bool{"uedenb": true, "ueden": true, "amm/pool/1": true, "stablestake/share": true} {
						if d == op.own {
							continue
						}
						dt, ds := get(tot1, d).Sub(get(tot0, d)), get(sum1, d).Sub(get(sum0, d))
						if !dt.Equal(ds) {
							cl := "total_committed_vs_accounts_on_boost_burn"
							if !seen[cl+d+op.name] {
								seen[cl+d+op.name] = true
								findings = append(findings, foundViolation{Finding: Finding{Clause: cl, Culprit: "boost_burn", Disc: "denom=" + d + ",op=" + op.name, Detail: fmt.Sprintf("%s with committed Eden %s, Eden Boost committed %s / claimed %s: chain-wide committed total of %s moved by %s, the sum over all accounts by %s (account: committed %s -> %s, claimed %s -> %s)", op.name, edenCommitted, cm0.GetCommittedAmountForDenom("uedenb"), cm0.GetClaimedForDenom("uedenb"), d, dt, ds, cm0.GetCommittedAmountForDenom(d), cm1.GetCommittedAmountForDenom(d), cm0.GetClaimedForDenom(d), cm1.GetClaimedForDenom(d))}, Root: "K", Trace: []string{fmt.Sprintf("%+v", c)}})
							}
						}
					}
				}
			}
		}
	}
	return
}
