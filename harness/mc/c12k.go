//go:build verif

package mc

import (
	"fmt"
	"time"

	"cosmossdk.io/math"
	sdk "github.com/cosmos/cosmos-sdk/types"
	ctypes "github.com/elys-network/elys/x/commitment/types"
)

// Engine K part of C12: Commitments.DeductFromCommitted over the full product of lock-up shapes
// (<= 3 lock-ups), times around every expiry, amounts around the withdrawable boundary, and both
// the owner path and the liquidation path, against a reference ledger.

type c12kCase struct {
	Locks [][2]int64 `json:"lockups(amount,unlock)"`
	Free  int64      `json:"unlocked_part"`
	Now   int64      `json:"now"`
	Amt   int64      `json:"amount"`
	Liq   bool       `json:"is_liquidation"`
}

func c12kEval(c c12kCase) (string, string) {
	cm := ctypes.Commitments{Creator: "x"}
	total := c.Free
	if c.Free > 0 {
		cm.AddCommittedTokens("d", math.NewInt(c.Free), 0)
	}
	live := int64(0)
	for _, l := range c.Locks {
		cm.AddCommittedTokens("d", math.NewInt(l[0]), uint64(l[1]))
		total += l[0]
		if l[1] > c.Now {
			live += l[0]
		}
	}
	if total == 0 {
		return "", ""
	}
	err := cm.DeductFromCommitted("d", math.NewInt(c.Amt), uint64(c.Now), c.Liq)
	withdrawable := total - live
	wantOK := c.Amt <= withdrawable
	if c.Liq {
		wantOK = c.Amt <= total
	}
	if wantOK && err != nil {
		return "withdrawable_amount_refused", fmt.Sprintf("committed %d, live lock-ups %d, withdraw %d at t=%d liquidation=%v refused: %v", total, live, c.Amt, c.Now, c.Liq, err)
	}
	if !wantOK && err == nil {
		if c.Amt > total {
			return "uncommit_of_more_than_held_accepted", fmt.Sprintf("committed %d, withdraw %d accepted", total, c.Amt)
		}
		return "locked_amount_withdrawn_by_owner", fmt.Sprintf("committed %d of which %d still locked at t=%d; owner withdrawal of %d accepted (lock-ups %v)", total, live, c.Now, c.Amt, c.Locks)
	}
	if err != nil {
		return "", ""
	}
	// accepted: the ledger after
	got := cm.GetCommittedAmountForDenom("d")
	if !got.Equal(math.NewInt(total - c.Amt)) {
		return "committed_amount_after_withdrawal", fmt.Sprintf("committed %d - %d gives %s", total, c.Amt, got)
	}
	if !c.Liq {
		after := int64(0)
		for _, l := range cm.GetCommittedLockUpsForDenom("d") {
			if int64(l.UnlockTimestamp) > c.Now {
				after += l.Amount.Int64()
			}
		}
		if after != live && total-c.Amt > 0 {
			return "live_lockup_dropped_on_partial_withdrawal", fmt.Sprintf("live lock-ups %d before, %d after an owner withdrawal of %d (lock-ups %v, t=%d)", live, after, c.Amt, c.Locks, c.Now)
		}
		if after > total-c.Amt {
			return "lockups_exceed_committed_after_withdrawal", fmt.Sprintf("live lock-ups %d > committed %d", after, total-c.Amt)
		}
	}
	return "", ""
}

func c12kAll() (cases int64, findings []foundViolation) {
	amts := []int64{1, 5, 10}
	times := []int64{90, 100, 110}
	nows := []int64{89, 90, 91, 99, 100, 101, 109, 110, 111}
	var shapes [][][2]int64
	shapes = append(shapes, nil)
	for _, a1 := range amts {
		for _, t1 := range times {
			shapes = append(shapes, [][2]int64{{a1, t1}})
			for _, a2 := range amts {
				for _, t2 := range times {
					shapes = append(shapes, [][2]int64{{a1, t1}, {a2, t2}})
					for _, a3 := range amts {
						for _, t3 := range times {
							shapes = append(shapes, [][2]int64{{a1, t1}, {a2, t2}, {a3, t3}})
						}
					}
				}
			}
		}
	}
	seen := map[string]bool{}
	for _, sh := range shapes {
		for _, free := range []int64{0, 3} {
			total := free
			for _, l := range sh {
				total += l[0]
			}
			for _, now := range nows {
				live := int64(0)
				for _, l := range sh {
					if l[1] > now {
						live += l[0]
					}
				}
				w := total - live
				for _, amt := range []int64{1, w - 1, w, w + 1, total - 1, total, total + 1} {
					if amt <= 0 {
						continue
					}
					for _, liq := range []bool{false, true} {
						c := c12kCase{sh, free, now, amt, liq}
						cases++
						if cl, det := c12kEval(c); cl != "" && !seen[cl] {
							seen[cl] = true
							findings = append(findings, foundViolation{Finding: Finding{Clause: cl, Culprit: "DeductFromCommitted", Disc: fmt.Sprintf("liquidation=%v", liq), Detail: det}, Root: "K", Trace: []string{fmt.Sprintf("%+v", c)}})
						}
					}
				}
			}
		}
	}
	return
}

// ---------------------------------------------------------------------------------------------
// Keeper-level product: the SAME ledger is built through the REAL Keeper.CommitLiquidTokens (one call
// per lock-up, in list order, any order of unlock times) and withdrawn through the REAL
// Keeper.UncommitTokens, on discarded branches of a real application state. This covers what the
// type-level product above cannot see: anything the keeper does to the record between the calls.

func c12kKeeperAll(maxLocks int) (cases int64, findings []foundViolation) {
	w := NewWorld(FixtureCfg{})
	defer w.Close()
	k := w.App.CommitmentKeeper
	denom := "amm/pool/2"
	who := w.A("q1").Addr
	base, _ := w.Ctx().CacheContext()
	t0 := w.Env.Tm + 5
	base = base.WithBlockHeight(w.Height() + 1).WithBlockTime(time.Unix(t0, 0).UTC())
	// liquid share tokens for the account (minted on the branch only)
	funds := sdk.NewCoins(sdk.NewCoin(denom, math.NewInt(1000)))
	if err := w.App.BankKeeper.MintCoins(base, "amm", funds); err != nil {
		return 0, []foundViolation{{Finding: Finding{Clause: "harness_error", Detail: err.Error()}, Root: "K"}}
	}
	if err := w.App.BankKeeper.SendCoinsFromModuleToAccount(base, "amm", who, funds); err != nil {
		return 0, []foundViolation{{Finding: Finding{Clause: "harness_error", Detail: err.Error()}, Root: "K"}}
	}
	amts := []int64{1, 5, 10}
	times := []int64{90, 100, 110}
	nows := []int64{89, 90, 91, 99, 100, 101, 109, 110, 111}
	var shapes [][][2]int64
	var build func(cur [][2]int64)
	build = func(cur [][2]int64) {
		if len(cur) > 0 {
			shapes = append(shapes, append([][2]int64{}, cur...))
		}
		if len(cur) == maxLocks {
			return
		}
		for _, a := range amts {
			for _, t := range times {
				build(append(cur, [2]int64{a, t}))
			}
		}
	}
	build(nil)
	seen := map[string]bool{}
	report := func(cl, det string, c c12kCase) {
		if cl != "" && !seen[cl] {
			seen[cl] = true
			findings = append(findings, foundViolation{Finding: Finding{Clause: cl, Culprit: "Keeper.CommitLiquidTokens+UncommitTokens", Disc: fmt.Sprintf("liquidation=%v", c.Liq), Detail: det}, Root: "K", Trace: []string{fmt.Sprintf("%+v", c)}})
		}
	}
	for _, sh := range shapes {
		for _, free := range []int64{0, 3} {
			// build the ledger once per (shape, free) on its own branch
			led, _ := base.CacheContext()
			ok := true
			total := free
			if free > 0 {
				if err := k.CommitLiquidTokens(led, who, denom, math.NewInt(free), 0); err != nil {
					ok = false
				}
			}
			for i, l := range sh {
				c := led.WithBlockTime(time.Unix(t0+int64(i), 0).UTC())
				if err := k.CommitLiquidTokens(c, who, denom, math.NewInt(l[0]), uint64(t0+l[1])); err != nil {
					ok = false
				}
				total += l[0]
			}
			if !ok {
				report("commit_refused", fmt.Sprintf("CommitLiquidTokens refused while building %v", sh), c12kCase{Locks: sh, Free: free})
				continue
			}
			cmLed := k.GetCommitments(led, who)
			if got := cmLed.GetCommittedAmountForDenom(denom); !got.Equal(math.NewInt(total)) {
				report("committed_amount_after_commits", fmt.Sprintf("commits %v + %d give %s", sh, free, got), c12kCase{Locks: sh, Free: free})
			}
			for _, now := range nows {
				live := int64(0)
				for _, l := range sh {
					if l[1] > now {
						live += l[0]
					}
				}
				wd := total - live
				for _, amt := range []int64{1, wd - 1, wd, wd + 1, total, total + 1} {
					if amt <= 0 {
						continue
					}
					for _, liq := range []bool{false, true} {
						c := c12kCase{sh, free, now, amt, liq}
						cases++
						br, _ := led.CacheContext()
						br = br.WithBlockTime(time.Unix(t0+now, 0).UTC())
						var err error
						func() {
							defer func() {
								if r := recover(); r != nil {
									err = fmt.Errorf("panic: %v", r)
								}
							}()
							err = k.UncommitTokens(br, who, denom, math.NewInt(amt), liq)
						}()
						wantOK := amt <= wd
						if liq {
							wantOK = amt <= total
						}
						switch {
						case wantOK && err != nil:
							report("withdrawable_amount_refused", fmt.Sprintf("committed %d, live lock-ups %d, withdraw %d at t=%d liquidation=%v refused: %v (lock-ups %v)", total, live, amt, now, liq, err, sh), c)
						case !wantOK && err == nil && amt > total:
							report("uncommit_of_more_than_held_accepted", fmt.Sprintf("committed %d, withdraw %d accepted", total, amt), c)
						case !wantOK && err == nil:
							report("locked_amount_withdrawn_by_owner", fmt.Sprintf("committed %d of which %d still locked at t=%d; owner withdrawal of %d accepted (lock-ups in commit order %v)", total, live, now, amt, sh), c)
						case err == nil:
							cmBr := k.GetCommitments(br, who)
							if got := cmBr.GetCommittedAmountForDenom(denom); !got.Equal(math.NewInt(total - amt)) {
								report("committed_amount_after_withdrawal", fmt.Sprintf("committed %d - %d gives %s", total, amt, got), c)
							}
						}
					}
				}
			}
		}
	}
	return
}
