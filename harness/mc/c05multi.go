//go:build verif

package mc

import (
	"fmt"
	"os"
	"math/big"
	"strings"

	sdkmath "cosmossdk.io/math"
	sdk "github.com/cosmos/cosmos-sdk/types"
	ammtypes "github.com/elys-network/elys/x/amm/types"
)

// Engine G part of C05: constant-product pools of TWO, THREE and FOUR assets as in-memory pool records, driven
// through the real pure methods Pool.JoinPool / Pool.ExitPool (no keeper: MsgCreatePool admits two assets only in
// this version, so a pool of more assets can only come from a genesis file — the join / exit arithmetic is
// nevertheless written for any number of assets and is what would price such a pool).
//
// Full product: asset count x weight vector x reserve scale x (deposit asset, deposit size) [single-asset join] /
// ratio multiple [all-asset join]; each case = join, then exit of EXACTLY the minted shares (all-asset exit).
// Oracle, exact integers: the founder's share count is unchanged by the round trip, so the invariant
// prod B_i^{w_i} of the pool must not be smaller after it than before (what is smaller was extracted from the
// other providers). Tolerance: one base unit per asset plus 2e-8 relative (the power approximation used for
// single-asset joins is specified to 1e-8).

type c05mCase struct {
	Weights []int64
	Scale   int64
	In      int    // index of the deposited asset; -1 = all assets in pool ratio
	Size    string // deposit size: dust, 1pct, half, triple
}

func (c c05mCase) String() string {
	ws := []string{}
	for _, w := range c.Weights {
		ws = append(ws, fmt.Sprint(w))
	}
	in := "all_assets"
	if c.In >= 0 {
		in = fmt.Sprintf("asset%d", c.In)
	}
	return fmt.Sprintf("multiasset:weights=%s,scale=%d,join=%s,size=%s", strings.Join(ws, ":"), c.Scale, in, c.Size)
}

var c05mWeights = [][]int64{{1, 1}, {4, 1}, {1, 1, 1}, {1, 2, 3}, {8, 1, 1}, {1, 1, 1, 1}, {1, 2, 3, 4}}
var c05mScales = []int64{1000, 1000000, 1000000000000}
var c05mSizes = []string{"dust", "1pct", "half", "triple"}
var c05mDenoms = []string{"uaaa", "ubbb", "uccc", "uddd"}

func c05mCases() []c05mCase {
	var out []c05mCase
	for _, ws := range c05mWeights {
		for _, sc := range c05mScales {
			for in := -1; in < len(ws); in++ {
				for _, sz := range c05mSizes {
					out = append(out, c05mCase{Weights: ws, Scale: sc, In: in, Size: sz})
				}
			}
		}
	}
	return out
}

func c05mParse(s string) (c05mCase, bool) {
	for _, c := range c05mCases() {
		if c.String() == s {
			return c, true
		}
	}
	return c05mCase{}, false
}

func c05mPool(c c05mCase) ammtypes.Pool {
	p := ammtypes.Pool{PoolId: 77, Address: "", RebalanceTreasury: "",
		PoolParams:  ammtypes.PoolParams{UseOracle: false, SwapFee: sdkmath.LegacyZeroDec(), FeeDenom: "uusdc"},
		TotalShares: sdk.NewCoin("amm/pool/77", sdkmath.NewIntWithDecimal(1, 20)),
		TotalWeight: sdkmath.ZeroInt()}
	for i, w := range c.Weights {
		// reserves of different sizes per asset (x1, x3, x7, x2), so that no two assets are interchangeable
		mult := []int64{1, 3, 7, 2}[i]
		p.PoolAssets = append(p.PoolAssets, ammtypes.PoolAsset{Token: sdk.NewCoin(c05mDenoms[i], sdkmath.NewInt(c.Scale*mult)), Weight: sdkmath.NewInt(w * 1073741824), ExternalLiquidityRatio: sdkmath.LegacyOneDec()})
		p.TotalWeight = p.TotalWeight.Add(sdkmath.NewInt(w * 1073741824))
	}
	return p
}

func c05mInvariant(p ammtypes.Pool, ws []int64, slack bool) *big.Int {
	prod := big.NewInt(1)
	for i, a := range p.PoolAssets {
		b := new(big.Int).Set(a.Token.Amount.BigInt())
		if slack {
			// B*(1+2e-8) + 1, rounded up
			b.Mul(b, big.NewInt(100000002))
			b.Add(b, big.NewInt(99999999))
			b.Quo(b, big.NewInt(100000000))
			b.Add(b, big.NewInt(1))
		}
		prod.Mul(prod, new(big.Int).Exp(b, big.NewInt(ws[i]), nil))
	}
	return prod
}

// c05mRun returns (judged, finding).
func c05mRun(w *World, ctx sdk.Context, c c05mCase) (judged bool, f *Finding) {
	defer func() {
		if r := recover(); r != nil {
			if os.Getenv("VERIF_DEBUG_C05M") != "" {
				fmt.Fprintln(os.Stderr, "C05M panic", c, r)
			}
			judged, f = false, nil // a panic inside the pure method is an input it does not define; counted as not judged
		}
	}()
	pool := c05mPool(c)
	before := c05mInvariant(pool, c.Weights, false)
	shares0 := pool.TotalShares.Amount
	amt := func(reserve sdkmath.Int) sdkmath.Int {
		switch c.Size {
		case "dust":
			return sdkmath.NewInt(3)
		case "1pct":
			return reserve.QuoRaw(100)
		case "half":
			return reserve.QuoRaw(2)
		}
		return reserve.MulRaw(3)
	}
	var in sdk.Coins
	if c.In >= 0 {
		a := pool.PoolAssets[c.In]
		in = sdk.NewCoins(sdk.NewCoin(a.Token.Denom, amt(a.Token.Amount)))
	} else {
		for _, a := range pool.PoolAssets {
			in = in.Add(sdk.NewCoin(a.Token.Denom, amt(a.Token.Amount)))
		}
	}
	if in.IsZero() || !in.IsAllPositive() {
		return false, nil
	}
	snap := pool
	snap.PoolAssets = append([]ammtypes.PoolAsset{}, pool.PoolAssets...)
	params := ammtypes.DefaultParams()
	_, minted, _, _, err := pool.JoinPool(ctx, &snap, w.App.OracleKeeper, w.App.AccountedPoolKeeper, in, params)
	if err != nil || !minted.IsPositive() {
		if os.Getenv("VERIF_DEBUG_C05M") != "" {
			fmt.Fprintln(os.Stderr, "C05M join refused", c, err, minted)
		}
		return false, nil
	}
	if !pool.TotalShares.Amount.Equal(shares0.Add(minted)) {
		return true, &Finding{Clause: "multiasset_share_book", Culprit: "join", Disc: "assets=" + fmt.Sprint(len(c.Weights)), Detail: fmt.Sprintf("%s: minted %s but TotalShares went %s -> %s", c, minted, shares0, pool.TotalShares.Amount)}
	}
	out, err := pool.ExitPool(ctx, w.App.OracleKeeper, w.App.AccountedPoolKeeper, minted, "", params)
	if err != nil {
		if os.Getenv("VERIF_DEBUG_C05M") != "" {
			fmt.Fprintln(os.Stderr, "C05M exit refused", c, err)
		}
		return false, nil
	}
	after := c05mInvariant(pool, c.Weights, true)
	if after.Cmp(before) < 0 {
		res := []string{}
		for _, a := range pool.PoolAssets {
			res = append(res, a.Token.String())
		}
		return true, &Finding{Clause: "multiasset_join_then_exit_shrank_the_pool_invariant", Culprit: "join_exit", Disc: "assets=" + fmt.Sprint(len(c.Weights)),
			Detail: fmt.Sprintf("%s: deposit %s minted %s shares; exiting exactly those shares paid %s; the founder's %s shares are now backed by %s — the weighted product of the reserves is SMALLER than before the round trip (beyond one unit per asset and 2e-8 relative): value was extracted from the other providers", c, in, minted, out, shares0, strings.Join(res, ","))}
	}
	return true, nil
}

// c05mAll runs the whole product on ctx (any context: the methods are pure for constant-product pools).
func c05mAll(w *World) (judged, notJudged int64, fs []KFinding) {
	ctx := w.Ctx()
	seen := map[string]bool{}
	for _, c := range c05mCases() {
		ok, f := c05mRun(w, ctx, c)
		if !ok {
			notJudged++
			continue
		}
		judged++
		if f != nil && !seen[f.Sig()] {
			seen[f.Sig()] = true
			fs = append(fs, KFinding{Finding: *f, Input: []string{c.String()}, Len: 1})
		}
	}
	return
}
