//go:build verif

package mc

import (
	"encoding/json"
	"fmt"
	"strings"
	"time"

	"cosmossdk.io/math"
	sdk "github.com/cosmos/cosmos-sdk/types"
	ctypes "github.com/elys-network/elys/x/commitment/types"
)

// Engine K for C14: every sequence of vest / advance / claim / cancel / gov-update / vest-now ops
// up to a depth bound is run against the REAL commitment message handlers (through the app's
// message router, each in its own cache layer written only on success — baseapp's contract) on
// CacheContext branches over the fixture's committed store, and the statement's clauses are
// checked after every op against a boring reference (per-entry release tracks).

type c14Cfg struct {
	N      int64 `json:"num_blocks"`
	Max    int64 `json:"num_max_vestings"`
	Factor int64 `json:"vest_now_factor"`
}

type c14Unit struct {
	Cfg   c14Cfg `json:"cfg"`
	First int    `json:"first"`
	Depth int    `json:"depth"`
	Root  int    `json:"root"` // 0 = nothing vested yet; 1 = mid-schedule (vest(1000) then half the schedule elapsed)
}

func c14RootPrefix(u c14Unit) []string {
	if u.Root == 0 {
		return nil
	}
	h := u.Cfg.N / 2
	if h < 1 {
		h = 1
	}
	return []string{"vest(1000)", fmt.Sprintf("advance(%d)", h)}
}

type c14Op struct {
	Name string
	Kind string // vest advance claim cancel gov vestnow
	Who  int    // 0 = owner A, 1 = owner B (interference)
	A    int64  // amount / blocks / selector
}

func c14Ops(cfg c14Cfg) []c14Op {
	n := cfg.N
	ops := []c14Op{}
	for _, a := range []int64{1, 7, 100, 1000} {
		ops = append(ops, c14Op{fmt.Sprintf("vest(%d)", a), "vest", 0, a})
	}
	hs := map[int64]bool{}
	for _, h := range []int64{1, 3, n / 2, n, n + 1} {
		if h > 0 && !hs[h] {
			hs[h] = true
			ops = append(ops, c14Op{fmt.Sprintf("advance(%d)", h), "advance", 0, h})
		}
	}
	ops = append(ops, c14Op{"claim", "claim", 0, 0})
	// cancel selectors: 1 = one unit, 2 = half of unreleased, 3 = all unreleased, 4 = all+1
	for s, nm := range []string{"cancel(1)", "cancel(half)", "cancel(all)", "cancel(all+1)"} {
		ops = append(ops, c14Op{nm, "cancel", 0, int64(s + 1)})
	}
	ops = append(ops, c14Op{"gov(otherN)", "gov", 0, 1}, c14Op{"gov(otherMax)", "gov", 0, 2})
	// vestnow(all): the WHOLE claimable Eden balance (the record may become empty — a cleanup path)
	ops = append(ops, c14Op{"vestnow(7)", "vestnow", 0, 7}, c14Op{"vestnow(1000)", "vestnow", 0, 1000}, c14Op{"vestnow(all)", "vestnow", 0, -1}, c14Op{"B.vestnow(all)", "vestnow", 1, -1})
	ops = append(ops, c14Op{"B.vest(100)", "vest", 1, 100}, c14Op{"B.claim", "claim", 1, 0}, c14Op{"B.cancel(half)", "cancel", 1, 2})
	return ops
}

// track is the reference's memory of one vesting entry (identified by its unique start timestamp).
type c14Track struct {
	Released  math.Int // cumulative released so far (== ClaimedAmount while the entry exists)
	Total     math.Int // current total
	Total0    math.Int // total at creation
	Start     int64
	N         int64
	Cancelled bool // a cancel touched this entry
}

type c14Owner struct {
	tracks   map[int64]*c14Track // by VestStartedTimestamp
	order    []int64             // live entries in list order
	eden     math.Int            // claimable Eden
	elys     math.Int            // uelys wallet
	released math.Int            // Σ released to this owner (all entries, incl. removed)
	burned   math.Int            // Eden destroyed by vest-now
	paidNow  math.Int            // uelys paid by vest-now
}

func (o *c14Owner) clone() *c14Owner {
	n := &c14Owner{tracks: map[int64]*c14Track{}, order: append([]int64{}, o.order...), eden: o.eden, elys: o.elys, released: o.released, burned: o.burned, paidNow: o.paidNow}
	for k, v := range o.tracks {
		c := *v
		n.tracks[k] = &c
	}
	return n
}

type c14State struct {
	owners [2]*c14Owner
	cfg    c14Cfg // vesting info currently in force
	height int64
}

const c14E0 = 5000

type c14Run struct {
	w        *World
	addrs    [2]sdk.AccAddress
	st       *KStats
	keys     map[string]bool
	deadline time.Time
	base     sdk.Context
	h0       int64
	t0       int64
	ops      []c14Op
}

func (r *c14Run) find(f Finding, path []string) {
	for _, x := range r.st.Findings {
		if x.Sig() == f.Sig() && x.Len <= len(path) {
			return
		}
	}
	kept := r.st.Findings[:0]
	for _, x := range r.st.Findings {
		if x.Sig() != f.Sig() {
			kept = append(kept, x)
		}
	}
	r.st.Findings = append(kept, KFinding{Finding: f, Input: append([]string{}, path...), Len: len(path)})
}

// observe reads the real state of owner i.
type c14Obs struct {
	entries []*ctypes.VestingTokens
	eden    math.Int
	elys    math.Int
}

func (r *c14Run) observe(ctx sdk.Context, i int) c14Obs {
	cm := r.w.App.CommitmentKeeper.GetCommitments(ctx, r.addrs[i])
	return c14Obs{entries: cm.VestingTokens, eden: cm.GetClaimedForDenom("ueden"), elys: r.w.App.BankKeeper.GetBalance(ctx, r.addrs[i], "uelys").Amount}
}

// deliver runs msg like baseapp does: ValidateBasic + handler on a cache layer, written on success.
func (r *c14Run) deliver(ctx sdk.Context, msg sdk.Msg) (err error) {
	c, write := ctx.CacheContext()
	defer func() {
		if rec := recover(); rec != nil {
			err = fmt.Errorf("panic: %v", rec)
		}
	}()
	h := r.w.App.MsgServiceRouter().Handler(msg)
	if _, err = h(c, msg); err == nil {
		write()
	}
	return err
}

// fingerprint: what the commitment keeper answers on ctx about configuration and both owners.
func (r *c14Run) fingerprint(ctx sdk.Context) string {
	k := r.w.App.CommitmentKeeper
	var sb strings.Builder
	vi, _ := k.GetVestingInfo(ctx, "ueden")
	if vi != nil {
		fmt.Fprintf(&sb, "vesting_info{N=%d max=%d factor=%s denom=%s}", vi.NumBlocks, vi.NumMaxVestings, vi.VestNowFactor, vi.VestingDenom)
	} else {
		sb.WriteString("vesting_info{nil}")
	}
	p := k.GetParams(ctx)
	fmt.Fprintf(&sb, " enable_vest_now=%v infos=%d", p.EnableVestNow, len(p.VestingInfos))
	for i := range r.addrs {
		o := r.observe(ctx, i)
		fmt.Fprintf(&sb, " owner%d{eden=%s elys=%s entries=%d", i, o.eden, o.elys, len(o.entries))
		for _, e := range o.entries {
			fmt.Fprintf(&sb, " [%s/%s/%d/%d]", e.TotalAmount, e.ClaimedAmount, e.StartBlock, e.NumBlocks)
		}
		sb.WriteString("}")
	}
	return sb.String()
}

func c14Key(st *c14State) string {
	var sb strings.Builder
	fmt.Fprintf(&sb, "h%d|%d/%d/%d", st.height, st.cfg.N, st.cfg.Max, st.cfg.Factor)
	for _, o := range st.owners {
		fmt.Fprintf(&sb, "|e%s/r%s/b%s", o.eden, o.released, o.burned)
		for _, ts := range o.order {
			t := o.tracks[ts]
			fmt.Fprintf(&sb, ";%s,%s,%d,%d,%v", t.Total, t.Released, t.Start, t.N, t.Cancelled)
		}
	}
	return sb.String()
}

func minI64(a, b int64) int64 {
	if a < b {
		return a
	}
	return b
}

func (r *c14Run) dfs(ctx sdk.Context, st *c14State, depth, maxDepth int, path []string, first int) {
	if depth >= maxDepth {
		r.st.Sequences++
		if len(r.st.Samples) < 2 {
			r.st.Samples = append(r.st.Samples, append([]string{fmt.Sprintf("N=%d,max=%d,factor=%d", st.cfg.N, st.cfg.Max, st.cfg.Factor)}, path...))
		}
		return
	}
	if time.Now().After(r.deadline) {
		r.st.Incomplete = true
		return
	}
	// ISOLATION: every child below runs on a branch that is DISCARDED (exactly what happens to a failed
	// transaction, a failed multi-message proposal or a simulation). What the parent state shows through
	// the keepers must be the same before and after each discarded branch — anything else is state kept
	// outside the store.
	fp0 := r.fingerprint(ctx)
	last := -1
	iso := func() {
		if last < 0 || r.st.Polluted {
			return
		}
		r.st.Clauses["discarded_branch_isolation"]++
		if fp := r.fingerprint(ctx); fp != fp0 {
			// the DEEPEST level notices first (it checks right after its own child returns): the culprit is exact
			r.find(Finding{Clause: "discarded_branch_changed_what_the_parent_sees", Culprit: r.ops[last].Kind, Disc: "", Detail: fmt.Sprintf("after exploring and DISCARDING the branch of op %s, the keepers answer differently on the untouched parent state:\nbefore: %s\nafter:  %s", r.ops[last].Name, fp0, fp)}, append([]string{fmt.Sprintf("cfg:%d/%d/%d/root%d", r.cfg0().N, r.cfg0().Max, r.cfg0().Factor, c14root0)}, append(append([]string{}, path...), "discard:"+r.ops[last].Name)...))
			r.st.Polluted = true // memory is tainted from here on: stop the unit, the worker rebuilds its world
			r.st.Incomplete = true
		}
	}
	defer iso()
	for oi, op := range r.ops {
		if depth == 0 && first >= 0 && oi != first {
			continue
		}
		iso()
		if r.st.Polluted {
			return
		}
		last = oi
		np := append(path, op.Name)
		// each op runs at a block time unique to its depth so that entries have unique identities
		c, _ := ctx.CacheContext()
		c = c.WithBlockHeight(st.height).WithBlockTime(time.Unix(r.t0+int64(1000*(depth+1)), 0).UTC())
		ns := &c14State{owners: [2]*c14Owner{st.owners[0].clone(), st.owners[1].clone()}, cfg: st.cfg, height: st.height}
		r.st.Evaluations++
		r.apply(c, ns, op, np)
		c = c.WithBlockHeight(ns.height)
		key := fmt.Sprintf("%s#%d", c14Key(ns), maxDepth-depth-1)
		r.keys[c14Key(ns)] = true
		if r.keys[key] {
			continue
		}
		r.keys[key] = true
		r.dfs(c, ns, depth+1, maxDepth, np, -1)
	}
}

// apply executes op on the real handlers and checks the statement's clauses for this transition.
func (r *c14Run) apply(ctx sdk.Context, st *c14State, op c14Op, path []string) {
	o := st.owners[op.Who]
	other := st.owners[1-op.Who]
	addr := r.addrs[op.Who].String()
	pre := r.observe(ctx, op.Who)
	preOther := r.observe(ctx, 1-op.Who)
	supply0 := r.w.App.BankKeeper.GetSupply(ctx, "uelys").Amount
	bad := func(clause, disc, detail string) {
		r.find(Finding{Clause: clause, Culprit: op.Kind, Disc: disc, Detail: fmt.Sprintf("%s\n(config N=%d max=%d factor=%d, height %d)", detail, st.cfg.N, st.cfg.Max, st.cfg.Factor, st.height)}, append([]string{fmt.Sprintf("cfg:%d/%d/%d/root%d", r.cfg0().N, r.cfg0().Max, r.cfg0().Factor, c14root0)}, path...))
	}
	unreleased := func() math.Int {
		u := math.ZeroInt()
		for _, ts := range o.order {
			t := o.tracks[ts]
			u = u.Add(t.Total.Sub(t.Released))
		}
		return u
	}
	switch op.Kind {
	case "advance":
		st.height += op.A
		return
	case "gov":
		n := st.cfg
		if op.A == 1 {
			if n.N == 10 {
				n.N = 3
			} else {
				n.N = 10
			}
		} else {
			if n.Max == 2 {
				n.Max = 1
			} else {
				n.Max = 2
			}
		}
		err := r.deliver(ctx, &ctypes.MsgUpdateVestingInfo{Authority: r.w.Gov, BaseDenom: "ueden", VestingDenom: "uelys", NumBlocks: n.N, VestNowFactor: n.Factor, NumMaxVestings: n.Max})
		if err == nil {
			st.cfg = n
		}
		r.st.Clauses["gov_update"]++
	case "vest":
		err := r.deliver(ctx, &ctypes.MsgVest{Creator: addr, Denom: "ueden", Amount: I(op.A)})
		post := r.observe(ctx, op.Who)
		expectOK := int64(len(o.order)) < st.cfg.Max && o.eden.GTE(I(op.A))
		r.st.Clauses["vest"]++
		if (err == nil) != expectOK {
			bad("vest_accept_reject", "", fmt.Sprintf("vest(%d) err=%v but reference expects accepted=%v (entries %d, claimable Eden %s)", op.A, err, expectOK, len(o.order), o.eden))
		}
		if err == nil {
			if len(post.entries) != len(pre.entries)+1 {
				bad("vest_entry", "", fmt.Sprintf("vest(%d) accepted but entries %d -> %d", op.A, len(pre.entries), len(post.entries)))
				return
			}
			e := post.entries[len(post.entries)-1]
			ts := e.VestStartedTimestamp
			if !e.TotalAmount.Equal(I(op.A)) || !e.ClaimedAmount.IsZero() || e.StartBlock != st.height || e.NumBlocks != st.cfg.N {
				bad("vest_entry", "", fmt.Sprintf("vest(%d) created entry %+v", op.A, e))
			}
			if !pre.eden.Sub(post.eden).Equal(I(op.A)) {
				bad("vest_takes_exact_eden", "", fmt.Sprintf("vest(%d) changed claimable Eden by %s", op.A, post.eden.Sub(pre.eden)))
			}
			o.tracks[ts] = &c14Track{Released: math.ZeroInt(), Total: I(op.A), Total0: I(op.A), Start: st.height, N: st.cfg.N}
			o.order = append(o.order, ts)
			o.eden = o.eden.Sub(I(op.A))
		}
	case "claim":
		err := r.deliver(ctx, &ctypes.MsgClaimVesting{Sender: addr})
		r.st.Clauses["claim"]++
		if err != nil {
			disc := "error"
			if strings.Contains(err.Error(), "panic") {
				disc = "panic"
			}
			bad("claim_must_succeed", disc, fmt.Sprintf("ClaimVesting failed: %v (entries: %s)", err, fmtEntries(pre.entries)))
			return
		}
		post := r.observe(ctx, op.Who)
		byTs := map[int64]*ctypes.VestingTokens{}
		for _, e := range post.entries {
			byTs[e.VestStartedTimestamp] = e
		}
		totalRel := math.ZeroInt()
		newOrder := []int64{}
		for _, ts := range o.order {
			t := o.tracks[ts]
			el := minI64(st.height-t.Start, t.N)
			var sched math.Int
			if t.N <= 0 {
				sched = t.Total
			} else {
				sched = t.Total.MulRaw(el).QuoRaw(t.N)
			}
			e, live := byTs[ts]
			var now math.Int
			if live {
				now = e.ClaimedAmount
				newOrder = append(newOrder, ts)
			} else {
				now = t.Total // removed ⇒ must have been released in full
			}
			if now.LT(t.Released) {
				bad("released_decreased", "", fmt.Sprintf("entry start=%d total=%s: released %s -> %s", t.Start, t.Total, t.Released, now))
			}
			if now.GT(t.Total) {
				bad("released_exceeds_total", "", fmt.Sprintf("entry start=%d total=%s: released %s", t.Start, t.Total, now))
			}
			if !t.Cancelled {
				r.st.Clauses["claim_follows_schedule"]++
				if !now.Equal(sched) {
					bad("release_off_schedule", "", fmt.Sprintf("entry start=%d n=%d total=%s at height %d: released %s, linear schedule says %s", t.Start, t.N, t.Total, st.height, now, sched))
				}
			}
			if st.height-t.Start >= t.N {
				r.st.Clauses["claim_after_schedule_end"]++
				if live || !now.Equal(t.Total) {
					bad("not_fully_released_after_schedule_end", "", fmt.Sprintf("entry start=%d n=%d total=%s at height %d: released %s, still stored=%v", t.Start, t.N, t.Total, st.height, now, live))
				}
			}
			totalRel = totalRel.Add(now.Sub(t.Released))
			t.Released = now
			if !live {
				delete(o.tracks, ts)
			}
		}
		o.order = newOrder
		if len(post.entries) != len(newOrder) {
			bad("claim_entry_set", "", fmt.Sprintf("claim left %d entries, %d known", len(post.entries), len(newOrder)))
		}
		paid := post.elys.Sub(pre.elys)
		minted := r.w.App.BankKeeper.GetSupply(ctx, "uelys").Amount.Sub(supply0)
		if !paid.Equal(totalRel) || !minted.Equal(totalRel) {
			bad("claim_pays_released", "", fmt.Sprintf("entries released %s in total, owner received %s, uelys supply grew %s", totalRel, paid, minted))
		}
		if !post.eden.Equal(pre.eden) {
			bad("claim_changed_eden", "", fmt.Sprintf("claimable Eden %s -> %s", pre.eden, post.eden))
		}
		o.elys = post.elys
		o.released = o.released.Add(totalRel)
	case "cancel":
		u := unreleased()
		zeroBlockEntries := false
		for _, ts := range o.order {
			if o.tracks[ts].N == 0 {
				zeroBlockEntries = true
			}
		}
		var amt math.Int
		switch op.A {
		case 1:
			amt = I(1)
		case 2:
			amt = u.QuoRaw(2)
		case 3:
			amt = u
		default:
			amt = u.AddRaw(1)
		}
		if !amt.IsPositive() {
			amt = I(1)
		}
		err := r.deliver(ctx, &ctypes.MsgCancelVest{Creator: addr, Denom: "ueden", Amount: amt})
		post := r.observe(ctx, op.Who)
		r.st.Clauses["cancel"]++
		if zeroBlockEntries {
			// the statement does not say whether a zero-block (instantly vested) entry is cancellable:
			// only conservation is judged below
			r.st.Clauses["cancel_with_zero_block_entries_not_judged"]++
		} else if (err == nil) != amt.LTE(u) {
			bad("cancel_accept_reject", "", fmt.Sprintf("cancel(%s) err=%v, unreleased amount is %s", amt, err, u))
		}
		if err != nil {
			if !post.eden.Equal(pre.eden) || fmtEntries(post.entries) != fmtEntries(pre.entries) {
				bad("rejected_cancel_changed_state", "", fmt.Sprintf("cancel(%s) rejected (%v) yet state changed: %s -> %s", amt, err, fmtEntries(pre.entries), fmtEntries(post.entries)))
			}
			return
		}
		if !post.eden.Sub(pre.eden).Equal(amt) {
			bad("cancel_returns_exact_eden", "", fmt.Sprintf("cancel(%s) returned %s claimable Eden", amt, post.eden.Sub(pre.eden)))
		}
		byTs := map[int64]*ctypes.VestingTokens{}
		for _, e := range post.entries {
			byTs[e.VestStartedTimestamp] = e
		}
		removedUnreleased := math.ZeroInt()
		newOrder := []int64{}
		for _, ts := range o.order {
			t := o.tracks[ts]
			e, live := byTs[ts]
			if live {
				if !e.ClaimedAmount.Equal(t.Released) {
					bad("cancel_touched_released_amount", "", fmt.Sprintf("entry start=%d: released %s -> %s by a cancel", t.Start, t.Released, e.ClaimedAmount))
				}
				if e.TotalAmount.GT(t.Total) || e.TotalAmount.LT(e.ClaimedAmount) {
					bad("cancel_total_out_of_range", "", fmt.Sprintf("entry start=%d: total %s -> %s (released %s)", t.Start, t.Total, e.TotalAmount, e.ClaimedAmount))
				}
				removedUnreleased = removedUnreleased.Add(t.Total.Sub(e.TotalAmount))
				if !e.TotalAmount.Equal(t.Total) {
					t.Cancelled = true
				}
				t.Total = e.TotalAmount
				newOrder = append(newOrder, ts)
			} else {
				// dropped by the cancel: everything not yet released was cancelled
				removedUnreleased = removedUnreleased.Add(t.Total.Sub(t.Released))
				delete(o.tracks, ts)
			}
		}
		o.order = newOrder
		if !removedUnreleased.Equal(amt) {
			bad("cancel_removes_exact_unreleased", "", fmt.Sprintf("cancel(%s) removed %s from the unreleased amounts", amt, removedUnreleased))
		}
		o.eden = post.eden
	case "vestnow":
		if op.A == -1 {
			op.A = o.eden.Int64()
			if op.A == 0 {
				return
			}
		}
		err := r.deliver(ctx, &ctypes.MsgVestNow{Creator: addr, Denom: "ueden", Amount: I(op.A)})
		post := r.observe(ctx, op.Who)
		r.st.Clauses["vestnow"]++
		expectOK := o.eden.GTE(I(op.A))
		if (err == nil) != expectOK {
			bad("vestnow_accept_reject", "", fmt.Sprintf("vestnow(%d) err=%v, claimable Eden %s", op.A, err, o.eden))
		}
		if err == nil {
			want := I(op.A).QuoRaw(st.cfg.Factor)
			if !post.elys.Sub(pre.elys).Equal(want) || !pre.eden.Sub(post.eden).Equal(I(op.A)) {
				bad("vestnow_pays_amount_over_factor", "", fmt.Sprintf("vestnow(%d) factor %d paid %s uelys and took %s Eden", op.A, st.cfg.Factor, post.elys.Sub(pre.elys), pre.eden.Sub(post.eden)))
			}
			o.eden = post.eden
			o.elys = post.elys
			o.burned = o.burned.Add(I(op.A))
			o.paidNow = o.paidNow.Add(want)
		}
	}
	// conservation for the acting owner: released + claimable Eden + unreleased + burned == E0
	post := r.observe(ctx, op.Who)
	live := math.ZeroInt()
	for _, e := range post.entries {
		live = live.Add(e.TotalAmount.Sub(e.ClaimedAmount))
	}
	r.st.Clauses["conservation"]++
	if !o.released.Add(post.eden).Add(live).Add(o.burned).Equal(I(c14E0)) {
		bad("eden_conservation", "", fmt.Sprintf("released %s + claimable Eden %s + unreleased %s + burnt by vest-now %s != %d put in", o.released, post.eden, live, o.burned, c14E0))
	}
	if !post.elys.Equal(r.elys0().Add(o.released).Add(o.paidNow)) {
		bad("elys_wallet_vs_released", "", fmt.Sprintf("wallet %s != initial %s + released %s + vest-now %s", post.elys, r.elys0(), o.released, o.paidNow))
	}
	// interference: the other owner's state is untouched
	po := r.observe(ctx, 1-op.Who)
	if !po.eden.Equal(preOther.eden) || !po.elys.Equal(preOther.elys) || fmtEntries(po.entries) != fmtEntries(preOther.entries) {
		bad("other_owner_affected", "", fmt.Sprintf("op by owner %d changed owner %d: %s -> %s", op.Who, 1-op.Who, fmtEntries(preOther.entries), fmtEntries(po.entries)))
	}
	_ = other
}

func fmtEntries(es []*ctypes.VestingTokens) string {
	var sb strings.Builder
	for _, e := range es {
		fmt.Fprintf(&sb, "{total=%s claimed=%s start=%d n=%d}", e.TotalAmount, e.ClaimedAmount, e.StartBlock, e.NumBlocks)
	}
	return sb.String()
}

var c14cfg0 c14Cfg
var c14root0 int

func (r *c14Run) cfg0() c14Cfg { return c14cfg0 }
func (r *c14Run) elys0() math.Int {
	return math.NewInt(1e15)
}

func c14Configs(tier string) []c14Cfg {
	var out []c14Cfg
	ns := []int64{0, 1, 2, 10, 100}
	maxs := []int64{1, 2, 3}
	fs := []int64{1, 3, 90}
	if tier != "thorough" {
		ns = []int64{0, 2, 10}
		maxs = []int64{1, 3}
		fs = []int64{3}
	}
	for _, n := range ns {
		for _, m := range maxs {
			for _, f := range fs {
				out = append(out, c14Cfg{n, m, f})
			}
		}
	}
	return out
}

func c14Depth(tier string) int {
	if tier == "thorough" {
		return 5
	}
	return 4
}

// c14Exec runs one unit (a configuration × a first op) on a fresh fixture.
func c14Worker(tier string) KUnitFunc {
	w := NewWorld(FixtureCfg{})
	return func(raw json.RawMessage, deadline time.Time) *KStats {
		var u c14Unit
		if err := json.Unmarshal(raw, &u); err != nil {
			return &KStats{HarnessErr: err.Error()}
		}
		st := c14RunUnit(w, u, deadline, nil)
		if st.Polluted {
			w.Close()
			w = NewWorld(FixtureCfg{})
		}
		return st
	}
}

func c14RunUnit(w *World, u c14Unit, deadline time.Time, fixedPath []string) *KStats {
	r := &c14Run{w: w, st: &KStats{Clauses: map[string]int64{}}, keys: map[string]bool{}, deadline: deadline}
	r.addrs = [2]sdk.AccAddress{w.A("q0").Addr, w.A("q1").Addr}
	c14cfg0 = u.Cfg
	c14root0 = u.Root
	r.ops = c14Ops(u.Cfg)
	base, _ := w.Ctx().CacheContext()
	r.h0 = w.Height() + 1
	r.t0 = w.Env.Tm + 5
	base = base.WithBlockHeight(r.h0).WithBlockTime(time.Unix(r.t0, 0).UTC())
	// initial state: both owners hold c14E0 claimable Eden; vesting info = the unit's configuration,
	// set through the real gov handler
	for _, a := range r.addrs {
		cm := w.App.CommitmentKeeper.GetCommitments(base, a)
		cm.AddClaimed(sdk.NewCoin("ueden", I(c14E0)))
		w.App.CommitmentKeeper.SetCommitments(base, cm)
	}
	if err := r.deliver(base, &ctypes.MsgUpdateVestingInfo{Authority: w.Gov, BaseDenom: "ueden", VestingDenom: "uelys", NumBlocks: u.Cfg.N, VestNowFactor: u.Cfg.Factor, NumMaxVestings: u.Cfg.Max}); err != nil {
		return &KStats{HarnessErr: "vesting info: " + err.Error()}
	}
	st := &c14State{cfg: u.Cfg, height: r.h0}
	for i := range st.owners {
		st.owners[i] = &c14Owner{tracks: map[int64]*c14Track{}, eden: I(c14E0), elys: math.NewInt(1e15), released: math.ZeroInt(), burned: math.ZeroInt(), paidNow: math.ZeroInt()}
	}
	// non-initial root: a fixed prefix of the same real ops, not counted in the depth
	ctx0 := base
	for d, name := range c14RootPrefix(u) {
		for i := range r.ops {
			if r.ops[i].Name == name {
				c, _ := ctx0.CacheContext()
				c = c.WithBlockHeight(st.height).WithBlockTime(time.Unix(r.t0-int64(1000*(d+1)), 0).UTC())
				r.apply(c, st, r.ops[i], []string{"root:" + name})
				ctx0 = c.WithBlockHeight(st.height)
			}
		}
	}
	base = ctx0
	if fixedPath != nil {
		// replay one path
		ctx := base
		for d, name := range fixedPath {
			discard := strings.HasPrefix(name, "discard:")
			name = strings.TrimPrefix(name, "discard:")
			var op *c14Op
			for i := range r.ops {
				if r.ops[i].Name == name {
					op = &r.ops[i]
				}
			}
			if op == nil {
				return &KStats{HarnessErr: "unknown op " + name}
			}
			if discard {
				// the op on a branch that is thrown away; the parent must read the same before and after
				fp0 := r.fingerprint(ctx)
				dc, _ := ctx.CacheContext()
				dc = dc.WithBlockHeight(st.height).WithBlockTime(time.Unix(r.t0+int64(1000*(d+1)), 0).UTC())
				ds := &c14State{owners: [2]*c14Owner{st.owners[0].clone(), st.owners[1].clone()}, cfg: st.cfg, height: st.height}
				keep := r.st.Findings
				r.apply(dc, ds, *op, fixedPath[:d+1])
				r.st.Findings = keep // findings of the discarded branch itself are not the point here
				if fp := r.fingerprint(ctx); fp != fp0 {
					r.find(Finding{Clause: "discarded_branch_changed_what_the_parent_sees", Culprit: op.Kind, Disc: "", Detail: fmt.Sprintf("before: %s\nafter:  %s", fp0, fp)}, fixedPath[:d+1])
				}
				continue
			}
			c, _ := ctx.CacheContext()
			c = c.WithBlockHeight(st.height).WithBlockTime(time.Unix(r.t0+int64(1000*(d+1)), 0).UTC())
			r.st.Evaluations++
			r.apply(c, st, *op, fixedPath[:d+1])
			ctx = c.WithBlockHeight(st.height)
		}
		return r.st
	}
	r.dfs(base, st, 0, u.Depth, nil, u.First)
	seen := 0
	for k := range r.keys {
		if !strings.Contains(k, "#") {
			seen++
		}
	}
	r.st.NStates = int64(seen)
	return r.st
}

func RunC14(tier string) int {
	cfgs := c14Configs(tier)
	depth := c14Depth(tier)
	var units []interface{}
	for _, c := range cfgs {
		for i := range c14Ops(c) {
			units = append(units, c14Unit{Cfg: c, First: i, Depth: depth, Root: 0}, c14Unit{Cfg: c, First: i, Depth: depth, Root: 1})
		}
	}
	sum := RunSharded("C14", tier, units, deadlineFor(tier))
	// bind to the real pipeline: replay short schedules as real signed txs in real blocks
	sum.Validated += c14ValidateABCI(sum)
	bounds := map[string]interface{}{"configs(num_blocks,max_vestings,vest_now_factor)": cfgs, "depth": depth, "roots": []string{"empty", "mid-schedule: vest(1000), advance(N/2)"}, "ops_per_config": len(c14Ops(cfgs[0])), "owners": 2, "initial_eden_per_owner": c14E0}
	return KConclude("C14", tier, "K: exhaustive op sequences on the real commitment handlers (CacheContext tree)", "all sequences of length <= depth over {vest a, advance h, claim, cancel c, gov update of vesting info, vest-now a, and the same ops by a second owner} for every configuration; state = (height, vesting info, per-owner entries/Eden/released); each op is delivered through the app's message router on its own cache layer (written only on success) and the statement's clauses are evaluated after every op",
		[]string{"amount/height alphabets as listed in bounds", "keeper-level delivery bypasses the ante handler (bound to the ABCI pipeline by the replayed sequences counted in traces_validated_against_impl)"}, sum, bounds,
		func(f KFinding) bool {
			path, ok := toStrings(f.Input)
			if !ok || len(path) == 0 {
				return false
			}
			var c c14Cfg
			root := 0
			fmt.Sscanf(path[0], "cfg:%d/%d/%d/root%d", &c.N, &c.Max, &c.Factor, &root)
			w := NewWorld(FixtureCfg{})
			defer w.Close()
			st := c14RunUnit(w, c14Unit{Cfg: c, Root: root}, time.Now().Add(time.Minute), path[1:])
			for _, x := range st.Findings {
				if x.Sig() == f.Sig() {
					return true
				}
			}
			return false
		})
}

func toStrings(v interface{}) ([]string, bool) {
	switch t := v.(type) {
	case []string:
		return t, true
	case []interface{}:
		out := []string{}
		for _, x := range t {
			s, ok := x.(string)
			if !ok {
				return nil, false
			}
			out = append(out, s)
		}
		return out, true
	}
	return nil, false
}

// c14ValidateABCI replays a few fixed short schedules as real signed transactions in real blocks
// and requires the handlers' verdicts and the resulting vesting entries to equal those of the
// CacheContext run of the same sequence.
func c14ValidateABCI(sum *KSummary) int64 {
	type step struct {
		kind string
		a    int64
	}
	seqs := [][]step{
		{{"vest", 100}, {"advance", 1}, {"claim", 0}, {"advance", 2}, {"claim", 0}},
		{{"vest", 1000}, {"advance", 1}, {"claim", 0}, {"cancel", 400}, {"advance", 1}, {"claim", 0}},
		{{"vest", 7}, {"vest", 100}, {"vest", 1}, {"cancel", 50}, {"advance", 3}, {"claim", 0}},
		{{"vestnow", 1000}, {"vest", 100}, {"cancel", 101}, {"advance", 5}, {"claim", 0}},
	}
	var ok int64
	for si, seq := range seqs {
		// (a) ABCI run: one block per step, vesting info N=3 blocks
		w := NewWorld(FixtureCfg{})
		a := w.A("q0")
		w.MustGov("seed", func(ctx sdk.Context) error {
			cm := w.App.CommitmentKeeper.GetCommitments(ctx, a.Addr)
			cm.AddClaimed(sdk.NewCoin("ueden", I(c14E0)))
			w.App.CommitmentKeeper.SetCommitments(ctx, cm)
			return variantGovVest(w, 3, 2, 3)(ctx)
		})
		w.mustBlock("seed")
		// (b) K run on a second world, same heights
		k := NewWorld(FixtureCfg{})
		kb, _ := k.Ctx().CacheContext()
		cm := k.App.CommitmentKeeper.GetCommitments(kb, a.Addr)
		cm.AddClaimed(sdk.NewCoin("ueden", I(c14E0)))
		k.App.CommitmentKeeper.SetCommitments(kb, cm)
		if err := variantGovVest(k, 3, 2, 3)(kb); err != nil {
			sum.HarnessErrs = append(sum.HarnessErrs, "abci-binding: "+err.Error())
			continue
		}
		kr := &c14Run{w: k}
		kctx := kb
		agree := true
		for _, s := range seq {
			var msg sdk.Msg
			switch s.kind {
			case "vest":
				msg = &ctypes.MsgVest{Creator: a.Addr.String(), Denom: "ueden", Amount: I(s.a)}
			case "claim":
				msg = &ctypes.MsgClaimVesting{Sender: a.Addr.String()}
			case "cancel":
				msg = &ctypes.MsgCancelVest{Creator: a.Addr.String(), Denom: "ueden", Amount: I(s.a)}
			case "vestnow":
				msg = &ctypes.MsgVestNow{Creator: a.Addr.String(), Denom: "ueden", Amount: I(s.a)}
			case "advance":
				for i := int64(0); i < s.a; i++ {
					w.mustBlock("advance")
				}
				continue
			}
			br := w.Exec(&BlockPlan{Dt: 5, Feed: true, Txs: []PlannedTx{{Signer: "q0", Msgs: []sdk.Msg{msg}}}})
			if !br.OK() {
				sum.HarnessErrs = append(sum.HarnessErrs, "abci-binding block failed: "+br.Err)
				agree = false
				break
			}
			abciOK := br.Res.TxResults[1].Code == 0
			kctx = kctx.WithBlockHeight(w.Height()).WithBlockTime(time.Unix(w.Env.Tm, 0).UTC())
			kerr := kr.deliver(kctx, msg)
			if abciOK != (kerr == nil) {
				sum.HarnessErrs = append(sum.HarnessErrs, fmt.Sprintf("abci-binding seq %d: tx verdict %v vs handler verdict %v for %T", si, abciOK, kerr, msg))
				agree = false
				break
			}
			ea := fmtEntries(w.App.CommitmentKeeper.GetCommitments(w.RCtx(), a.Addr).VestingTokens)
			ek := fmtEntries(k.App.CommitmentKeeper.GetCommitments(kctx, a.Addr).VestingTokens)
			if ea != ek {
				sum.HarnessErrs = append(sum.HarnessErrs, fmt.Sprintf("abci-binding seq %d: entries differ: abci %s vs keeper-level %s", si, ea, ek))
				agree = false
				break
			}
		}
		if agree {
			ok++
		}
		w.Close()
		k.Close()
	}
	return ok
}

func variantGovVest(w *World, n, max, factor int64) func(ctx sdk.Context) error {
	return func(ctx sdk.Context) error {
		c, write := ctx.CacheContext()
		h := w.App.MsgServiceRouter().Handler(&ctypes.MsgUpdateVestingInfo{})
		if _, err := h(c, &ctypes.MsgUpdateVestingInfo{Authority: w.Gov, BaseDenom: "ueden", VestingDenom: "uelys", NumBlocks: n, VestNowFactor: factor, NumMaxVestings: max}); err != nil {
			return err
		}
		write()
		return nil
	}
}

func init() {
	OtherEngines["C14"] = RunC14
	KWorkers["C14"] = c14Worker
	OtherReplays["C14"] = func(r *Replay) int {
		path, ok := toStrings(r.Extra["input"])
		if !ok || len(path) == 0 {
			fmt.Println("bad replay input")
			return 2
		}
		var c c14Cfg
		root := 0
		fmt.Sscanf(path[0], "cfg:%d/%d/%d/root%d", &c.N, &c.Max, &c.Factor, &root)
		w := NewWorld(FixtureCfg{})
		defer w.Close()
		st := c14RunUnit(w, c14Unit{Cfg: c, Root: root}, time.Now().Add(time.Minute), path[1:])
		hit := false
		for _, x := range st.Findings {
			fmt.Printf("finding clause=%s disc=%s\n  %s\n", x.Clause, x.Disc, firstLines(x.Detail, 5))
			if x.Sig() == r.Finding.Sig() {
				hit = true
			}
		}
		if hit {
			fmt.Printf("VIOLATION property=C14 replay=(reproduced)\n")
			return 1
		}
		fmt.Println("replay: recorded finding not reproduced on this tree")
		return 0
	}
}
