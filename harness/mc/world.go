//go:build verif

// Package mc is the model-checking harness for the Elys chain. It is compiled INSIDE the
// repository's module through `go build -overlay` (see /verif/check), so it always sees the
// current working tree of /repo.
package mc

import (
	"bytes"
	"crypto/sha256"
	"encoding/hex"
	"encoding/json"
	"fmt"
	"math/rand"
	"os"
	"runtime/debug"
	"sort"
	"time"

	"cosmossdk.io/log"
	"cosmossdk.io/math"
	abci "github.com/cometbft/cometbft/abci/types"
	cmtproto "github.com/cometbft/cometbft/proto/tendermint/types"
	cmttypes "github.com/cometbft/cometbft/types"
	dbm "github.com/cosmos/cosmos-db"
	"github.com/cosmos/cosmos-sdk/client/flags"
	codectypes "github.com/cosmos/cosmos-sdk/codec/types"
	cryptocodec "github.com/cosmos/cosmos-sdk/crypto/codec"
	"github.com/cosmos/cosmos-sdk/crypto/keys/ed25519"
	"github.com/cosmos/cosmos-sdk/crypto/keys/secp256k1"
	cryptotypes "github.com/cosmos/cosmos-sdk/crypto/types"
	"github.com/cosmos/cosmos-sdk/server"
	simtestutil "github.com/cosmos/cosmos-sdk/testutil/sims"
	sdk "github.com/cosmos/cosmos-sdk/types"
	authtypes "github.com/cosmos/cosmos-sdk/x/auth/types"
	banktypes "github.com/cosmos/cosmos-sdk/x/bank/types"
	govtypes "github.com/cosmos/cosmos-sdk/x/gov/types"
	stakingtypes "github.com/cosmos/cosmos-sdk/x/staking/types"
	ibctmtypes "github.com/cosmos/ibc-go/v8/modules/light-clients/07-tendermint"
	consumertypes "github.com/cosmos/interchain-security/v6/x/ccv/consumer/types"
	elysapp "github.com/elys-network/elys/app"
	atypes "github.com/elys-network/elys/x/assetprofile/types"
	ptypes "github.com/elys-network/elys/x/parameter/types"
)

const GenesisTime int64 = 1_700_000_000

// Acct is a keyed account of the fixture (keys derived from fixed secrets).
type Acct struct {
	Name string
	Priv cryptotypes.PrivKey
	Addr sdk.AccAddress
}

func MkAcct(name string) Acct {
	p := secp256k1.GenPrivKeyFromSecret([]byte("verif-" + name))
	return Acct{name, p, sdk.AccAddress(p.PubKey().Address())}
}

var AccountNames = []string{"val", "feeder", "lp1", "lp2", "t1", "t2", "t3", "bot", "own1", "own2", "donor", "q0", "q1", "q2", "q3", "q4", "q5", "q6", "q7", "q8", "q9", "r0", "r1", "r2", "r3", "r4", "r5", "r6", "r7", "r8", "r9"}

// Env is the part of the explored state that lives in the harness (the environment's memory):
// the block time and the prices the feeder keeps re-posting. It is part of every state key.
// VoucherDenom is the fixture's fourth asset: an IBC voucher (WETH, 18 decimals) whose asset-profile entry has a
// base denom different from the denom it circulates under, registered in the oracle under the voucher denom —
// the layout of every IBC asset on the live chain. It is inert unless an op names it.
const VoucherDenom = "ibc/2180E84E20F5679FCC760D8C165B60F42065DEF7F46A72B447CFF1B7DC6C0A65"
const VoucherBase = "aweth"
const VoucherPrice = "2000"

type Env struct {
	Tm     int64  // header time of the last committed block
	Atom   string // price the feeder posts for ATOM
	Elys   string // price the feeder posts for ELYS
	NoFeed int    // 0 = feed; otherwise number of further blocks without a feed
}

// World is one ElysApp over a MemDB driven only through ABCI (+ gov-authority handlers between
// blocks).
type World struct {
	ServeFirst bool // simulate + CheckTx every transaction before the block that carries it (C19)
	App     *elysapp.ElysApp
	DB      *dbm.MemDB
	Env     Env
	Accs    map[string]Acct
	Gov     string
	Home    string
	ValHash []byte
	ValAddr sdk.ValAddress
	// statistics
	Blocks int64
	// LastPanic holds the recovered panic of the last failed block
	LastPanic string
	// BlockTimeout for the watchdog
	BlockTimeout time.Duration
	// Poisoned: the last FinalizeBlock failed; the app object holds dirty un-committed state
	Poisoned bool
}

func newApp(db dbm.DB, home string) *elysapp.ElysApp {
	appOptions := make(simtestutil.AppOptionsMap, 0)
	appOptions[flags.FlagHome] = ""
	appOptions[server.FlagInvCheckPeriod] = 1
	return elysapp.NewElysApp(log.NewNopLogger(), db, nil, true, map[int64]bool{}, home, appOptions)
}

// DeterministicGenesis mirrors app.GenesisStateWithValSet with fixed keys and a fixed time.
func DeterministicGenesis(app *elysapp.ElysApp, accs []Acct) (elysapp.GenesisState, *cmttypes.ValidatorSet, sdk.ValAddress) {
	valPriv := ed25519.GenPrivKeyFromSecret([]byte("verif-validator"))
	tmPub, err := cryptocodec.ToCmtPubKeyInterface(valPriv.PubKey())
	if err != nil {
		panic(err)
	}
	validator := cmttypes.NewValidator(tmPub, 1)
	valSet := cmttypes.NewValidatorSet([]*cmttypes.Validator{validator})

	genesisState := elysapp.NewDefaultGenesisState(app, app.AppCodec())
	genAP := atypes.DefaultGenesis()
	genAP.EntryList = []atypes.Entry{{BaseDenom: ptypes.BaseCurrency, Denom: ptypes.BaseCurrency}}
	genesisState[atypes.ModuleName] = app.AppCodec().MustMarshalJSON(genAP)

	genAccs := []authtypes.GenesisAccount{}
	balances := []banktypes.Balance{}
	totalSupply := sdk.NewCoins()
	for _, a := range accs {
		genAccs = append(genAccs, authtypes.NewBaseAccountWithAddress(a.Addr))
		coins := sdk.NewCoins(sdk.NewInt64Coin("uusdc", 1e15), sdk.NewInt64Coin("uatom", 1e15), sdk.NewInt64Coin("uelys", 1e15), sdk.NewCoin(VoucherDenom, math.NewIntWithDecimal(1, 24)))
		balances = append(balances, banktypes.Balance{Address: a.Addr.String(), Coins: coins})
		totalSupply = totalSupply.Add(coins...)
	}
	authGenesis := authtypes.NewGenesisState(authtypes.DefaultParams(), genAccs)
	genesisState[authtypes.ModuleName] = app.AppCodec().MustMarshalJSON(authGenesis)

	bondAmt := sdk.DefaultPowerReduction
	initValPowers := []abci.ValidatorUpdate{}
	validators := []stakingtypes.Validator{}
	delegations := []stakingtypes.Delegation{}
	for _, val := range valSet.Validators {
		pk, _ := cryptocodec.FromCmtPubKeyInterface(val.PubKey)
		pkAny, _ := codectypes.NewAnyWithValue(pk)
		v := stakingtypes.Validator{
			OperatorAddress:   sdk.ValAddress(val.Address).String(),
			ConsensusPubkey:   pkAny,
			Status:            stakingtypes.Bonded,
			Tokens:            bondAmt,
			DelegatorShares:   math.LegacyOneDec(),
			Description:       stakingtypes.Description{},
			UnbondingTime:     time.Unix(0, 0).UTC(),
			Commission:        stakingtypes.NewCommission(math.LegacyNewDecWithPrec(5, 2), math.LegacyNewDecWithPrec(10, 2), math.LegacyNewDecWithPrec(10, 2)),
			MinSelfDelegation: math.OneInt(),
		}
		validators = append(validators, v)
		delegations = append(delegations, stakingtypes.NewDelegation(genAccs[0].GetAddress().String(), sdk.ValAddress(val.Address).String(), math.LegacyOneDec()))
		pub, _ := val.ToProto()
		initValPowers = append(initValPowers, abci.ValidatorUpdate{Power: val.VotingPower, PubKey: pub.PubKey})
	}
	params := stakingtypes.DefaultParams()
	params.BondDenom = ptypes.Elys
	genesisState[stakingtypes.ModuleName] = app.AppCodec().MustMarshalJSON(stakingtypes.NewGenesisState(params, validators, delegations))
	for range delegations {
		totalSupply = totalSupply.Add(sdk.NewCoin(ptypes.Elys, bondAmt))
	}
	balances = append(balances, banktypes.Balance{
		Address: authtypes.NewModuleAddress(stakingtypes.BondedPoolName).String(),
		Coins:   sdk.Coins{sdk.NewCoin(ptypes.Elys, bondAmt)},
	})
	metas := []banktypes.Metadata{}
	for _, d := range []string{"uatom", "uelys", "uusdc", VoucherDenom} {
		metas = append(metas, banktypes.Metadata{Base: d, Display: d, Name: d, Symbol: d, DenomUnits: []*banktypes.DenomUnit{{Denom: d, Exponent: 0}}})
	}
	bankGenesis := banktypes.NewGenesisState(banktypes.DefaultGenesisState().Params, balances, totalSupply, metas, []banktypes.SendEnabled{})
	genesisState[banktypes.ModuleName] = app.AppCodec().MustMarshalJSON(bankGenesis)

	vals, err := cmttypes.PB2TM.ValidatorUpdates(initValPowers)
	if err != nil {
		panic(err)
	}
	cg := elysapp.CreateMinimalConsumerTestGenesis()
	cg.Provider.InitialValSet = initValPowers
	cg.Provider.ConsensusState.NextValidatorsHash = cmttypes.NewValidatorSet(vals).Hash()
	cg.Provider.ConsensusState.Timestamp = time.Unix(GenesisTime, 0).UTC() // upstream uses time.Now()
	cg.Params.Enabled = true
	_ = ibctmtypes.ConsensusState{}
	genesisState[consumertypes.ModuleName] = app.AppCodec().MustMarshalJSON(cg)
	return genesisState, valSet, sdk.ValAddress(validator.Address)
}

// NewBareWorld builds the app, runs InitChain and block 1. No DeFi fixture yet.
func NewBareWorld() *World {
	home, err := os.MkdirTemp(WorkDir(), "home")
	if err != nil {
		panic(err)
	}
	db := dbm.NewMemDB()
	w := &World{DB: db, Home: home, Accs: map[string]Acct{}, BlockTimeout: 30 * time.Second}
	w.App = newApp(db, home)
	accs := []Acct{}
	for _, n := range AccountNames {
		a := MkAcct(n)
		w.Accs[n] = a
		accs = append(accs, a)
	}
	w.Gov = authtypes.NewModuleAddress(govtypes.ModuleName).String()
	gs, valSet, valAddr := DeterministicGenesis(w.App, accs)
	w.ValAddr = valAddr
	w.ValHash = valSet.Hash()
	stateBytes, err := json.Marshal(gs)
	if err != nil {
		panic(err)
	}
	w.Env = Env{Tm: GenesisTime, Atom: "5", Elys: "3"}
	if _, err = w.App.InitChain(&abci.RequestInitChain{ConsensusParams: simtestutil.DefaultConsensusParams, AppStateBytes: stateBytes, Time: time.Unix(w.Env.Tm, 0).UTC()}); err != nil {
		panic(err)
	}
	if _, err = w.App.FinalizeBlock(&abci.RequestFinalizeBlock{Height: 1, Time: time.Unix(w.Env.Tm, 0).UTC(), NextValidatorsHash: w.ValHash}); err != nil {
		panic(err)
	}
	if _, err = w.App.Commit(); err != nil {
		panic(err)
	}
	return w
}

func (w *World) Close() {
	if w.Home != "" {
		os.RemoveAll(w.Home)
	}
}

// WorkDir is the scratch directory of the harness (never /tmp).
func WorkDir() string {
	d := os.Getenv("VERIF_WORK")
	if d == "" {
		d = "/verif/.work"
	}
	os.MkdirAll(d, 0o755)
	return d
}

func (w *World) Height() int64 { return w.App.LastBlockHeight() }

// Ctx is an uncached context over the committed state at the last block's header.
func (w *World) Ctx() sdk.Context {
	return w.App.NewUncachedContext(false, cmtproto.Header{Height: w.App.LastBlockHeight(), Time: time.Unix(w.Env.Tm, 0).UTC()})
}

// RCtx is a read-only (cache-wrapped, never written) context over the committed state.
func (w *World) RCtx() sdk.Context {
	c, _ := w.Ctx().CacheContext()
	return c
}

// CtxAt is a discardable context at an arbitrary header over the committed state.
func (w *World) CtxAt(height, tm int64) sdk.Context {
	c := w.App.NewUncachedContext(false, cmtproto.Header{Height: height, Time: time.Unix(tm, 0).UTC()})
	cc, _ := c.CacheContext()
	return cc
}

func (w *World) A(name string) Acct {
	a, ok := w.Accs[name]
	if !ok {
		panic("unknown account " + name)
	}
	return a
}

// Tx signs msgs with a's key using the committed account number / sequence (+seqOff for a second
// tx of the same signer in one block).
func (w *World) Tx(a Acct, fee sdk.Coins, seqOff uint64, msgs ...sdk.Msg) []byte {
	ctx := w.RCtx()
	acc := w.App.AccountKeeper.GetAccount(ctx, a.Addr)
	if acc == nil {
		panic("no account " + a.Name)
	}
	txc := w.App.TxConfig()
	tx, err := simtestutil.GenSignedMockTx(rand.New(rand.NewSource(1)), txc, msgs, fee, 50_000_000, "", []uint64{acc.GetAccountNumber()}, []uint64{acc.GetSequence() + seqOff}, a.Priv)
	if err != nil {
		panic(err)
	}
	bz, err := txc.TxEncoder()(tx)
	if err != nil {
		panic(err)
	}
	return bz
}

// BlockResult is what the harness observes of one block.
type BlockResult struct {
	Res     *abci.ResponseFinalizeBlock
	Err     string // FinalizeBlock / Commit error or panic or timeout ("" = ok)
	Hash    string
	Height  int64
	Elapsed time.Duration
}

func (b *BlockResult) OK() bool { return b.Err == "" }

func (b *BlockResult) Codes() []uint32 {
	if b.Res == nil {
		return nil
	}
	out := make([]uint32, len(b.Res.TxResults))
	for i, r := range b.Res.TxResults {
		out[i] = r.Code
	}
	return out
}

// RunBlock executes FinalizeBlock+Commit for the next height at time tm under a watchdog and
// recovers panics. On failure the world is Poisoned (use Restart).
func (w *World) RunBlock(tm int64, txs [][]byte) *BlockResult {
	if w.Poisoned {
		panic("RunBlock on poisoned world")
	}
	h := w.App.LastBlockHeight() + 1
	if w.ServeFirst {
		// what every RPC-serving node does with a transaction before it is ever in a block: simulate it (gas
		// estimate) and admit it to the mempool. Neither may change what the node computes afterwards.
		for _, tx := range txs {
			func() {
				defer func() { recover() }()
				_, _, _ = w.App.Simulate(tx)
				_, _ = w.App.CheckTx(&abci.RequestCheckTx{Tx: tx, Type: abci.CheckTxType_New})
			}()
		}
	}
	type out struct {
		res *abci.ResponseFinalizeBlock
		err string
	}
	ch := make(chan out, 1)
	t0 := time.Now()
	go func() {
		var o out
		defer func() {
			if r := recover(); r != nil {
				o.err = fmt.Sprintf("panic: %v\n%s", r, trimStack(debug.Stack()))
			}
			ch <- o
		}()
		res, err := w.App.FinalizeBlock(&abci.RequestFinalizeBlock{Height: h, Time: time.Unix(tm, 0).UTC(), Txs: txs})
		if err != nil {
			o.err = "FinalizeBlock error: " + err.Error()
			return
		}
		o.res = res
		if _, err = w.App.Commit(); err != nil {
			o.err = "Commit error: " + err.Error()
		}
	}()
	var o out
	select {
	case o = <-ch:
	case <-time.After(w.BlockTimeout):
		o.err = fmt.Sprintf("timeout: block did not finish within %s", w.BlockTimeout)
	}
	w.Blocks++
	br := &BlockResult{Res: o.res, Err: o.err, Height: h, Elapsed: time.Since(t0)}
	if o.err != "" {
		w.Poisoned = true
		w.LastPanic = o.err
		return br
	}
	w.Env.Tm = tm
	br.Hash = hex.EncodeToString(w.App.LastCommitID().Hash)
	return br
}

func trimStack(b []byte) string {
	lines := bytes.Split(b, []byte("\n"))
	keep := [][]byte{}
	for i, l := range lines {
		if bytes.Contains(l, []byte("elys-network/elys")) && !bytes.Contains(l, []byte("zz_verif")) {
			fn := l
			if j := bytes.LastIndex(fn, []byte("(")); j > 0 {
				fn = fn[:j]
			}
			loc := []byte{}
			if i+1 < len(lines) {
				loc = bytes.TrimSpace(lines[i+1])
				if j := bytes.Index(loc, []byte(" +0x")); j > 0 {
					loc = loc[:j]
				}
			}
			keep = append(keep, append(append(bytes.TrimSpace(fn), []byte(" @ ")...), loc...))
		}
		if len(keep) >= 10 {
			break
		}
	}
	return string(bytes.Join(keep, []byte("\n")))
}

// FinalizeOnly runs FinalizeBlock for the next height WITHOUT Commit (a crash point: the node dies
// after executing the block but before committing it). The world is left Poisoned on purpose.
func (w *World) FinalizeOnly(tm int64, txs [][]byte) (res *abci.ResponseFinalizeBlock, err error) {
	defer func() {
		if r := recover(); r != nil {
			err = fmt.Errorf("panic: %v", r)
		}
		w.Poisoned = true
	}()
	h := w.App.LastBlockHeight() + 1
	return w.App.FinalizeBlock(&abci.RequestFinalizeBlock{Height: h, Time: time.Unix(tm, 0).UTC(), Txs: txs})
}

// Rollback returns the instance to committed version v with environment env.
func (w *World) Rollback(v int64, env Env) {
	if w.Poisoned {
		w.Restart()
	}
	if w.App.LastBlockHeight() != v {
		if err := w.App.CommitMultiStore().RollbackToVersion(v); err != nil {
			panic(fmt.Sprintf("rollback to %d: %v", v, err))
		}
	}
	w.Env = env
}

// Restart drops the app object and constructs a new one over the same database (loadLatest).
func (w *World) Restart() {
	w.App = newApp(w.DB, w.Home)
	w.Poisoned = false
}

// CloneDB copies the database (committed state) into a fresh MemDB.
func CloneDB(src *dbm.MemDB) *dbm.MemDB {
	dst := dbm.NewMemDB()
	it, err := src.Iterator(nil, nil)
	if err != nil {
		panic(err)
	}
	defer it.Close()
	for ; it.Valid(); it.Next() {
		k := append([]byte{}, it.Key()...)
		v := append([]byte{}, it.Value()...)
		if err := dst.Set(k, v); err != nil {
			panic(err)
		}
	}
	return dst
}

// Fork builds an independent world over a copy of the committed database (a "restart on another
// machine"): new ElysApp, loadLatest.
func (w *World) Fork() *World {
	home, err := os.MkdirTemp(WorkDir(), "home")
	if err != nil {
		panic(err)
	}
	db := CloneDB(w.DB)
	n := &World{DB: db, Home: home, Accs: w.Accs, Gov: w.Gov, ValHash: w.ValHash, ValAddr: w.ValAddr, Env: w.Env, BlockTimeout: w.BlockTimeout}
	n.App = newApp(db, home)
	return n
}

// GovDo applies fn on a cache of the committed state and writes it only on success — the state
// change of a passed proposal placed at a block boundary. The write lands in the next Commit.
func (w *World) GovDo(fn func(ctx sdk.Context) error) error {
	c, write := w.Ctx().CacheContext()
	if err := fn(c); err != nil {
		return err
	}
	write()
	return nil
}

func (w *World) MustGov(what string, fn func(ctx sdk.Context) error) {
	if err := w.GovDo(fn); err != nil {
		panic("fixture gov step " + what + ": " + err.Error())
	}
}

// StateKey identifies an explored state: Merkle root of all committed stores + height + env.
func (w *World) StateKey() string {
	h := sha256.New()
	h.Write(w.App.LastCommitID().Hash)
	fmt.Fprintf(h, "|%d|%d|%s|%s|%d", w.App.LastBlockHeight(), w.Env.Tm, w.Env.Atom, w.Env.Elys, w.Env.NoFeed)
	return hex.EncodeToString(h.Sum(nil)[:12])
}

// StoreDigest hashes the full content of every persistent store visible through ctx (used by the
// "state unchanged" oracles); skip lists store names to leave out.
func (w *World) StoreDigest(ctx sdk.Context, skip map[string]bool) map[string]string {
	out := map[string]string{}
	keys := w.App.GetKVStoreKey()
	names := make([]string, 0, len(keys))
	for n := range keys {
		names = append(names, n)
	}
	sort.Strings(names)
	for _, n := range names {
		if skip[n] {
			continue
		}
		st := ctx.KVStore(keys[n])
		it := st.Iterator(nil, nil)
		h := sha256.New()
		for ; it.Valid(); it.Next() {
			k, v := it.Key(), it.Value()
			fmt.Fprintf(h, "%d:", len(k))
			h.Write(k)
			fmt.Fprintf(h, "%d:", len(v))
			h.Write(v)
		}
		it.Close()
		out[n] = hex.EncodeToString(h.Sum(nil)[:10])
	}
	return out
}
