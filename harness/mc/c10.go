//go:build verif

package mc

import (
	"fmt"
	oracletypes "github.com/elys-network/elys/x/oracle/types"
	"time"

	"cosmossdk.io/math"
	sdk "github.com/cosmos/cosmos-sdk/types"
	ammtypes "github.com/elys-network/elys/x/amm/types"
	llptypes "github.com/elys-network/elys/x/leveragelp/types"
	perptypes "github.com/elys-network/elys/x/perpetual/types"
)

// C10 (Engine W, transition oracle): a position changes without its owner's signature only if it
// was unhealthy or a trigger price was reached; successful opens leave it healthy.

const c10Band = "0.002" // health within SF*(1±band) is "band, not judged" (begin-block rate updates of the same block move health by less)

func addC10Ops(l *OpLib) {
	l.Add("llp_open_t1_x3_stoploss", "llp_open", 0, func(w *World, p *BlockPlan) {
		// stop-loss 3 % below the current LP token price
		pool, _ := w.App.AmmKeeper.GetPool(w.RCtx(), 1)
		lp, err := pool.LpTokenPrice(w.RCtx(), w.App.OracleKeeper, w.App.AccountedPoolKeeper)
		sl := "0"
		if err == nil {
			sl = lp.Mul(Dec("0.97")).String()
		}
		p.Txs = one("t1", llpOpen(w.A("t1"), "3", 1e9, sl))
	})
	// a LARGE position (~15 % of the pool's shares) with a tight stop-loss and a small one with a loose
	// stop-loss: when the large one is force-closed, the pool's share count and TVL change a lot within
	// ONE ClosePositions message before the small one is judged
	llpSL := func(name, who, lev string, amt int64, frac string) {
		l.Add(name, "llp_open", 0, func(w *World, p *BlockPlan) {
			pool, _ := w.App.AmmKeeper.GetPool(w.RCtx(), 1)
			lp, err := pool.LpTokenPrice(w.RCtx(), w.App.OracleKeeper, w.App.AccountedPoolKeeper)
			sl := "0"
			if err == nil {
				sl = lp.Mul(Dec(frac)).String()
			}
			p.Txs = one(who, llpOpen(w.A(who), lev, amt, sl))
		})
	}
	llpSL("llp_open_t2_x5_big_sl3", "t2", "5", 3e11, "0.97")
	llpSL("llp_open_t3_x3_sl15", "t3", "3", 1e9, "0.85")
	// consolidating re-opens at leverage EXACTLY 1 (they borrow nothing) with a collateral too small to
	// matter — alone, and in the block that first feeds a lower price (the position is unhealthy when the
	// owner's message runs, before any sweep has seen it)
	for _, pr := range []string{"", "2", "1"} {
		pr := pr
		name := "llp_topup_lev1_t1"
		cost := 0
		if pr != "" {
			name, cost = name+"_at_"+pr, 1
		}
		l.Add(name, "llp_open", cost, func(w *World, p *BlockPlan) {
			if pr != "" {
				p.SetAtom = pr
			}
			p.Txs = one("t1", llpOpen(w.A("t1"), "1", 1000000, "0"))
		})
	}
	l.Add("perp_open_long_t1_stoploss", "perp_open", 0, func(w *World, p *BlockPlan) {
		m := perpOpen(w.A("t1"), perptypes.Position_LONG, "2", C("uusdc", 1e9), mulDecStr(w.Env.Atom, "1.6")).(*perptypes.MsgOpen)
		m.StopLossPrice = Dec(mulDecStr(w.Env.Atom, "0.9"))
		p.Txs = one("t1", m)
	})
	l.Add("perp_open_long_t3_max", "perp_open", 0, func(w *World, p *BlockPlan) {
		p.Txs = one("t3", perpOpen(w.A("t3"), perptypes.Position_LONG, "25", C("uusdc", 1e9), mulDecStr(w.Env.Atom, "1.5")))
	})
	perpReqs := func(w *World) []perptypes.PositionRequest {
		reqs := []perptypes.PositionRequest{}
		for _, m := range w.App.PerpetualKeeper.GetAllMTPs(w.RCtx()) {
			reqs = append(reqs, perptypes.PositionRequest{Address: m.Address, Id: m.Id})
		}
		return append(reqs, perptypes.PositionRequest{Address: w.A("t3").Addr.String(), Id: 999})
	}
	for _, list := range []string{"liquidate", "stoploss", "takeprofit"} {
		list := list
		l.Add("perp_bot_"+list+"_all", "perp_bot", 0, func(w *World, p *BlockPlan) {
			m := &perptypes.MsgClosePositions{Creator: w.A("bot").Addr.String()}
			switch list {
			case "liquidate":
				m.Liquidate = perpReqs(w)
			case "stoploss":
				m.StopLoss = perpReqs(w)
			default:
				m.TakeProfit = perpReqs(w)
			}
			p.Txs = one("bot", m)
		})
	}
	l.Add("perp_other_trader_closes_all_twice", "perp_bot", 0, func(w *World, p *BlockPlan) {
		// the OTHER trader (t2) names everybody's positions in all lists, twice in one block, and also
		// pairs t1's ids with its own address (foreign owner/id combination)
		reqs := perpReqs(w)
		for _, m := range w.MTPsOf("t1") {
			reqs = append(reqs, perptypes.PositionRequest{Address: w.A("t2").Addr.String(), Id: m.Id})
		}
		a := w.A("t2").Addr.String()
		p.Txs = []PlannedTx{{Signer: "t2", Msgs: []sdk.Msg{&perptypes.MsgClosePositions{Creator: a, Liquidate: reqs, StopLoss: reqs, TakeProfit: reqs}}}, {Signer: "t2", Msgs: []sdk.Msg{&perptypes.MsgClosePositions{Creator: a, TakeProfit: reqs, Liquidate: reqs}}}}
	})
	l.Add("llp_other_trader_closes_all", "llp_bot", 0, func(w *World, p *BlockPlan) {
		liq, sl := []*llptypes.PositionRequest{}, []*llptypes.PositionRequest{}
		for i, m := range w.App.LeveragelpKeeper.GetAllPositions(w.RCtx()) {
			r := &llptypes.PositionRequest{Address: m.Address, Id: m.Id}
			if i%2 == 0 {
				liq = append(liq, r)
			} else {
				sl = append(sl, r)
			}
		}
		liq = append(liq, &llptypes.PositionRequest{Address: w.A("t2").Addr.String(), Id: 998})
		p.Txs = one("t2", &llptypes.MsgClosePositions{Creator: w.A("t2").Addr.String(), Liquidate: liq, StopLoss: sl})
	})
}

type c10Pos struct {
	key     string // "llp:<id>" / "perp:<id>"
	owner   string
	health  math.LegacyDec
	healthE string
	// modelHealth: set only when the module's estimator failed (oracle-price model, see c10Snapshot)
	modelHealth math.LegacyDec
	modelLong   bool
	stop        bool
	tp          bool
	desc        string
	// principal fields
	a, b, c math.Int
	paid    math.Int // perp: interest + funding already settled out of custody (paid − received)
}

type c10Snap struct {
	pos     map[string]*c10Pos
	wallets map[string]sdk.Coins
	sfLlp   math.LegacyDec
	sfPerp  math.LegacyDec
}

// c10Snapshot evaluates every stored position on a cache of the committed state at header (h, tm).
func c10Snapshot(w *World, h, tm int64, withHealth bool, atom ...string) *c10Snap {
	ctx := w.CtxAt(h, tm)
	if len(atom) > 0 && atom[0] != "" {
		// the block about to run feeds a new ATOM price BEFORE its third-party tx: judge closability at
		// the price that tx will see (on a discarded branch)
		ctx, _ = ctx.CacheContext()
		w.App.OracleKeeper.SetPrice(ctx, oracletypes.Price{Asset: "ATOM", Price: Dec(atom[0]), Source: "elys", Provider: "verif", Timestamp: uint64(tm), BlockHeight: uint64(h)})
	}
	s := &c10Snap{pos: map[string]*c10Pos{}, wallets: map[string]sdk.Coins{}}
	s.sfLlp = w.App.LeveragelpKeeper.GetParams(ctx).SafetyFactor
	s.sfPerp = w.App.PerpetualKeeper.GetSafetyFactor(ctx)
	borrowed := map[string]math.Int{}
	for _, d := range w.App.StablestakeKeeper.GetAllDebts(ctx) {
		borrowed[d.Address] = d.Borrowed
	}
	for _, p := range w.App.LeveragelpKeeper.GetAllPositions(ctx) {
		p := p
		// debt principal = the vault's Borrowed record of the position address (Position.Liabilities is
		// re-hydrated with accrued interest whenever positions are listed)
		principal, ok := borrowed[p.GetPositionAddress().String()]
		if !ok {
			principal = math.ZeroInt()
		}
		cp := &c10Pos{key: fmt.Sprintf("llp:%d", p.Id), owner: p.Address, a: p.LeveragedLpAmount, b: p.Collateral.Amount, c: principal, paid: math.ZeroInt(), desc: fmt.Sprintf("leveraged-LP position %d (lp %s, collateral %s, liabilities %s, stop %s)", p.Id, p.LeveragedLpAmount, p.Collateral, p.Liabilities, p.StopLossPrice)}
		if withHealth {
			func() {
				defer func() {
					if r := recover(); r != nil {
						cp.healthE = fmt.Sprint(r)
					}
				}()
				c, _ := ctx.CacheContext()
				hh, err := w.App.LeveragelpKeeper.GetPositionHealth(c, p)
				if err != nil {
					cp.healthE = err.Error()
					return
				}
				cp.health = hh
				pool, ok := w.App.AmmKeeper.GetPool(c, p.AmmPoolId)
				if ok && !p.StopLossPrice.IsNil() && p.StopLossPrice.IsPositive() {
					if lp, err := pool.LpTokenPrice(c, w.App.OracleKeeper, w.App.AccountedPoolKeeper); err == nil {
						cp.stop = lp.LTE(p.StopLossPrice)
					}
				}
			}()
		}
		s.pos[cp.key] = cp
		s.wallets[p.Address] = nil
	}
	for _, m := range w.App.PerpetualKeeper.GetAllMTPs(ctx) {
		m := m
		cp := &c10Pos{key: fmt.Sprintf("perp:%d", m.Id), owner: m.Address, a: m.Custody, b: m.Collateral, c: m.Liabilities,
			paid: m.BorrowInterestPaidCustody.Add(m.FundingFeePaidCustody).Sub(m.FundingFeeReceivedCustody),
			desc: fmt.Sprintf("perpetual %s position %d (custody %s%s, liabilities %s%s, collateral %s, stop %s, take-profit %s)", m.Position, m.Id, m.Custody, m.CustodyAsset, m.Liabilities, m.LiabilitiesAsset, m.Collateral, m.StopLossPrice, m.TakeProfitPrice)}
		if withHealth {
			func() {
				defer func() {
					if r := recover(); r != nil {
						cp.healthE = fmt.Sprint(r)
					}
				}()
				c, _ := ctx.CacheContext()
				k := w.App.PerpetualKeeper
				pool, found := k.GetPool(c, m.AmmPoolId)
				ammPool, err := k.GetAmmPool(c, m.AmmPoolId)
				if !found || err != nil {
					cp.healthE = "pool not found"
					return
				}
				mm := m
				k.UpdateMTPBorrowInterestUnpaidLiability(c, &mm)
				if _, err := k.SettleMTPBorrowInterestUnpaidLiability(c, &mm, &pool, ammPool); err != nil {
					cp.healthE = err.Error()
					return
				}
				if err := k.SettleFunding(c, &mm, &pool, ammPool); err != nil {
					cp.healthE = err.Error()
					return
				}
				price, perr := k.GetAssetPrice(c, m.TradingAsset)
				hh, err := k.GetMTPHealth(c, mm, ammPool, "uusdc")
				if err != nil {
					cp.healthE = err.Error()
					// the module's estimator cannot value the position (e.g. the pool is too thin for a swap estimate of
					// its size). Independent model at the ORACLE price: long = custody x price / debt, short = custody /
					// (debt x price). The estimator prices the same quantities through the pool (slippage makes a long
					// look better and a short worse), so the model is trusted only far from the factor (see Post).
					debt := mm.Liabilities.Add(mm.BorrowInterestUnpaidLiability)
					if perr == nil && price.IsPositive() && debt.IsPositive() && mm.Custody.IsPositive() {
						if m.Position == perptypes.Position_LONG {
							cp.modelHealth = mm.Custody.ToLegacyDec().Mul(price).Quo(debt.ToLegacyDec())
						} else {
							cp.modelHealth = mm.Custody.ToLegacyDec().Quo(debt.ToLegacyDec().Mul(price))
						}
						cp.modelLong = m.Position == perptypes.Position_LONG
					}
				} else {
					cp.health = hh
				}
				err = perr
				if err == nil {
					if m.Position == perptypes.Position_LONG {
						cp.stop = !m.StopLossPrice.IsNil() && m.StopLossPrice.IsPositive() && price.LTE(m.StopLossPrice)
						cp.tp = !m.TakeProfitPrice.IsNil() && price.GTE(m.TakeProfitPrice)
					} else {
						cp.stop = !m.StopLossPrice.IsNil() && m.StopLossPrice.IsPositive() && price.GTE(m.StopLossPrice)
						cp.tp = !m.TakeProfitPrice.IsNil() && price.LTE(m.TakeProfitPrice)
					}
				}
			}()
		}
		s.pos[cp.key] = cp
		s.wallets[m.Address] = nil
	}
	for a := range s.wallets {
		s.wallets[a] = w.App.BankKeeper.GetAllBalances(ctx, sdk.MustAccAddressFromBech32(a))
	}
	return s
}

func OracleC10() *Oracle {
	band := Dec(c10Band)
	return &Oracle{Name: "C10",
		Pre: func(w *World, op *Op, plan *BlockPlan) interface{} {
			dt := plan.Dt
			if dt == 0 {
				dt = 5
			}
			snap := c10Snapshot(w, w.Height()+1, w.Env.Tm+dt, true)
			if plan.SetAtom != "" && len(plan.Txs) > 0 {
				// a block that feeds a new price AND carries txs: its begin-block sweep still sees the OLD price, its
				// third-party txs the NEW one — a position may be force-closed if it is closable at either
				at := c10Snapshot(w, w.Height()+1, w.Env.Tm+dt, true, plan.SetAtom)
				for k, p := range snap.pos {
					q, ok := at.pos[k]
					if !ok {
						continue
					}
					if q.healthE != "" {
						// closable at either price: the model health of the pair is the lower one; no model at one of the
						// two prices means no model at all
						switch {
						case q.modelHealth.IsNil():
							p.modelHealth = math.LegacyDec{}
						case p.healthE == "":
							p.modelHealth, p.modelLong = math.LegacyMinDec(p.health, q.modelHealth), q.modelLong
						case !p.modelHealth.IsNil():
							p.modelHealth = math.LegacyMinDec(p.modelHealth, q.modelHealth)
						}
						p.healthE = q.healthE
					} else if p.healthE != "" {
						if !p.modelHealth.IsNil() {
							p.modelHealth = math.LegacyMinDec(p.modelHealth, q.health)
						}
					} else if p.healthE == "" && q.health.LT(p.health) {
						p.health = q.health
					}
					p.stop = p.stop || q.stop
					p.tp = p.tp || q.tp
				}
			}
			return snap
		},
		Post: func(t *Transition) []Finding {
			w := t.W
			pre := t.Pre.(*c10Snap)
			post := c10Snapshot(w, w.Height(), w.Env.Tm, true)
			var out []Finding
			bad := func(clause, disc, detail string) {
				out = append(out, Finding{Clause: clause, Disc: disc, Detail: detail})
			}
			// who signed successfully in this block, and which opens succeeded
			signed := map[string]bool{}
			openedBy := map[string]string{} // owner address -> module of a successful open
			for i, pt := range t.Plan.Txs {
				if t.Res.Res.TxResults[t.Plan.TxIndex[i]].Code != 0 {
					continue
				}
				addr := w.A(pt.Signer).Addr.String()
				signed[addr] = true
				for _, m := range pt.Msgs {
					switch m.(type) {
					case *llptypes.MsgOpen:
						openedBy[addr+"/llp"] = "llp"
					case *perptypes.MsgOpen:
						openedBy[addr+"/perp"] = "perp"
					}
				}
			}
			priceMoved := t.Plan.SetAtom != "" || t.Plan.SetElys != ""
			for k, p := range pre.pos {
				mod := "perp"
				sf := pre.sfPerp
				if k[:3] == "llp" {
					mod, sf = "llp", pre.sfLlp
				}
				q, still := post.pos[k]
				altered := !still
				what := "closed"
				if still {
					sizeNet := q.a.Add(q.paid.Sub(p.paid)) // custody with this block's settled interest/funding added back
					if mod == "llp" {
						sizeNet = q.a
					}
					if !sizeNet.Equal(p.a) || !q.b.Equal(p.b) || !q.c.Equal(p.c) {
						altered = true
						what = fmt.Sprintf("changed (size %s->%s [net of settlement %s], collateral %s->%s, principal %s->%s)", p.a, q.a, sizeNet, p.b, q.b, p.c, q.c)
					}
				}
				ownerActed := signed[p.owner]
				if !altered {
					// owner's funds untouched as well (unless the owner acted or holds another altered position)
					if !ownerActed && !post.wallets[p.owner].Equal(pre.wallets[p.owner]) {
						otherAltered := false
						for k2, p2 := range pre.pos {
							if k2 != k && p2.owner == p.owner {
								if q2, ok := post.pos[k2]; !ok || !q2.a.Equal(p2.a) {
									otherAltered = true
								}
							}
						}
						if !otherAltered {
							bad("owner_funds_changed_without_owner", "module="+mod, fmt.Sprintf("%s untouched, owner did not sign, yet the owner's wallet went %s -> %s", p.desc, pre.wallets[p.owner], post.wallets[p.owner]))
						}
					}
					Clauses.Inc("position_untouched")
					continue
				}
				if ownerActed {
					Clauses.Inc("altered_by_owner")
					continue
				}
				Clauses.Inc("altered_without_owner")
				if p.healthE != "" {
					// estimator failed: judged only when the oracle-price model puts the position FAR above the
					// factor (long: 5 %, short: 25 % — the estimator values a short's debt through the pool, with
					// slippage against it) and no trigger price is reached
					margin := "1.05"
					if !p.modelLong {
						margin = "1.25"
					}
					if mod == "perp" && !p.modelHealth.IsNil() && p.modelHealth.GT(sf.Mul(Dec(margin))) && !p.stop && !p.tp {
						Clauses.Inc("forced_close_judged_by_oracle_price_model")
						bad("healthy_position_altered_by_third_party", "module="+mod+",health=oracle_price_model", fmt.Sprintf("%s: the module's health estimate fails (%s); at the oracle price its health is %s against a safety factor %s, no trigger price reached; yet without its owner's signature it was %s", p.desc, firstLines(p.healthE, 1), p.modelHealth, sf, what))
						continue
					}
					Clauses.Inc("health_not_computable_not_judged")
					continue
				}
				if priceMoved && mod == "perp" {
					// the block's own feed changed the price before any third-party tx could run; the alphabet
					// keeps third-party requests out of such blocks, so nothing of perpetual can be altered here
				}
				lo, hi := sf.Mul(math.LegacyOneDec().Sub(band)), sf.Mul(math.LegacyOneDec().Add(band))
				switch {
				case p.health.LTE(lo):
					Clauses.Inc("forced_close_of_unhealthy")
				case p.stop:
					Clauses.Inc("forced_close_at_stop_loss")
				case p.tp && mod == "perp":
					Clauses.Inc("forced_close_at_take_profit")
				case p.health.LT(hi):
					Clauses.Inc("band_not_judged")
				default:
					bad("healthy_position_altered_by_third_party", "module="+mod, fmt.Sprintf("%s was %s in a block its owner did not sign; health %s > safety factor %s, stop-loss reached=%v, take-profit reached=%v (op %s)", p.desc, what, p.health, sf, p.stop, p.tp, t.Op.Name))
				}
			}
			// successful opens / consolidations leave the position healthy
			for k, q := range post.pos {
				mod := "perp"
				sf := post.sfPerp
				if k[:3] == "llp" {
					mod, sf = "llp", post.sfLlp
				}
				if openedBy[q.owner+"/"+mod] == "" {
					continue
				}
				p, existed := pre.pos[k]
				if existed && p.a.Equal(q.a) && p.c.Equal(q.c) {
					continue // not the position this open touched
				}
				Clauses.Inc("open_checked")
				if q.healthE != "" {
					continue
				}
				if q.health.LTE(sf) {
					bad("open_left_position_unhealthy", "module="+mod, fmt.Sprintf("after a successful open/consolidation %s has health %s <= safety factor %s", q.desc, q.health, sf))
				}
			}
			return out
		},
	}
}

var _ = time.Second
var _ = ammtypes.ModuleName
