//go:build verif

package mc

import (
	"fmt"
	sdk "github.com/cosmos/cosmos-sdk/types"
	"os"
	"strings"
	"time"
)

// Run dispatches a property check to its engine.
func Run(prop, tier string) int {
	if tier != "quick" && tier != "thorough" {
		fmt.Fprintln(os.Stderr, "tier must be quick or thorough")
		return 2
	}
	if cfg := WConfig(prop, tier); cfg != nil {
		variants := cfg.Variants
		if len(variants) == 0 {
			variants = []string{""}
		}
		var sum *Summary
		for i, v := range variants {
			vc := WConfig(prop, tier)
			vc.Fixture.Variant = v
			if i > 0 && vc.VariantPhases != nil {
				vc.Phases = vc.VariantPhases
			}
			// split the wall-clock budget: the default variant gets half, the others share the rest
			if len(variants) > 1 {
				if i == 0 {
					vc.Deadline = cfg.Deadline / 2
				} else {
					vc.Deadline = cfg.Deadline / 2 / time.Duration(len(variants)-1)
				}
			}
			one := RunMaster(vc, []string{"worker", prop, tier, v})
			if os.Getenv("VERIF_LINEAR") == "" {
				for _, he := range one.HarnessErrs {
					if strings.HasPrefix(he, "explorer validation: linear run of") && strings.Contains(he, "gives app hash") {
						// the rollback shortcut is unsound on THIS tree: the application keeps state outside the
						// committed store (or is nondeterministic). Explore again without the shortcut.
						fmt.Println("NOTE: rollback exploration disagreed with linear re-execution (" + he + "); the application keeps state outside the committed store — exploring again WITHOUT the rollback shortcut (every node rebuilt by restart at the root + re-execution)")
						os.Setenv("VERIF_LINEAR", "1")
						vc2 := WConfig(prop, tier)
						vc2.Fixture.Variant = v
						vc2.Deadline = 3 * vc.Deadline // the fallback is several times slower per node; it only ever runs on a tree that broke the shortcut
						vc2.Assumptions = append(vc2.Assumptions, "LINEAR FALLBACK: no store-rollback shortcut (it disagreed with linear re-execution on this tree); no state merging")
						one = RunMaster(vc2, []string{"worker", prop, tier, v})
						cfg.Assumptions = vc2.Assumptions
						break
					}
				}
			}
			sum = MergeSummaries(sum, one)
		}
		if prop == "C10" {
			n, fs := c10kAll()
			sum.Clauses["boundary_cases(engine K: factor/trigger at health/price +-1e-18)"] = n
			sum.Clauses["boundary_cases_that_really_closed"] = c10kClosures
			sum.Clauses["boundary_cases_that_really_opened"] = c10kOpens
			sum.Violations = append(sum.Violations, fs...)
		}
		if prop == "C18" {
			n, fs := c18kAllocationAll()
			sum.Clauses["reward_allocation_cases(engine K: community tax x Eden / Eden Boost weight ratios x fee size)"] = n
			sum.Violations = append(sum.Violations, fs...)
		}
		if prop == "C12" {
			n, fs := c12kAll()
			sum.Clauses["deduct_from_committed_cases(engine K product)"] = n
			sum.Violations = append(sum.Violations, fs...)
			ml := 2
			if tier == "thorough" {
				ml = 3
			}
			n3, fs3 := c12kBoostAll()
			sum.Clauses["eden_boost_burn_cases(engine K product through the real messages on root R8)"] = n3
			sum.Violations = append(sum.Violations, fs3...)
			n2, fs2 := c12kKeeperAll(ml)
			sum.Clauses["commit_then_uncommit_cases(engine K product through the real keeper)"] = n2
			sum.Violations = append(sum.Violations, fs2...)
		}
		if genesisRTProps[prop] && os.Getenv("VERIF_ONLY_PHASE") == "" {
			b := cfg.Deadline / 3
			gs, gv := genesisRTAll(prop, tier, b)
			sum.Clauses["genesis_round_trips(state exported, fresh application started from the export, 2 more blocks)"] = gs.Clauses["genesis_round_trips"]
			if n := gs.Clauses["long_history_chains"]; n > 0 {
				sum.Clauses["long_history_chains(root R20: a thousand blocks old; fixed linear traces, every block judged)"] = n
			}
			if n := gs.Clauses["state_not_importable"]; n > 0 {
				sum.Clauses["genesis_round_trips_where_the_export_could_not_be_imported(not judged)"] = n
			}
			sum.Transitions += gs.Evaluations
			sum.Violations = append(sum.Violations, gv...)
			sum.HarnessErrs = append(sum.HarnessErrs, gs.HarnessErrs...)
			if !gs.Exhaustive {
				sum.Exhaustive = false
			}
		}
		return Conclude(cfg, sum)
	}
	if f, ok := OtherEngines[prop]; ok {
		return f(tier)
	}
	fmt.Fprintln(os.Stderr, "unknown property", prop)
	return 2
}

// OtherEngines holds the non-W checks (K, G, R, D engines), registered by their files.
var OtherEngines = map[string]func(tier string) int{}

// OtherReplays replays artefacts of non-W engines.
var OtherReplays = map[string]func(r *Replay) int{}

// RunReplay re-executes a replay artefact linearly, without the explorer.
func RunReplay(r *Replay) int {
	if r.Engine != "W" && r.Engine != "" {
		if f, ok := OtherReplays[r.Property]; ok {
			return f(r)
		}
		fmt.Fprintln(os.Stderr, "no replayer for engine", r.Engine)
		return 2
	}
	cfg := WConfig(r.Property, "quick")
	if cfg == nil {
		fmt.Fprintln(os.Stderr, "unknown property", r.Property)
		return 2
	}
	cfg.Fixture.Variant = r.Variant
	fs, err := ReplayLinear(cfg, r.Root, r.Ops)
	if err != nil {
		fmt.Fprintln(os.Stderr, "replay error:", err)
		return 2
	}
	hit := false
	for _, f := range fs {
		fmt.Printf("finding clause=%s culprit=%s disc=%s\n  %s\n", f.Clause, f.Culprit, f.Disc, firstLines(f.Detail, 6))
		if f.Sig() == r.Finding.Sig() {
			hit = true
		}
	}
	if hit {
		fmt.Printf("VIOLATION property=%s replay=(reproduced)\n", r.Property)
		return 1
	}
	fmt.Println("replay: recorded finding not reproduced on this tree")
	return 0
}

// RunTrace executes root+ops linearly and prints tx results (debug aid).
func RunTrace(prop, root string, ops []string) int {
	cfg := WConfig(prop, "quick")
	if cfg == nil {
		cfg = &Config{Property: prop}
	}
	lib := NewOpLib()
	w := NewWorld(cfg.Fixture)
	defer w.Close()
	BuildRoot(w, root, lib)
	for _, n := range ops {
		op := lib.Get(n)
		plan := w.PlanOp(op)
		pres := make([]interface{}, len(cfg.Oracles))
		for i, o := range cfg.Oracles {
			if o.Pre != nil {
				pres[i] = o.Pre(w, op, plan)
			}
		}
		br := w.Exec(plan)
		if br.OK() {
			for i, o := range cfg.Oracles {
				if o.Post != nil {
					for _, f := range o.Post(&Transition{W: w, Op: op, Plan: plan, Res: br, Pre: pres[i], Path: ops}) {
						fmt.Printf("   FINDING %s %s: %s\n", f.Clause, f.Disc, f.Detail)
					}
				}
			}
		}
		fmt.Printf("== %s: height=%d ok=%v %s\n", n, br.Height, br.OK(), br.Err)
		if br.Res != nil {
			for i, r := range br.Res.TxResults {
				log := r.Log
				if len(log) > 3000 {
					log = log[:3000]
				}
				fmt.Printf("   tx%d code=%d gas=%d %s\n", i, r.Code, r.GasUsed, log)
			}
		}
		if et := os.Getenv("VERIF_DUMP_EVENTS"); et != "" && br.OK() {
			for _, e := range br.Res.Events {
				if e.Type == et {
					fmt.Printf("   block event %s\n", e.String())
				}
			}
			for i, r := range br.Res.TxResults {
				for _, e := range r.Events {
					if e.Type == et {
						fmt.Printf("   tx%d event %s\n", i, e.String())
					}
				}
			}
		}
		if os.Getenv("VERIF_DUMP_MTP") != "" && br.OK() {
			for _, m := range w.App.PerpetualKeeper.GetAllMTPs(w.RCtx()) {
				fmt.Printf("   mtp %s#%d %s coll=%s liab=%s custody=%s intPaid=%s intUnpaid=%s fundPaid=%s fundRecv=%s health=%s\n", m.Address[len(m.Address)-6:], m.Id, m.Position, m.Collateral, m.Liabilities, m.Custody, m.BorrowInterestPaidCustody, m.BorrowInterestUnpaidLiability, m.FundingFeePaidCustody, m.FundingFeeReceivedCustody, m.MtpHealth)
			}
		}
		if os.Getenv("VERIF_DUMP_TVL") != "" && br.OK() {
			ctx := w.RCtx()
			for _, pi := range w.App.MasterchefKeeper.GetAllPoolInfos(ctx) {
				fmt.Printf("   pool %d tvl=%s ext_denoms=%v atomPrice=%s usdcPrice=%s\n", pi.PoolId, w.App.MasterchefKeeper.GetPoolTVL(ctx, pi.PoolId), pi.ExternalRewardDenoms, w.App.OracleKeeper.GetAssetPriceFromDenom(ctx, "uatom"), w.App.OracleKeeper.GetAssetPriceFromDenom(ctx, "uusdc"))
			}
		}
		if os.Getenv("VERIF_DUMP_POOL1") != "" && br.OK() {
			ctx := w.RCtx()
			pid := uint64(1)
			fmt.Sscanf(os.Getenv("VERIF_DUMP_POOL1"), "%d", &pid)
			pool, _ := w.App.AmmKeeper.GetPool(ctx, pid)
			tr := sdk.MustAccAddressFromBech32(pool.RebalanceTreasury)
			fmt.Printf("   pool1 assets=%v treasury=%s threshold=%s distance=%s\n", pool.PoolAssets, w.App.BankKeeper.GetAllBalances(ctx, tr), w.App.AmmKeeper.GetParams(ctx).ThresholdWeightDifference, pool.WeightDistanceFromTarget(ctx, w.App.OracleKeeper, pool.PoolAssets))
		}
		if who := os.Getenv("VERIF_DUMP_COMMIT"); who != "" && br.OK() {
			ctx := w.RCtx()
			cm := w.App.CommitmentKeeper.GetCommitments(ctx, w.A(who).Addr)
			fmt.Printf("   commitments %s: committed=%v claimed=%v vesting=%d total=%v\n", who, cm.CommittedTokens, cm.Claimed, len(cm.VestingTokens), w.App.CommitmentKeeper.GetParams(ctx).TotalCommitted)
		}
		if os.Getenv("VERIF_DUMP_LLP") != "" && br.OK() {
			ctx := w.RCtx()
			pool, _ := w.App.AmmKeeper.GetPool(ctx, 1)
			lp, _ := pool.LpTokenPrice(ctx, w.App.OracleKeeper, w.App.AccountedPoolKeeper)
			fmt.Printf("   lp price=%s total shares=%s\n", lp, pool.TotalShares.Amount)
			for _, ps := range w.App.LeveragelpKeeper.GetAllPositions(ctx) {
				fmt.Printf("   llp %s#%d lpAmount=%s coll=%s liab=%s stop=%s health=%s\n", ps.Address[len(ps.Address)-6:], ps.Id, ps.LeveragedLpAmount, ps.Collateral, ps.Liabilities, ps.StopLossPrice, ps.PositionHealth)
			}
		}
		if os.Getenv("VERIF_DUMP_C13") != "" && br.OK() {
			ctx := w.RCtx()
			for d, tot := range pendingRewards(w, ctx) {
				fmt.Printf("   pending %s = %s ; masterchef balance %s\n", d, tot, w.App.BankKeeper.GetBalance(ctx, modAddr("masterchef"), d).Amount)
			}
			for _, pri := range w.App.MasterchefKeeper.GetAllPoolRewardInfos(ctx) {
				fmt.Printf("   pool %d %s acc=%s\n", pri.PoolId, pri.RewardDenom, pri.PoolAccRewardPerShare)
			}
			sp := w.App.StablestakeKeeper.GetParams(ctx)
			fmt.Printf("   vault TV=%s rate=%s\n", sp.TotalValue, w.App.StablestakeKeeper.GetRedemptionRate(ctx))
		}
		if who := os.Getenv("VERIF_DUMP_COMMIT"); who != "" && br.OK() {
			cm := w.App.CommitmentKeeper.GetCommitments(w.RCtx(), w.A(who).Addr)
			fmt.Printf("   %s committed=%v claimed=%v vesting=%v\n   total=%v\n", who, cm.CommittedTokens, cm.Claimed, cm.VestingTokens, w.App.CommitmentKeeper.GetParams(w.RCtx()).TotalCommitted)
		}
		for _, o := range cfg.Oracles {
			if o.State != nil {
				for k, v := range o.State(w) {
					if nz(v) {
						fmt.Printf("   drift %s = %s\n", k, v)
					}
				}
			}
		}
	}
	return 0
}
