//go:build verif

package mc

import (
	"fmt"
	"os"
)

// Run dispatches a property check to its engine.
func Run(prop, tier string) int {
	if tier != "quick" && tier != "thorough" {
		fmt.Fprintln(os.Stderr, "tier must be quick or thorough")
		return 2
	}
	if cfg := WConfig(prop, tier); cfg != nil {
		sum := RunMaster(cfg, []string{"worker", prop, tier})
		return Conclude(cfg, sum)
	}
	if f, ok := OtherEngines[prop]; ok {
		return f(tier)
	}
	fmt.Fprintln(os.Stderr, "unknown property", prop)
	return 2
}

// OtherEngines holds the non-W checks (K, G, R, D engines), registered by their files.
var OtherEngines = map[string]func(tier string) int{}

// OtherReplays replays artefacts of non-W engines.
var OtherReplays = map[string]func(r *Replay) int{}

// RunReplay re-executes a replay artefact linearly, without the explorer.
func RunReplay(r *Replay) int {
	if r.Engine != "W" && r.Engine != "" {
		if f, ok := OtherReplays[r.Property]; ok {
			return f(r)
		}
		fmt.Fprintln(os.Stderr, "no replayer for engine", r.Engine)
		return 2
	}
	cfg := WConfig(r.Property, "quick")
	if cfg == nil {
		fmt.Fprintln(os.Stderr, "unknown property", r.Property)
		return 2
	}
	cfg.Fixture.Variant = r.Variant
	fs, err := ReplayLinear(cfg, r.Root, r.Ops)
	if err != nil {
		fmt.Fprintln(os.Stderr, "replay error:", err)
		return 2
	}
	hit := false
	for _, f := range fs {
		fmt.Printf("finding clause=%s culprit=%s disc=%s\n  %s\n", f.Clause, f.Culprit, f.Disc, firstLines(f.Detail, 6))
		if f.Sig() == r.Finding.Sig() {
			hit = true
		}
	}
	if hit {
		fmt.Printf("VIOLATION property=%s replay=(reproduced)\n", r.Property)
		return 1
	}
	fmt.Println("replay: recorded finding not reproduced on this tree")
	return 0
}

// RunTrace executes root+ops linearly and prints tx results (debug aid).
func RunTrace(prop, root string, ops []string) int {
	cfg := WConfig(prop, "quick")
	if cfg == nil {
		cfg = &Config{Property: prop}
	}
	lib := NewOpLib()
	w := NewWorld(cfg.Fixture)
	defer w.Close()
	BuildRoot(w, root, lib)
	for _, n := range ops {
		op := lib.Get(n)
		plan := w.PlanOp(op)
		br := w.Exec(plan)
		fmt.Printf("== %s: height=%d ok=%v %s\n", n, br.Height, br.OK(), br.Err)
		if br.Res != nil {
			for i, r := range br.Res.TxResults {
				log := r.Log
				if len(log) > 300 {
					log = log[:300]
				}
				fmt.Printf("   tx%d code=%d gas=%d %s\n", i, r.Code, r.GasUsed, log)
			}
		}
		for _, o := range cfg.Oracles {
			if o.State != nil {
				for k, v := range o.State(w) {
					if nz(v) {
						fmt.Printf("   drift %s = %s\n", k, v)
					}
				}
			}
		}
	}
	return 0
}
