//go:build verif

package mc

import (
	"encoding/json"
	"fmt"
	"math/big"
	"os"
	"strings"
	"time"

	sdkmath "cosmossdk.io/math"
	sdk "github.com/cosmos/cosmos-sdk/types"
	ammtypes "github.com/elys-network/elys/x/amm/types"
	llpkeeper "github.com/elys-network/elys/x/leveragelp/keeper"
	llptypes "github.com/elys-network/elys/x/leveragelp/types"
)

// Engine K for C05: every sequence of joins / exits (all forms) / interleaved swaps up to a depth
// bound through the REAL MsgJoinPool / MsgExitPool handlers (router) and the real keeper swap on
// real pools of several compositions and scales; exact rational value-per-share reference.

type c05PoolSpec struct {
	Name   string
	Oracle bool
	D2     string
	A2, AU int64 // reserves of D2 and uusdc
	W2, WU int64
	Skew   bool // oracle pool pushed off its target weights before the exploration
	Lev    bool // enabled for leveraged LP / perpetuals through the gov handler: an ACCOUNTED pool exists and prices joins/exits
}

var c05Specs = []c05PoolSpec{
	{"cpmm_1to1_1e3", false, "uatom", 1000, 5000, 1, 1, false, false},
	{"cpmm_1to1_1e6", false, "uatom", 1000000, 5000000, 1, 1, false, false},
	{"cpmm_1to1_1e12", false, "uatom", 1000000000000, 5000000000000, 1, 1, false, false},
	{"cpmm_80to20_1e3", false, "uatom", 4000, 5000, 80, 20, false, false},
	{"cpmm_80to20_1e6", false, "uatom", 4000000, 5000000, 80, 20, false, false},
	{"cpmm_80to20_1e12", false, "uatom", 4000000000000, 5000000000000, 80, 20, false, false},
	{"oracle_5050_1e3", true, "uatom", 1000, 5000, 1, 1, false, false},
	{"oracle_5050_1e6", true, "uatom", 1000000, 5000000, 1, 1, false, false},
	{"oracle_5050_1e12", true, "uatom", 1000000000000, 5000000000000, 1, 1, false, false},
	{"oracle_offtarget_1e6", true, "uatom", 1000000, 5000000, 1, 1, true, false},
	{"oracle_offtarget_1e12", true, "uatom", 1000000000000, 5000000000000, 1, 1, true, false},
	{"oracle_lev_5050_1e6", true, "uatom", 1000000, 5000000, 1, 1, false, true},
	{"oracle_lev_5050_1e12", true, "uatom", 1000000000000, 5000000000000, 1, 1, false, true},
	{"oracle_lev_offtarget_1e12", true, "uatom", 1000000000000, 5000000000000, 1, 1, true, true},
	// created FAR off the 50:50 target (10 % ATOM by value): beyond the weight-difference threshold,
	// where rebalancing operations earn a bonus and weight-breaking ones pay a fee
	{"oracle_faroff_1e6", true, "uatom", 200000, 9000000, 1, 1, false, false},
	{"oracle_faroff_1e12", true, "uatom", 200000000000, 9000000000000, 1, 1, false, false},
	{"oracle_lev_faroff_1e12", true, "uatom", 200000000000, 9000000000000, 1, 1, false, true},
}

type c05Unit struct {
	Pool  int `json:"pool"`
	First int `json:"first"`
	Depth int `json:"depth"`
}

type c05Op struct {
	Name string
	Kind string // join_all join_single exit_all exit_single swap other_exit_all
	Arg  string
	Idx  int
}

func c05Ops(spec c05PoolSpec) []c05Op {
	ops := []c05Op{}
	if spec.Oracle {
		for _, a := range []string{"in_ratio_1pct", "out_of_ratio", "3x_pool"} {
			ops = append(ops, c05Op{Name: "join_all(" + a + ")", Kind: "join_all", Arg: a})
		}
	} else {
		for _, a := range []string{"1", "1e6", "1e18", "half_supply", "3x_supply"} {
			ops = append(ops, c05Op{Name: "join_all(shares=" + a + ")", Kind: "join_all", Arg: a})
		}
	}
	for i := 0; i < 2; i++ {
		for _, a := range []string{"dust1", "10pct"} {
			ops = append(ops, c05Op{Name: fmt.Sprintf("join_single(asset%d,%s)", i, a), Kind: "join_single", Arg: a, Idx: i})
		}
		// the same deposit ASKING for far more shares than it is worth (the whole current supply)
		ops = append(ops, c05Op{Name: fmt.Sprintf("join_single(asset%d,dust1,asking_whole_supply)", i), Kind: "join_single", Arg: "dust1+ask", Idx: i})
	}
	// coin LISTS that the message's stateless validation admits although they are not a valid coin set
	// (validation looks at each coin alone): one denom twice, the pair in reverse order, a triple
	for _, a := range []string{"asset0_twice", "asset1_twice", "reversed_pair", "pair_plus_asset0", "asset0_x_then_2x", "asset0_2x_then_x", "asset1_x_then_2x", "asset1_2x_then_x"} {
		ops = append(ops, c05Op{Name: "join_list(" + a + ")", Kind: "join_list", Arg: a})
	}
	for _, a := range []string{"1", "1e6", "1e18", "half_mine", "all_mine", "all_mine+1"} {
		ops = append(ops, c05Op{Name: "exit_all_assets(" + a + ")", Kind: "exit_all", Arg: a})
	}
	if spec.Oracle {
		for i := 0; i < 2; i++ {
			for _, a := range []string{"1e18", "half_mine", "all_mine", "largest_accepted"} {
				ops = append(ops, c05Op{Name: fmt.Sprintf("exit_single(asset%d,%s)", i, a), Kind: "exit_single", Arg: a, Idx: i})
			}
		}
	}
	ops = append(ops, c05Op{Name: "swap_small_by_other", Kind: "swap", Arg: "small"}, c05Op{Name: "swap_large_by_other", Kind: "swap", Arg: "large"})
	// the opposite direction (input denom sorts AFTER the output denom)
	ops = append(ops, c05Op{Name: "swap_small_rev_by_other", Kind: "swap", Arg: "small", Idx: 1}, c05Op{Name: "swap_large_rev_by_other", Kind: "swap", Arg: "large", Idx: 1})
	ops = append(ops, c05Op{Name: "founder_exits_all_pool_shares", Kind: "other_exit_all"})
	// the price feeder's routine message that refreshes the pool's external-liquidity ratios: it rewrites the
	// pool record, so it must leave reserves and shares exactly as they are — wherever it lands among the
	// joins, exits and swaps of the block
	ops = append(ops, c05Op{Name: "feeder_refreshes_external_liquidity", Kind: "ext_feed"})
	return ops
}

type c05Env struct {
	w     *World
	pools []uint64
}

func c05Setup() *c05Env {
	w := NewWorld(FixtureCfg{})
	lp1 := w.A("lp1")
	e := &c05Env{w: w}
	for _, s := range c05Specs {
		w.mustBlock("c05 pool "+s.Name, PlannedTx{Signer: "lp1", Msgs: []sdk.Msg{mkPoolMsg(lp1, s.Oracle, s.D2, s.A2, s.AU, s.W2, s.WU, "0.003")}})
		ps := w.App.AmmKeeper.GetAllPool(w.RCtx())
		id := ps[len(ps)-1].PoolId
		e.pools = append(e.pools, id)
		if s.Lev {
			w.MustGov("c05 leveragelp AddPool", func(ctx sdk.Context) error {
				_, err := llpkeeper.NewMsgServerImpl(*w.App.LeveragelpKeeper).AddPool(ctx, &llptypes.MsgAddPool{Authority: w.Gov, Pool: llptypes.AddPool{AmmPoolId: id, LeverageMax: sdkmath.LegacyNewDec(10)}})
				return err
			})
		}
		if s.Skew {
			// push the pool far off its target weights with one real swap (30 % of the atom reserve in)
			t2 := w.A("t2")
			w.mustBlock("c05 skew", PlannedTx{Signer: "t2", Msgs: []sdk.Msg{swapIn(t2, "", C("uatom", s.A2*3/10), 1, rin(id, "uusdc"))}})
		}
	}
	// let the 1-hour lock of the founder's shares expire
	if br := w.ExecOp(NewOpLib().Get("gap_61m")); !br.OK() {
		panic(br.Err)
	}
	return e
}

type c05Run struct {
	e        *c05Env
	st       *KStats
	keys     map[string]bool
	deadline time.Time
	spec     c05PoolSpec
	poolId   uint64
	ops      []c05Op
	actor    sdk.AccAddress
	other    sdk.AccAddress
	founder  sdk.AccAddress
	prices   map[string]*big.Rat
	wallet0  map[string]sdkmath.Int
}

func (r *c05Run) find(f Finding, path []string) {
	for _, x := range r.st.Findings {
		if x.Sig() == f.Sig() && x.Len <= len(path) {
			return
		}
	}
	kept := r.st.Findings[:0]
	for _, x := range r.st.Findings {
		if x.Sig() != f.Sig() {
			kept = append(kept, x)
		}
	}
	r.st.Findings = append(kept, KFinding{Finding: f, Input: append([]string{"pool:" + r.spec.Name}, path...), Len: len(path)})
}

func (r *c05Run) deliver(ctx sdk.Context, msg sdk.Msg) (err error) {
	c, write := ctx.CacheContext()
	defer func() {
		if rec := recover(); rec != nil {
			err = fmt.Errorf("panic: %v", rec)
		}
	}()
	if _, err = r.e.w.App.MsgServiceRouter().Handler(msg)(c, msg); err == nil {
		write()
	}
	return err
}

type c05Obs struct {
	res    []sdkmath.Int
	denoms []string
	wts    []int64
	shares sdkmath.Int
	mine   sdkmath.Int
}

func (r *c05Run) observe(ctx sdk.Context) c05Obs {
	p, _ := r.e.w.App.AmmKeeper.GetPool(ctx, r.poolId)
	o := c05Obs{shares: p.TotalShares.Amount}
	for _, a := range p.PoolAssets {
		o.res = append(o.res, a.Token.Amount)
		o.denoms = append(o.denoms, a.Token.Denom)
		o.wts = append(o.wts, a.Weight.Int64())
	}
	cm := r.e.w.App.CommitmentKeeper.GetCommitments(ctx, r.actor)
	o.mine = cm.GetCommittedAmountForDenom(ammtypes.GetPoolShareDenom(r.poolId))
	return o
}

// vGE reports whether value-per-share(b) >= value-per-share(a) exactly.
// CPMM: Π B_i^{k_i} / S^{Σk}  (cross-multiplied integers). Oracle: Σ p_i B_i / S.
func (r *c05Run) vGE(a, b c05Obs, bumpB int64, shrinkMinted *big.Rat) bool {
	resB := make([]*big.Int, len(b.res))
	for i := range b.res {
		resB[i] = new(big.Int).Add(b.res[i].BigInt(), big.NewInt(bumpB))
	}
	sB := new(big.Rat).SetInt(b.shares.BigInt())
	if shrinkMinted != nil && b.shares.GT(a.shares) {
		minted := new(big.Rat).SetInt(new(big.Int).Sub(b.shares.BigInt(), a.shares.BigInt()))
		sB = new(big.Rat).Sub(sB, new(big.Rat).Mul(minted, shrinkMinted))
	}
	sA := new(big.Rat).SetInt(a.shares.BigInt())
	if r.spec.Oracle {
		va, vb := new(big.Rat), new(big.Rat)
		for i := range a.res {
			va.Add(va, new(big.Rat).Mul(r.prices[a.denoms[i]], new(big.Rat).SetInt(a.res[i].BigInt())))
			vb.Add(vb, new(big.Rat).Mul(r.prices[b.denoms[i]], new(big.Rat).SetInt(resB[i])))
		}
		// vb/sB >= va/sA
		return new(big.Rat).Mul(vb, sA).Cmp(new(big.Rat).Mul(va, sB)) >= 0
	}
	// (Π Bb_i^{k_i}) * sA^K >= (Π Ba_i^{k_i}) * sB^K   with small integer weights
	k := reduceWeights(a.wts)
	K := int64(0)
	lhs, rhs := big.NewRat(1, 1), big.NewRat(1, 1)
	for i := range a.res {
		K += k[i]
		lhs.Mul(lhs, ratPow(new(big.Rat).SetInt(resB[i]), k[i]))
		rhs.Mul(rhs, ratPow(new(big.Rat).SetInt(a.res[i].BigInt()), k[i]))
	}
	lhs.Mul(lhs, ratPow(sA, K))
	rhs.Mul(rhs, ratPow(sB, K))
	return lhs.Cmp(rhs) >= 0
}

func reduceWeights(w []int64) []int64 {
	g := w[0]
	for _, x := range w[1:] {
		a, b := g, x
		for b != 0 {
			a, b = b, a%b
		}
		g = a
	}
	out := make([]int64, len(w))
	for i := range w {
		out[i] = w[i] / g
	}
	return out
}

func ratPow(x *big.Rat, n int64) *big.Rat {
	r := big.NewRat(1, 1)
	for i := int64(0); i < n; i++ {
		r.Mul(r, x)
	}
	return r
}

type c05State struct {
	onlyAllAsset bool // every op of the actor so far was an all-asset join/exit and nobody swapped
	noSwap       bool
}

func (r *c05Run) apply(ctx sdk.Context, s *c05State, op c05Op, path []string) {
	w := r.e.w
	pre := r.observe(ctx)
	bad := func(clause, disc, detail string) {
		r.find(Finding{Clause: clause, Culprit: op.Kind, Disc: disc, Detail: fmt.Sprintf("%s\n(pool %s before: reserves %v shares %s; actor holds %s)", detail, r.spec.Name, pre.res, pre.shares, pre.mine)}, path)
	}
	kind := "cpmm"
	if r.spec.Oracle {
		kind = "oracle"
	}
	amt := func(arg string, base sdkmath.Int) sdkmath.Int {
		switch arg {
		case "1":
			return sdkmath.NewInt(1)
		case "1e6":
			return sdkmath.NewInt(1000000)
		case "1e18":
			return sdkmath.NewInt(1e18)
		case "half_supply":
			return pre.shares.QuoRaw(2)
		case "3x_supply":
			return pre.shares.MulRaw(3)
		case "half_mine":
			return pre.mine.QuoRaw(2)
		case "all_mine":
			return pre.mine
		case "all_mine+1":
			return pre.mine.AddRaw(1)
		}
		return base
	}
	actor := r.actor.String()
	var err error
	judged := false
	minted := false
	switch op.Kind {
	case "join_all":
		var max sdk.Coins
		shares := sdkmath.NewInt(1)
		if r.spec.Oracle {
			switch op.Arg {
			case "in_ratio_1pct":
				max = sdk.NewCoins(sdk.NewCoin(pre.denoms[0], pre.res[0].QuoRaw(100).AddRaw(1)), sdk.NewCoin(pre.denoms[1], pre.res[1].QuoRaw(100).AddRaw(1)))
			case "out_of_ratio":
				max = sdk.NewCoins(sdk.NewCoin(pre.denoms[0], pre.res[0].QuoRaw(100).AddRaw(1)), sdk.NewCoin(pre.denoms[1], pre.res[1].QuoRaw(20).AddRaw(1)))
			default:
				max = sdk.NewCoins(sdk.NewCoin(pre.denoms[0], pre.res[0].MulRaw(3)), sdk.NewCoin(pre.denoms[1], pre.res[1].MulRaw(3)))
			}
		} else {
			shares = amt(op.Arg, sdkmath.NewInt(1))
			max = sdk.NewCoins(sdk.NewCoin(pre.denoms[0], sdkmath.NewInt(1e14)), sdk.NewCoin(pre.denoms[1], sdkmath.NewInt(1e14)))
		}
		err = r.deliver(ctx, &ammtypes.MsgJoinPool{Sender: actor, PoolId: r.poolId, MaxAmountsIn: max, ShareAmountOut: shares})
		judged, minted = err == nil, true
	case "join_list":
		c0 := sdk.NewCoin(pre.denoms[0], pre.res[0].QuoRaw(10).AddRaw(1))
		c1 := sdk.NewCoin(pre.denoms[1], pre.res[1].QuoRaw(10).AddRaw(1))
		var list sdk.Coins
		switch op.Arg {
		case "asset0_twice":
			list = sdk.Coins{c0, c0}
		case "asset1_twice":
			list = sdk.Coins{c1, c1}
		case "asset0_x_then_2x":
			list = sdk.Coins{c0, sdk.NewCoin(c0.Denom, c0.Amount.MulRaw(2))}
		case "asset0_2x_then_x":
			list = sdk.Coins{sdk.NewCoin(c0.Denom, c0.Amount.MulRaw(2)), c0}
		case "asset1_x_then_2x":
			list = sdk.Coins{c1, sdk.NewCoin(c1.Denom, c1.Amount.MulRaw(2))}
		case "asset1_2x_then_x":
			list = sdk.Coins{sdk.NewCoin(c1.Denom, c1.Amount.MulRaw(2)), c1}
		case "reversed_pair":
			list = sdk.Coins{c1, c0}
			if pre.denoms[0] > pre.denoms[1] {
				list = sdk.Coins{c0, c1}
			}
		default:
			list = sdk.Coins{c0, c1, c0}
		}
		shares := sdkmath.NewInt(1)
		if r.spec.Oracle {
			shares = sdkmath.ZeroInt()
		}
		m := &ammtypes.MsgJoinPool{Sender: actor, PoolId: r.poolId, MaxAmountsIn: list, ShareAmountOut: shares}
		if m.ValidateBasic() != nil {
			return // the chain refuses it before any handler runs
		}
		r.st.Clauses["malformed_coin_list_admitted_by_stateless_validation"]++
		err = r.deliver(ctx, m)
		judged, minted = err == nil, true
		s.onlyAllAsset = false
	case "join_single":
		a := sdkmath.NewInt(1)
		if op.Arg == "10pct" {
			a = pre.res[op.Idx].QuoRaw(10).AddRaw(1)
		}
		ask := sdkmath.NewInt(1)
		if op.Arg == "dust1+ask" {
			ask = pre.shares
		}
		err = r.deliver(ctx, &ammtypes.MsgJoinPool{Sender: actor, PoolId: r.poolId, MaxAmountsIn: sdk.NewCoins(sdk.NewCoin(pre.denoms[op.Idx], a)), ShareAmountOut: ask})
		judged, minted = err == nil, true
		s.onlyAllAsset = false
	case "exit_all", "exit_single":
		sh := amt(op.Arg, sdkmath.NewInt(1))
		if op.Arg == "largest_accepted" {
			// the LARGEST single-asset exit the pool accepts from an actor holding most of the shares (found
			// by bisection over dry runs on discarded branches): the exit that comes closest to — or
			// reaches — the whole reserve of the out asset
			if !pre.mine.MulRaw(2).GT(pre.shares) {
				return
			}
			try := func(x sdkmath.Int) bool {
				c, _ := ctx.CacheContext()
				return r.deliver(c, &ammtypes.MsgExitPool{Sender: r.actor.String(), PoolId: r.poolId, ShareAmountIn: x, MinAmountsOut: sdk.Coins{}, TokenOutDenom: pre.denoms[op.Idx]}) == nil
			}
			lo, hi := sdkmath.ZeroInt(), pre.mine
			if try(hi) {
				lo = hi
			} else {
				for i := 0; i < 120 && hi.Sub(lo).GT(sdkmath.OneInt()); i++ {
					mid := lo.Add(hi).QuoRaw(2)
					if try(mid) {
						lo = mid
					} else {
						hi = mid
					}
				}
			}
			sh = lo
			r.st.Clauses["largest_accepted_single_exit_searched"]++
		}
		if !sh.IsPositive() {
			return
		}
		out := ""
		if op.Kind == "exit_single" {
			out = pre.denoms[op.Idx]
			s.onlyAllAsset = false
		}
		err = r.deliver(ctx, &ammtypes.MsgExitPool{Sender: actor, PoolId: r.poolId, ShareAmountIn: sh, MinAmountsOut: sdk.Coins{}, TokenOutDenom: out})
		judged = err == nil
		if sh.GT(pre.mine) {
			r.st.Clauses["exit_more_than_held"]++
			if err == nil {
				bad("exit_of_more_shares_than_held_accepted", "pool="+kind, fmt.Sprintf("%s of %s shares accepted, actor held %s", op.Name, sh, pre.mine))
			}
		}
	case "swap":
		p, _ := w.App.AmmKeeper.GetPool(ctx, r.poolId)
		in, out := op.Idx, 1-op.Idx
		a := pre.res[in].QuoRaw(1000).AddRaw(1)
		if op.Arg == "large" {
			a = pre.res[in].QuoRaw(5).AddRaw(1)
		}
		c, write := ctx.CacheContext()
		if _, e := w.App.AmmKeeper.InternalSwapExactAmountIn(c, r.other, r.other, p, sdk.NewCoin(pre.denoms[in], a), pre.denoms[out], sdkmath.OneInt(), p.PoolParams.SwapFee); e == nil {
			write()
		}
		s.noSwap, s.onlyAllAsset = false, false
		return
	case "ext_feed":
		assetName := func(d string) string {
			switch d {
			case "uatom":
				return "ATOM"
			case "uusdc":
				return "USDC"
			case "uelys":
				return "ELYS"
			}
			return d
		}
		m := &ammtypes.MsgFeedMultipleExternalLiquidity{Sender: w.A("feeder").Addr.String(), Liquidity: []ammtypes.ExternalLiquidity{{PoolId: r.poolId, AmountDepthInfo: []ammtypes.AssetAmountDepth{
			{Asset: assetName(pre.denoms[0]), Amount: sdkmath.LegacyNewDecFromInt(pre.res[0]).MulInt64(10), Depth: sdkmath.LegacyMustNewDecFromStr("0.1")},
			{Asset: assetName(pre.denoms[1]), Amount: sdkmath.LegacyNewDecFromInt(pre.res[1]).MulInt64(10), Depth: sdkmath.LegacyMustNewDecFromStr("0.1")}}}}}
		if e := r.deliver(ctx, m); e != nil {
			r.st.Clauses["ext_feed_refused"]++
			return
		}
		r.st.Clauses["ext_feed"]++
		post := r.observe(ctx)
		if !post.res[0].Equal(pre.res[0]) || !post.res[1].Equal(pre.res[1]) || !post.shares.Equal(pre.shares) {
			r.find(Finding{Clause: "external_liquidity_feed_changed_the_pool_book", Culprit: "ext_feed", Disc: "pool=" + map[bool]string{true: "oracle", false: "cpmm"}[r.spec.Oracle], Detail: fmt.Sprintf("MsgFeedMultipleExternalLiquidity moved the pool's book: reserves %v -> %v, shares %s -> %s", pre.res, post.res, pre.shares, post.shares)}, path)
		}
		return
	case "other_exit_all":
		// the founder holds the initial supply: exiting ALL shares of the pool must be refused whenever
		// that would burn every share
		cm := w.App.CommitmentKeeper.GetCommitments(ctx, r.founder)
		fs := cm.GetCommittedAmountForDenom(ammtypes.GetPoolShareDenom(r.poolId))
		err = r.deliver(ctx, &ammtypes.MsgExitPool{Sender: r.founder.String(), PoolId: r.poolId, ShareAmountIn: fs, MinAmountsOut: sdk.Coins{}})
		r.st.Clauses["founder_exit_all"]++
		if fs.GTE(pre.shares) && err == nil {
			bad("exit_of_all_pool_shares_accepted", "pool="+kind, fmt.Sprintf("exit of %s shares accepted although the pool has %s", fs, pre.shares))
		}
		judged = err == nil
	}
	if !judged {
		r.st.Clauses["op_refused"]++
		return
	}
	post := r.observe(ctx)
	r.st.Clauses[op.Kind]++
	// hard clauses
	for i, b := range post.res {
		if !b.IsPositive() {
			bad("reserve_emptied", "pool="+kind, fmt.Sprintf("%s left reserve of %s at %s", op.Name, post.denoms[i], b))
		}
	}
	if !post.shares.IsPositive() {
		bad("all_shares_burned", "pool="+kind, op.Name+" left TotalShares at "+post.shares.String())
		return
	}
	// value per share of the liquidity left behind must not fall
	r.st.Clauses["value_per_share"]++
	if !r.vGE(pre, post, 0, nil) {
		ok := r.vGE(pre, post, 1, nil) // one base unit per asset
		if !ok && minted && op.Kind == "join_single" && !r.spec.Oracle && pre.wts[0] != pre.wts[1] {
			ok = r.vGE(pre, post, 1, big.NewRat(1, 100000000)) // power approximation on weighted single-asset joins
		}
		if !ok {
			bad("value_per_share_decreased", "pool="+kind+",op="+op.Kind, fmt.Sprintf("%s: reserves %v -> %v, shares %s -> %s: the per-share value of the liquidity left behind fell beyond rounding", op.Name, pre.res, post.res, pre.shares, post.shares))
		}
	}
	// join then exit: with only all-asset joins/exits by the actor and no swaps, once the actor is back
	// to zero shares it holds no more of any asset than at the start
	if post.mine.IsZero() && s.onlyAllAsset && s.noSwap && !r.spec.Oracle {
		r.st.Clauses["join_exit_roundtrip"]++
		for _, d := range post.denoms {
			b := w.App.BankKeeper.GetBalance(ctx, r.actor, d).Amount
			if b.GT(r.wallet0[d]) {
				bad("join_then_exit_returned_more", "pool="+kind, fmt.Sprintf("after %v the actor holds %s %s, started with %s", path, b, d, r.wallet0[d]))
			}
		}
	}
	if post.mine.IsZero() && s.noSwap && r.spec.Oracle {
		r.st.Clauses["join_exit_roundtrip_value"]++
		v0, v1 := new(big.Rat), new(big.Rat)
		for _, d := range post.denoms {
			v0.Add(v0, new(big.Rat).Mul(r.prices[d], new(big.Rat).SetInt(r.wallet0[d].BigInt())))
			v1.Add(v1, new(big.Rat).Mul(r.prices[d], new(big.Rat).SetInt(w.App.BankKeeper.GetBalance(ctx, r.actor, d).Amount.BigInt())))
		}
		tol := new(big.Rat).Mul(big.NewRat(int64(len(path)), 1), new(big.Rat).Add(r.prices[post.denoms[0]], r.prices[post.denoms[1]]))
		// a rebalancing bonus paid by the treasury is not the LPs' money: only judged when the treasury paid nothing
		if v1.Cmp(new(big.Rat).Add(v0, tol)) > 0 && !r.treasuryPaid(ctx) {
			bad("join_then_exit_returned_more_value", "pool="+kind, fmt.Sprintf("after %v the actor's wallet is worth %s, started with %s", path, v1.FloatString(3), v0.FloatString(3)))
		}
	}
}

func (r *c05Run) treasuryPaid(ctx sdk.Context) bool {
	p, _ := r.e.w.App.AmmKeeper.GetPool(ctx, r.poolId)
	t := sdk.MustAccAddressFromBech32(p.RebalanceTreasury)
	base := r.e.w.RCtx()
	for _, a := range p.PoolAssets {
		if r.e.w.App.BankKeeper.GetBalance(ctx, t, a.Token.Denom).Amount.LT(r.e.w.App.BankKeeper.GetBalance(base, t, a.Token.Denom).Amount) {
			return true
		}
	}
	return false
}

func (r *c05Run) dfs(ctx sdk.Context, s c05State, depth, maxDepth int, path []string, first int) {
	if depth >= maxDepth {
		r.st.Sequences++
		if len(r.st.Samples) < 2 {
			r.st.Samples = append(r.st.Samples, append([]string{"pool:" + r.spec.Name}, path...))
		}
		return
	}
	if time.Now().After(r.deadline) {
		r.st.Incomplete = true
		return
	}
	for oi, op := range r.ops {
		if depth == 0 && first >= 0 && oi != first {
			continue
		}
		np := append(path, op.Name)
		c, _ := ctx.CacheContext()
		// two hours between ops: lock-ups of earlier joins have expired
		c = c.WithBlockTime(ctx.BlockTime().Add(2 * time.Hour)).WithBlockHeight(ctx.BlockHeight() + 1)
		ns := s
		r.st.Evaluations++
		r.apply(c, &ns, op, np)
		o := r.observe(c)
		// the key also carries the actor's wallet and the rebalance treasury: the round-trip clause judges
		// the wallet, and bonuses depend on the treasury (states equal in reserves and shares but not in
		// these have different futures — merging them would be unsound)
		pl, _ := r.e.w.App.AmmKeeper.GetPool(c, r.poolId)
		tr := r.e.w.App.BankKeeper.GetAllBalances(c, sdk.MustAccAddressFromBech32(pl.RebalanceTreasury))
		wl := r.e.w.App.BankKeeper.GetAllBalances(c, r.actor)
		k := fmt.Sprintf("%v|%s|%s|%v|%v|%s|%s", o.res, o.shares, o.mine, ns.onlyAllAsset, ns.noSwap, wl, tr)
		r.keys[k] = true
		kk := fmt.Sprintf("%s#%d", k, maxDepth-depth-1)
		if r.keys[kk] {
			continue
		}
		r.keys[kk] = true
		r.dfs(c, ns, depth+1, maxDepth, np, -1)
	}
}

func c05RunUnit(e *c05Env, u c05Unit, deadline time.Time, fixed []string) *KStats {
	w := e.w
	r := &c05Run{e: e, st: &KStats{Clauses: map[string]int64{}}, keys: map[string]bool{}, deadline: deadline, spec: c05Specs[u.Pool], poolId: e.pools[u.Pool]}
	r.ops = c05Ops(r.spec)
	r.actor, r.other, r.founder = w.A("q8").Addr, w.A("q9").Addr, w.A("lp1").Addr
	r.prices = map[string]*big.Rat{"uusdc": big.NewRat(1, 1), "uatom": ratOfDec(Dec(w.Env.Atom)), "uelys": ratOfDec(Dec(w.Env.Elys))}
	base, _ := w.Ctx().CacheContext()
	base = base.WithBlockHeight(w.Height() + 1).WithBlockTime(time.Unix(w.Env.Tm+5, 0).UTC())
	r.wallet0 = map[string]sdkmath.Int{}
	for _, d := range []string{"uusdc", "uatom", "uelys"} {
		r.wallet0[d] = w.App.BankKeeper.GetBalance(base, r.actor, d).Amount
	}
	s := c05State{onlyAllAsset: true, noSwap: true}
	if fixed != nil {
		ctx := base
		for d, name := range fixed {
			for _, op := range r.ops {
				if op.Name == name {
					c, _ := ctx.CacheContext()
					c = c.WithBlockTime(ctx.BlockTime().Add(2 * time.Hour)).WithBlockHeight(ctx.BlockHeight() + 1)
					r.st.Evaluations++
					r.apply(c, &s, op, fixed[:d+1])
					ctx = c
					if os.Getenv("VERIF_DEBUG_C05") != "" {
						o := r.observe(c)
						bal := r.e.w.App.BankKeeper.GetAllBalances(c, r.actor)
						fmt.Fprintf(os.Stderr, "C05DBG after %s: reserves %v shares %s actor_shares %s actor_wallet %s\n", name, o.res, o.shares, o.mine, bal)
					}
				}
			}
		}
		return r.st
	}
	r.dfs(base, s, 0, u.Depth, nil, u.First)
	n := 0
	for k := range r.keys {
		if !strings.Contains(k, "#") {
			n++
		}
	}
	r.st.NStates = int64(n)
	return r.st
}

func c05Worker(tier string) KUnitFunc {
	var env *c05Env
	return func(raw json.RawMessage, deadline time.Time) *KStats {
		var u c05Unit
		if err := json.Unmarshal(raw, &u); err != nil {
			return &KStats{HarnessErr: err.Error()}
		}
		if env == nil {
			env = c05Setup()
		}
		return c05RunUnit(env, u, deadline, nil)
	}
}

func c05PoolIdx(s string) int {
	s = strings.TrimPrefix(s, "pool:")
	for i, sp := range c05Specs {
		if sp.Name == s {
			return i
		}
	}
	return 0
}

func RunC05(tier string) int {
	depth := 3
	if tier == "thorough" {
		depth = 4
	}
	var units []interface{}
	names := []string{}
	for pi, sp := range c05Specs {
		names = append(names, sp.Name)
		for i := range c05Ops(sp) {
			units = append(units, c05Unit{Pool: pi, First: i, Depth: depth})
		}
	}
	sum := RunSharded("C05", tier, units, deadlineFor(tier))
	sum.Validated = sum.Evaluations // every op goes through the app's message router handlers / real keeper
	// Engine G part: constant-product pools of two, three and four assets through the pure pool methods
	{
		mw := NewBareWorld()
		j, nj, fs := c05mAll(mw)
		mw.Close()
		if sum.Clauses == nil {
			sum.Clauses = map[string]int64{}
		}
		sum.Clauses["multiasset_join_exit_round_trips(pure pool methods, 2-4 assets)"] = j
		sum.Clauses["multiasset_cases_not_judged(join or exit refused)"] = nj
		sum.Evaluations += j + nj
		sum.Findings = append(sum.Findings, fs...)
	}
	bounds := map[string]interface{}{"pools": names, "depth": depth, "ops_cpmm": len(c05Ops(c05Specs[0])), "ops_oracle": len(c05Ops(c05Specs[6])), "actor": "one joiner/exiter, one swapper, the founder holding the initial supply"}
	return KConclude("C05", tier, "K: exhaustive join/exit/swap sequences through the real handlers on real pools vs exact rational value-per-share", "all sequences of length <= depth over {all-asset joins (share targets 1..3x supply / deposits in ratio, out of ratio, 3x the pool), single-asset joins (dust, 10 %), all-asset exits (1, 1e6, 1e18, half, all, all+1), single-asset exits (oracle pools), small/large swaps by another account, the founder exiting every share} on 11 real pools (CPMM 1:1 and 80:20, oracle balanced and off-target, scales 1e3/1e6/1e12); after every accepted join/exit the per-share value of the liquidity left behind is compared exactly",
		[]string{"prices fixed during a sequence", "tolerance: one base unit per asset; 1e-8 of the minted shares for single-asset joins of weighted pools", "join-then-exit value clause for oracle pools is not judged when the rebalance treasury paid a bonus"}, sum, bounds,
		func(f KFinding) bool {
			path, ok := toStrings(f.Input)
			if !ok || len(path) == 0 {
				return false
			}
			if c, ok := c05mParse(path[0]); ok {
				mw := NewBareWorld()
				defer mw.Close()
				_, x := c05mRun(mw, mw.Ctx(), c)
				return x != nil && x.Sig() == f.Sig()
			}
			e := c05Setup()
			defer e.w.Close()
			for _, x := range c05RunUnit(e, c05Unit{Pool: c05PoolIdx(path[0])}, time.Now().Add(time.Minute), path[1:]).Findings {
				if x.Sig() == f.Sig() {
					return true
				}
			}
			return false
		})
}

func init() {
	OtherEngines["C05"] = RunC05
	KWorkers["C05"] = c05Worker
	OtherReplays["C05"] = func(r *Replay) int {
		path, ok := toStrings(r.Extra["input"])
		if !ok || len(path) == 0 {
			return 2
		}
		if c, ok := c05mParse(path[0]); ok {
			mw := NewBareWorld()
			defer mw.Close()
			_, x := c05mRun(mw, mw.Ctx(), c)
			if x != nil {
				fmt.Printf("finding clause=%s disc=%s\n  %s\n", x.Clause, x.Disc, firstLines(x.Detail, 5))
				if x.Sig() == r.Finding.Sig() {
					fmt.Println("VIOLATION property=C05 replay=(reproduced)")
					return 1
				}
			}
			fmt.Println("replay: recorded finding not reproduced on this tree")
			return 0
		}
		e := c05Setup()
		defer e.w.Close()
		hit := false
		for _, x := range c05RunUnit(e, c05Unit{Pool: c05PoolIdx(path[0])}, time.Now().Add(time.Minute), path[1:]).Findings {
			fmt.Printf("finding clause=%s disc=%s\n  %s\n", x.Clause, x.Disc, firstLines(x.Detail, 5))
			if x.Sig() == r.Finding.Sig() {
				hit = true
			}
		}
		if hit {
			fmt.Println("VIOLATION property=C05 replay=(reproduced)")
			return 1
		}
		fmt.Println("replay: recorded finding not reproduced on this tree")
		return 0
	}
}
