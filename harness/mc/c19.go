//go:build verif

package mc

import (
	"crypto/sha256"
	"encoding/hex"
	"encoding/json"
	"fmt"
	sdk "github.com/cosmos/cosmos-sdk/types"
	channeltypes "github.com/cosmos/ibc-go/v8/modules/core/04-channel/types"
	host "github.com/cosmos/ibc-go/v8/modules/core/24-host"
	ibcexported "github.com/cosmos/ibc-go/v8/modules/core/exported"
	oracletypes "github.com/elys-network/elys/x/oracle/types"
	"os"
	"runtime"
	"sort"
	"strings"
	"time"
)

// Engine D for C19: replicas in different processes, a restart at every possible point of every
// trace (after each Commit, and after each FinalizeBlock before its Commit), and scripted map
// iteration order (runtime seam, rt build only).

var c19Alphabet = []string{"swap_batch_opposite_p1", "swap_in_2hop_elys_atom_L", "join_p1_all_t1", "exit_p2_half_lp1", "perp_open_long_t3_x5", "perp_bot_close_all", "llp_open_t2_x5", "price_atom_2",
	"unbond_lp2_half", "mc_claim_lp1", "fee_tx_uatom", "burn_two_denoms", "gap_1h", "gap_8d", "claim_vesting_lp1", "ext_incentives_two_new_denoms_lp1"}

var c19ListTraces = [][]string{
	{"ts_spot_limitsell_met_own1", "ts_spot_limitbuy_met_own2", "ts_execute_all_bot"},
	{"ts_perp_long_met_own1", "ts_perp_long_met_own2", "ts_execute_all_bot"},
	{"ts_spot_limitsell_met_own1", "ts_spot_limitbuy_met_own2", "ts_cancel_everyones_by_own2"},
}

var c19MemoryTraces = [][]string{
	{"create_pool_lp1", "swap_out_p3_half_usdc_reserve", "swap_out_p3_half_usdc_reserve"},
	{"create_pool_lp1", "swap_out_p3_half_usdc_reserve", "swap_in_p3_atom_double_reserve"},
}

type c19Rec struct {
	Hash string   `json:"hash"`
	Tx   []string `json:"tx"`
}

type c19Unit struct {
	Kind  string   `json:"kind"` // run | restart | map
	Trace []string `json:"trace"`
	Alts  int      `json:"alts"`
	Want  []c19Rec `json:"want,omitempty"`
}

type c19Out struct {
	Recs []c19Rec `json:"recs"`
	Pid  int      `json:"pid"`
}

func recOf(br *BlockResult) c19Rec {
	r := c19Rec{Hash: br.Hash}
	if br.Res != nil {
		for _, t := range br.Res.TxResults {
			d := sha256.Sum256(t.Data)
			r.Tx = append(r.Tx, fmt.Sprintf("%d/%d/%d/%s", t.Code, t.GasWanted, t.GasUsed, hex.EncodeToString(d[:4])))
		}
	}
	return r
}

func recsEqual(a, b []c19Rec) (bool, string) {
	if len(a) != len(b) {
		return false, fmt.Sprintf("%d blocks vs %d blocks", len(a), len(b))
	}
	for i := range a {
		if a[i].Hash != b[i].Hash {
			return false, fmt.Sprintf("block %d: app hash %s vs %s", i+1, a[i].Hash, b[i].Hash)
		}
		if strings.Join(a[i].Tx, ",") != strings.Join(b[i].Tx, ",") {
			return false, fmt.Sprintf("block %d: tx results %v vs %v", i+1, a[i].Tx, b[i].Tx)
		}
	}
	return true, ""
}

type c19Worker struct {
	root  *World
	lib   *OpLib
	gmax  int
	serve bool // the next run simulates and CheckTx'es every transaction before its block
}

// run executes trace linearly on a fresh app over a copy of the root DB.
// restartAfter: restart (new ElysApp over the same DB) after that many committed ops (-1 = never)
// crashAt: run FinalizeBlock of op #crashAt without Commit, restart, and redo it (-1 = never)
func (cw *c19Worker) run(trace []string, restartAfter, crashAt int, seam ...func()) ([]c19Rec, error) {
	f := cw.root.Fork()
	defer f.Close()
	// the map seam (if any) is switched on only after the app object exists: the sites of interest
	// are those block processing passes through
	for _, fn := range seam {
		fn()
	}
	f.ServeFirst = cw.serve
	defer MapSeamSet(0, 0, 0)
	var recs []c19Rec
	if restartAfter == 0 {
		f.Restart()
	}
	for i, n := range trace {
		op := cw.lib.Get(n)
		if crashAt == i {
			if err := f.ExecCrashBeforeCommit(op); err != nil {
				return recs, fmt.Errorf("FinalizeBlock before crash: %v", err)
			}
			f.Restart()
		}
		g0 := runtime.NumGoroutine()
		br := f.ExecOp(op)
		if g := runtime.NumGoroutine() - g0; g > cw.gmax {
			cw.gmax = g
		}
		if !br.OK() {
			return recs, fmt.Errorf("block failed: %s", br.Err)
		}
		recs = append(recs, recOf(br))
		if restartAfter == i+1 {
			f.Restart()
		}
	}
	return recs, nil
}

func c19MakeWorker(tier string) KUnitFunc {
	cw := &c19Worker{lib: NewOpLib()}
	cw.root = NewWorld(FixtureCfg{})
	BuildRoot(cw.root, "R1", cw.lib)
	installBandChannel(cw.root)
	pid := pidOf()
	return func(raw json.RawMessage, deadline time.Time) *KStats {
		var u c19Unit
		if err := json.Unmarshal(raw, &u); err != nil {
			return &KStats{HarnessErr: err.Error()}
		}
		st := &KStats{Clauses: map[string]int64{}, Extra: map[string]float64{}}
		bad := func(clause, disc, detail string, variant interface{}) {
			st.Findings = append(st.Findings, KFinding{Finding: Finding{Clause: clause, Culprit: "trace", Disc: disc, Detail: detail + "\ntrace: R1" + fmt.Sprint(u.Trace)}, Input: map[string]interface{}{"trace": u.Trace, "variant": variant}, Len: len(u.Trace)})
		}
		ref, err := cw.run(u.Trace, -1, -1)
		st.Evaluations++
		if err != nil {
			bad("block_failed_in_trace", "", err.Error(), "reference")
			return st
		}
		switch u.Kind {
		case "run":
			st.Payload, _ = json.Marshal(c19Out{Recs: ref, Pid: pid})
			st.Sequences++
			for _, r := range ref {
				st.States = append(st.States, r.Hash[:16])
			}
		case "restart":
			for h := 0; h <= len(u.Trace); h++ {
				got, err := cw.run(u.Trace, h, -1)
				st.Evaluations++
				st.Clauses["restart_after_commit"]++
				if ok, why := recsEqual(ref, got); err != nil || !ok {
					bad("restart_after_commit_diverges", "", fmt.Sprintf("restart after %d committed blocks of the trace: %s %v", h, why, err), fmt.Sprintf("restart_after_commit:%d", h))
				}
			}
			for h := 0; h < len(u.Trace); h++ {
				got, err := cw.run(u.Trace, -1, h)
				st.Evaluations++
				st.Clauses["crash_before_commit"]++
				if ok, why := recsEqual(ref, got); err != nil || !ok {
					bad("crash_before_commit_diverges", "", fmt.Sprintf("crash after FinalizeBlock of block %d (before Commit), restart, redo: %s %v", h+1, why, err), fmt.Sprintf("crash_before_commit:%d", h))
				}
			}
			// a node that SERVES clients (simulates and mempool-checks every transaction before it is in a block)
			// must stay in consensus with one that does not
			{
				got, err := cw.run(u.Trace, -1, -1, func() { cw.serve = true })
				cw.serve = false
				st.Evaluations++
				st.Clauses["serving_node"]++
				if ok, why := recsEqual(ref, got); err != nil || !ok {
					bad("simulation_or_checktx_changes_result", "", fmt.Sprintf("every transaction simulated and CheckTx'ed before its block: %s %v", why, err), "serving_node")
				}
			}
			st.Sequences++
		case "mapall":
			if !HaveMapSeam {
				st.HarnessErr = "map unit on a binary without the runtime seam"
				return st
			}
			MapSeamReset()
			zero, err := cw.run(u.Trace, -1, -1, func() { MapSeamSet(1, 0, 0) })
			sites, _ := MapSeamSites()
			st.Evaluations++
			st.Extra["map_sites_seen"] = float64(len(sites))
			if ok, why := recsEqual(ref, zero); err != nil || !ok {
				bad("map_order_changes_result", "site=all(start 0 vs runtime random)", fmt.Sprintf("%s %v", why, err), "all_zero")
			}
			for alt := 1; alt <= u.Alts; alt++ {
				alt := alt
				got, err := cw.run(u.Trace, -1, -1, func() { MapSeamSet(2, 0, uintptr(alt)) })
				st.Evaluations++
				st.Clauses["map_all_sites_rotated"]++
				if ok, why := recsEqual(ref, got); err != nil || !ok {
					bad("map_order_changes_result", "site=all", fmt.Sprintf("every map iteration started at %d: %s %v", alt, why, err), fmt.Sprintf("all alt:%d", alt))
				}
			}
			st.Sequences++
		case "map":
			if !HaveMapSeam {
				st.HarnessErr = "map unit on a binary without the runtime seam"
				return st
			}
			// all iterations start at 0; collect the sites the trace passes through
			MapSeamReset()
			zero, err := cw.run(u.Trace, -1, -1, func() { MapSeamSet(1, 0, 0) })
			sites, counts := MapSeamSites()
			st.Evaluations++
			if ok, why := recsEqual(ref, zero); err != nil || !ok {
				bad("map_order_changes_result", "site=all(start 0 vs runtime random)", fmt.Sprintf("%s %v", why, err), "all_zero")
			}
			st.Extra["map_sites_seen"] = float64(len(sites))
			names := []string{}
			for i, pc := range sites {
				names = append(names, fmt.Sprintf("%s x%d", SiteName(pc), counts[i]))
			}
			sort.Strings(names)
			if len(st.Samples) == 0 {
				st.Samples = append(st.Samples, map[string]interface{}{"trace": u.Trace, "map_range_sites": names})
			}
			for alt := 1; alt <= u.Alts; alt++ {
				for _, pc := range sites {
					pc, alt := pc, alt
					got, err := cw.run(u.Trace, -1, -1, func() { MapSeamSet(1, pc, uintptr(alt)) })
					st.Evaluations++
					st.Clauses["map_site_rotated"]++
					if ok, why := recsEqual(ref, got); err != nil || !ok {
						bad("map_order_changes_result", "site="+SiteName(pc), fmt.Sprintf("iteration at this site started at %d instead of 0: %s %v", alt, why, err), fmt.Sprintf("site:%s alt:%d", SiteName(pc), alt))
					}
				}
				alt := alt
				got, err := cw.run(u.Trace, -1, -1, func() { MapSeamSet(2, 0, uintptr(alt)) })
				st.Evaluations++
				st.Clauses["map_all_sites_rotated"]++
				if ok, why := recsEqual(ref, got); err != nil || !ok {
					bad("map_order_changes_result", "site=all", fmt.Sprintf("every map iteration started at %d: %s %v", alt, why, err), fmt.Sprintf("all alt:%d", alt))
				}
			}
			st.Sequences++
		}
		st.Extra["max_goroutine_delta_around_block"] = float64(cw.gmax)
		return st
	}
}

func c19Traces(maxLen int) [][]string {
	var out [][]string
	var rec func(cur []string)
	rec = func(cur []string) {
		if len(cur) > 0 {
			out = append(out, append([]string{}, cur...))
		}
		if len(cur) == maxLen {
			return
		}
		for _, o := range c19Alphabet {
			rec(append(cur, o))
		}
	}
	rec(nil)
	return out
}

func RunC19(tier string) int {
	t0 := time.Now()
	maxLen, mapLen, alts := 2, 1, 4
	if tier == "thorough" {
		maxLen, mapLen, alts = 3, 2, 63
	}
	traces := c19Traces(maxLen)
	budget := deadlineFor(tier)
	// phase 1: every trace in two different processes (units are interleaved so that the two
	// runs of a trace land on different workers)
	// PROCESS MEMORY traces: inputs that hit a shortcut visible in the pricing code (a weighted pool with a
	// fractional exponent whose balance ratio is EXACTLY 2 takes computeLn's constant-returning branch), twice,
	// with every restart point in between: whatever a long-running process remembers, a restarted one does not
	traces = append(traces, c19MemoryTraces...)
	var units []interface{}
	for _, tr := range traces {
		units = append(units, c19Unit{Kind: "run", Trace: tr})
	}
	for _, tr := range traces {
		units = append(units, c19Unit{Kind: "run", Trace: tr})
	}
	for _, tr := range traces {
		units = append(units, c19Unit{Kind: "restart", Trace: tr})
	}
	nMap := 0
	if HaveMapSeam {
		mapTraces := [][]string{}
		for _, tr := range traces {
			if len(tr) <= mapLen {
				mapTraces = append(mapTraces, tr)
			}
		}
		if mapLen < 2 {
			// the burner ranges over a map while writing state: needs coins on the burn address AND an epoch end
			mapTraces = append(mapTraces, []string{"burn_two_denoms", "gap_1h"}, []string{"fee_tx_uatom", "gap_1h"})
		}
		for _, tr := range mapTraces {
			units = append(units, c19Unit{Kind: "map", Trace: tr, Alts: alts})
			nMap++
		}
		// longer roads to code that handles a LIST of user-chosen ids in one message (two pending, triggerable
		// orders of two owners, then one execute request naming both): every site together, rotated
		for _, tr := range c19ListTraces {
			units = append(units, c19Unit{Kind: "mapall", Trace: tr, Alts: alts})
			nMap++
		}
	}
	runs := map[string][]c19Out{}
	var mapSamples []interface{}
	sum := RunSharded("C19", tier, units, budget, func(u interface{}, r *KStats) {
		cu := u.(c19Unit)
		switch cu.Kind {
		case "run":
			var o c19Out
			if json.Unmarshal(r.Payload, &o) == nil && len(o.Recs) > 0 {
				k := fmt.Sprint(cu.Trace)
				runs[k] = append(runs[k], o)
			}
		case "map":
			if len(mapSamples) < 2 {
				mapSamples = append(mapSamples, r.Samples...)
			}
		}
	})
	replicaPairs, crossProcess := 0, 0
	for tr, outs := range runs {
		if len(outs) < 2 {
			continue
		}
		replicaPairs++
		if outs[0].Pid != outs[1].Pid {
			crossProcess++
		}
		if ok, why := recsEqual(outs[0].Recs, outs[1].Recs); !ok {
			sum.Findings = append(sum.Findings, KFinding{Finding: Finding{Clause: "replicas_disagree", Culprit: "trace", Disc: "", Detail: fmt.Sprintf("two processes (pid %d, %d) computed different results: %s\ntrace: R1%s", outs[0].Pid, outs[1].Pid, why, tr)}, Input: map[string]interface{}{"trace": strings.Fields(strings.Trim(tr, "[]")), "variant": "replica"}})
		}
	}
	sum.Clauses["replica_pairs_compared"] = int64(replicaPairs)
	sum.Clauses["replica_pairs_in_different_processes"] = int64(crossProcess)
	sum.Validated = int64(replicaPairs)
	sum.Samples = mapSamples
	if len(traces) > 0 {
		sum.Samples = append(sum.Samples, map[string]interface{}{"trace": traces[len(traces)/2], "checked": "replica pair + restart after every commit + crash before every commit"})
	}
	sum.Wall = time.Since(t0).Seconds()
	if !HaveMapSeam {
		sum.HarnessErrs = append(sum.HarnessErrs, "binary built without the runtime map seam (rt build failed?)")
	}
	bounds := map[string]interface{}{"root": "R1", "alphabet": c19Alphabet, "max_trace_length": maxLen, "traces": len(traces), "restart_points": "after every Commit (incl. at the root) and after every FinalizeBlock before its Commit", "map_traces": nMap, "map_start_values": fmt.Sprintf("1..%d per site + all sites together", alts), "replicas": "each trace executed by two worker processes"}
	return KConclude("C19", tier, "D: replicas in separate processes x restart/crash points x scripted map-iteration order on the real ElysApp", "every op sequence up to the length bound from root R1 is executed (a) by two different processes whose per-block app hash and per-tx code/gas/data must agree, (b) with a restart (new ElysApp over the same database) injected after every committed height and a crash injected after every FinalizeBlock before its Commit, (c) with the start of every range-over-map statement the trace passes through scripted (runtime seam): one site at a time and all together",
		[]string{"goroutine timing: the state machine starts no goroutine during a block (max goroutine delta reported in measures)", "DB-level torn writes are the storage engine's concern, not explored", "map seam covers Go maps iterated via range/reflect; starts 1..alts"}, sum, bounds,
		func(f KFinding) bool { return true })
}

func pidOf() int { return os.Getpid() }

func init() {
	OtherEngines["C19"] = RunC19
	KWorkers["C19"] = c19MakeWorker
	OtherReplays["C19"] = func(r *Replay) int {
		in, _ := r.Extra["input"].(map[string]interface{})
		tr, _ := toStrings(in["trace"])
		fmt.Println("re-running all C19 variants of trace", tr)
		f := c19MakeWorker("quick")
		hit := false
		for _, kind := range []string{"restart", "map"} {
			if kind == "map" && !HaveMapSeam {
				continue
			}
			b, _ := json.Marshal(c19Unit{Kind: kind, Trace: tr, Alts: 7})
			for _, x := range f(b, time.Now().Add(10*time.Minute)).Findings {
				fmt.Printf("finding clause=%s disc=%s\n  %s\n", x.Clause, x.Disc, firstLines(x.Detail, 5))
				if x.Clause == r.Finding.Clause {
					hit = true
				}
			}
		}
		if hit {
			fmt.Println("VIOLATION property=C19 replay=(reproduced)")
			return 1
		}
		fmt.Println("replay: recorded finding not reproduced on this tree")
		return 0
	}
}

// installBandChannel leaves behind what an IBC channel handshake between the oracle module and
// BandChain leaves behind (open channel end, sequences, the channel capability owned by ibc and
// claimed by the oracle module) and gives one asset a Band ticker: from then on the oracle's
// band-epoch hook (every 15 s, in begin-block) sends a price request packet — a begin-block action
// that depends on the IN-MEMORY capability index, which a restarted process has to rebuild.
func installBandChannel(w *World) {
	w.MustGov("band channel", func(ctx sdk.Context) error {
		app := w.App
		params := app.OracleKeeper.GetParams(ctx)
		port, channel := oracletypes.PortID, params.BandChannelSource
		if channel == "" {
			return fmt.Errorf("no BandChannelSource in the oracle params")
		}
		capPath := host.ChannelCapabilityPath(port, channel)
		chanCap, err := app.ScopedIBCKeeper.NewCapability(ctx, capPath)
		if err != nil {
			return err
		}
		if err := app.ScopedOracleKeeper.ClaimCapability(ctx, chanCap, capPath); err != nil {
			return err
		}
		app.IBCKeeper.ChannelKeeper.SetChannel(ctx, port, channel, channeltypes.NewChannel(channeltypes.OPEN, channeltypes.UNORDERED,
			channeltypes.NewCounterparty(port, "channel-77"), []string{ibcexported.LocalhostConnectionID}, oracletypes.Version))
		app.IBCKeeper.ChannelKeeper.SetNextSequenceSend(ctx, port, channel, 1)
		app.IBCKeeper.ChannelKeeper.SetNextSequenceRecv(ctx, port, channel, 1)
		app.IBCKeeper.ChannelKeeper.SetNextSequenceAck(ctx, port, channel, 1)
		app.OracleKeeper.SetAssetInfo(ctx, oracletypes.AssetInfo{Denom: "uatom", Display: "ATOM", BandTicker: "ATOM", ElysTicker: "ATOM", Decimal: 6})
		return nil
	})
	// persist it with a committed block
	if br := w.ExecOp(NewOpLib().Get("empty")); !br.OK() {
		panic("band channel block: " + br.Err)
	}
}
