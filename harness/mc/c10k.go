//go:build verif

package mc

import (
	"fmt"
	"time"

	"cosmossdk.io/math"
	sdk "github.com/cosmos/cosmos-sdk/types"
	llptypes "github.com/elys-network/elys/x/leveragelp/types"
	perptypes "github.com/elys-network/elys/x/perpetual/types"
)

// Engine K part of C10: the exact boundary. For the positions of root R1 the safety factor is set
// to exactly the position's health, one quantum (1e-18) below and one above, and likewise the
// stop-loss / take-profit price to exactly the market price ± one quantum; then a THIRD PARTY sends
// the real MsgClosePositions through the router on the same context. Allowed at "health <= factor"
// / "price reached", forbidden one quantum on the other side.

func c10kAll() (cases int64, findings []foundViolation) {
	w := NewWorld(FixtureCfg{})
	defer w.Close()
	BuildRoot(w, "R1", NewOpLib())
	q := math.LegacyNewDecWithPrec(1, 18)
	bot := w.A("bot").Addr.String()
	base := func() sdk.Context {
		c, _ := w.Ctx().CacheContext()
		return c.WithBlockHeight(w.Height() + 1).WithBlockTime(time.Unix(w.Env.Tm+5, 0).UTC())
	}
	deliver := func(ctx sdk.Context, msg sdk.Msg) error {
		c, write := ctx.CacheContext()
		_, err := w.App.MsgServiceRouter().Handler(msg)(c, msg)
		if err == nil {
			write()
		}
		return err
	}
	report := func(clause, disc, detail string, in string) {
		for _, f := range findings {
			if f.Clause == clause && f.Disc == disc {
				return
			}
		}
		findings = append(findings, foundViolation{Finding: Finding{Clause: clause, Culprit: "boundary", Disc: disc, Detail: detail}, Root: "K", Trace: []string{in}})
	}
	// ---- leveraged LP: position 1 of t1
	{
		ctx := base()
		pos := w.LLPsOf("t1")
		if len(pos) > 0 {
			p := pos[0]
			h, err := w.App.LeveragelpKeeper.GetPositionHealth(ctx, p)
			if err == nil {
				for _, d := range []struct {
					name  string
					sf    math.LegacyDec
					close bool
				}{{"factor=health-1e-18", h.Sub(q), false}, {"factor=health", h, true}, {"factor=health+1e-18", h.Add(q), true}} {
					c, _ := ctx.CacheContext()
					prm := w.App.LeveragelpKeeper.GetParams(c)
					prm.SafetyFactor = d.sf
					if err := w.App.LeveragelpKeeper.SetParams(c, &prm); err != nil {
						continue
					}
					cases++
					deliver(c, &llptypes.MsgClosePositions{Creator: bot, Liquidate: []*llptypes.PositionRequest{{Address: p.Address, Id: p.Id}}})
					_, still := w.App.LeveragelpKeeper.GetPositionWithId(c, sdk.MustAccAddressFromBech32(p.Address), p.Id)
					if still == d.close {
						report("liquidation_boundary", "module=llp,"+d.name, fmt.Sprintf("leveraged-LP position %d with health %s and safety factor %s: closed by a third party = %v, expected %v", p.Id, h, d.sf, !still, d.close), d.name)
					}
				}
			}
		}
	}
	// ---- perpetual: every stored MTP, liquidation boundary and trigger-price boundaries
	for _, m := range w.App.PerpetualKeeper.GetAllMTPs(base()) {
		m := m
		ctx := base()
		k := w.App.PerpetualKeeper
		owner := sdk.MustAccAddressFromBech32(m.Address)
		// health exactly as the handler will see it: settle first on a scratch branch
		hctx, _ := ctx.CacheContext()
		pool, _ := k.GetPool(hctx, m.AmmPoolId)
		ammPool, err := k.GetAmmPool(hctx, m.AmmPoolId)
		if err != nil {
			continue
		}
		mm := m
		k.UpdateMTPBorrowInterestUnpaidLiability(hctx, &mm)
		if _, err := k.SettleMTPBorrowInterestUnpaidLiability(hctx, &mm, &pool, ammPool); err != nil {
			continue
		}
		if err := k.SettleFunding(hctx, &mm, &pool, ammPool); err != nil {
			continue
		}
		h, err := k.GetMTPHealth(hctx, mm, ammPool, "uusdc")
		if err != nil {
			continue
		}
		for _, d := range []struct {
			name  string
			sf    math.LegacyDec
			close bool
		}{{"factor=health-1e-18", h.Sub(q), false}, {"factor=health", h, true}, {"factor=health+1e-18", h.Add(q), true}} {
			c, _ := ctx.CacheContext()
			prm := k.GetParams(c)
			prm.SafetyFactor = d.sf
			if err := k.SetParams(c, &prm); err != nil {
				continue
			}
			cases++
			deliver(c, &perptypes.MsgClosePositions{Creator: bot, Liquidate: []perptypes.PositionRequest{{Address: m.Address, Id: m.Id}}})
			_, gerr := k.GetMTP(c, owner, m.Id)
			still := gerr == nil
			if still == d.close {
				report("liquidation_boundary", "module=perp,side="+m.Position.String()+","+d.name, fmt.Sprintf("perpetual position %d with health %s and safety factor %s: closed by a third party = %v, expected %v", m.Id, h, d.sf, !still, d.close), d.name)
			}
		}
		price, err := k.GetAssetPrice(ctx, m.TradingAsset)
		if err != nil {
			continue
		}
		long := m.Position == perptypes.Position_LONG
		for _, list := range []string{"stop_loss", "take_profit"} {
			for _, off := range []int64{-1, 0, 1} {
				trig := price.Add(q.MulInt64(off))
				// long: stop reached iff price <= stop; take-profit reached iff price >= tp. short: mirrored.
				reached := false
				switch {
				case list == "stop_loss" && long:
					reached = price.LTE(trig)
				case list == "stop_loss" && !long:
					reached = price.GTE(trig)
				case list == "take_profit" && long:
					reached = price.GTE(trig)
				default:
					reached = price.LTE(trig)
				}
				c, _ := ctx.CacheContext()
				st := m
				req := &perptypes.MsgClosePositions{Creator: bot}
				if list == "stop_loss" {
					st.StopLossPrice = trig
					req.StopLoss = []perptypes.PositionRequest{{Address: m.Address, Id: m.Id}}
				} else {
					st.TakeProfitPrice = trig
					req.TakeProfit = []perptypes.PositionRequest{{Address: m.Address, Id: m.Id}}
				}
				if err := k.SetMTP(c, &st); err != nil {
					continue
				}
				cases++
				deliver(c, req)
				_, gerr := k.GetMTP(c, owner, m.Id)
				still := gerr == nil
				name := fmt.Sprintf("%s=price%+d quantum", list, off)
				if still == reached {
					report("trigger_boundary", "module=perp,side="+m.Position.String()+","+name, fmt.Sprintf("perpetual %s position %d, market price %s, %s %s: closed by a third party = %v, trigger reached = %v", m.Position, m.Id, price, list, trig, !still, reached), name)
				}
			}
		}
	}
	return
}
