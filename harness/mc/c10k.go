//go:build verif

package mc

import (
	"fmt"
	"os"
	"strings"
	"time"

	"cosmossdk.io/math"
	sdk "github.com/cosmos/cosmos-sdk/types"
	llptypes "github.com/elys-network/elys/x/leveragelp/types"
	perptypes "github.com/elys-network/elys/x/perpetual/types"
	tiertypes "github.com/elys-network/elys/x/tier/types"
)

// Engine K part of C10: the exact boundary. For the positions of root R1 the safety factor is set
// to exactly the position's health, one quantum (1e-18) below and one above, and likewise the
// stop-loss / take-profit price to exactly the market price ± one quantum; then a THIRD PARTY sends
// the real MsgClosePositions through the router on the same context. Allowed at "health <= factor"
// / "price reached" (allowed, not demanded: the statement only says "only if"), forbidden one
// quantum on the other side. Opens: each open / consolidating re-open / collateral top-up of the
// menu is run once to learn the health it ends with, then again with the safety factor at exactly
// that health and one quantum either side; a SUCCESSFUL open must leave health strictly above.

// c10kClosures / c10kOpens: how many of the boundary cases really closed / really opened (evidence
// against vacuity; set by the last c10kAll call).
var c10kClosures, c10kOpens int64

func c10kAll() (cases int64, findings []foundViolation) {
	var closures, opens int64
	defer func() { c10kClosures, c10kOpens = closures, opens }()
	w := NewWorld(FixtureCfg{})
	defer w.Close()
	BuildRoot(w, "R1", NewOpLib())
	q := math.LegacyNewDecWithPrec(1, 18)
	bot := w.A("bot").Addr.String()
	base := func() sdk.Context {
		c, _ := w.Ctx().CacheContext()
		return c.WithBlockHeight(w.Height() + 1).WithBlockTime(time.Unix(w.Env.Tm+5, 0).UTC())
	}
	deliver := func(ctx sdk.Context, msg sdk.Msg) error {
		c, write := ctx.CacheContext()
		_, err := w.App.MsgServiceRouter().Handler(msg)(c, msg)
		if err == nil {
			write()
		}
		return err
	}
	report := func(clause, disc, detail string, in string) {
		for _, f := range findings {
			if f.Clause == clause && f.Disc == disc {
				return
			}
		}
		findings = append(findings, foundViolation{Finding: Finding{Clause: clause, Culprit: "boundary", Disc: disc, Detail: detail}, Root: "K", Trace: []string{in}})
	}
	// ---- leveraged LP: position 1 of t1
	{
		ctx := base()
		pos := w.LLPsOf("t1")
		if len(pos) > 0 {
			p := pos[0]
			h, err := w.App.LeveragelpKeeper.GetPositionHealth(ctx, p)
			if err == nil {
				for _, d := range []struct {
					name  string
					sf    math.LegacyDec
					close bool
				}{{"factor=health-1e-18", h.Sub(q), false}, {"factor=health", h, true}, {"factor=health+1e-18", h.Add(q), true}} {
					c, _ := ctx.CacheContext()
					prm := w.App.LeveragelpKeeper.GetParams(c)
					prm.SafetyFactor = d.sf
					if err := w.App.LeveragelpKeeper.SetParams(c, &prm); err != nil {
						continue
					}
					cases++
					deliver(c, &llptypes.MsgClosePositions{Creator: bot, Liquidate: []*llptypes.PositionRequest{{Address: p.Address, Id: p.Id}}})
					_, still := w.App.LeveragelpKeeper.GetPositionWithId(c, sdk.MustAccAddressFromBech32(p.Address), p.Id)
					if still == d.close {
						report("liquidation_boundary", "module=llp,"+d.name, fmt.Sprintf("leveraged-LP position %d with health %s and safety factor %s: closed by a third party = %v, expected %v", p.Id, h, d.sf, !still, d.close), d.name)
					}
				}
			}
		}
	}
	// ---- perpetual: every stored MTP, liquidation boundary and trigger-price boundaries
	for _, m := range w.App.PerpetualKeeper.GetAllMTPs(base()) {
		m := m
		ctx := base()
		k := w.App.PerpetualKeeper
		owner := sdk.MustAccAddressFromBech32(m.Address)
		// health exactly as the handler will see it: settle first on a scratch branch
		hctx, _ := ctx.CacheContext()
		pool, _ := k.GetPool(hctx, m.AmmPoolId)
		ammPool, err := k.GetAmmPool(hctx, m.AmmPoolId)
		if err != nil {
			continue
		}
		mm := m
		k.UpdateMTPBorrowInterestUnpaidLiability(hctx, &mm)
		if _, err := k.SettleMTPBorrowInterestUnpaidLiability(hctx, &mm, &pool, ammPool); err != nil {
			continue
		}
		if err := k.SettleFunding(hctx, &mm, &pool, ammPool); err != nil {
			continue
		}
		h, err := k.GetMTPHealth(hctx, mm, ammPool, "uusdc")
		if err != nil {
			continue
		}
		for _, d := range []struct {
			name  string
			sf    math.LegacyDec
			close bool
		}{{"factor=health-1e-18", h.Sub(q), false}, {"factor=health", h, true}, {"factor=health+1e-18", h.Add(q), true}} {
			c, _ := ctx.CacheContext()
			prm := k.GetParams(c)
			prm.SafetyFactor = d.sf
			if err := k.SetParams(c, &prm); err != nil {
				continue
			}
			cases++
			deliver(c, &perptypes.MsgClosePositions{Creator: bot, Liquidate: []perptypes.PositionRequest{{Address: m.Address, Id: m.Id}}})
			_, gerr := k.GetMTP(c, owner, m.Id)
			still := gerr == nil
			if !still {
				closures++
			}
			if !still && !d.close {
				report("liquidation_boundary", "module=perp,side="+m.Position.String()+","+d.name, fmt.Sprintf("perpetual position %d with health %s and safety factor %s: closed by a third party = %v, expected %v", m.Id, h, d.sf, !still, d.close), d.name)
			}
		}
		price, err := k.GetAssetPrice(ctx, m.TradingAsset)
		if err != nil {
			continue
		}
		long := m.Position == perptypes.Position_LONG
		for _, list := range []string{"stop_loss", "take_profit"} {
			for _, off := range []int64{-1, 0, 1} {
				trig := price.Add(q.MulInt64(off))
				// long: stop reached iff price <= stop; take-profit reached iff price >= tp. short: mirrored.
				reached := false
				switch {
				case list == "stop_loss" && long:
					reached = price.LTE(trig)
				case list == "stop_loss" && !long:
					reached = price.GTE(trig)
				case list == "take_profit" && long:
					reached = price.GTE(trig)
				default:
					reached = price.LTE(trig)
				}
				c, _ := ctx.CacheContext()
				st := m
				req := &perptypes.MsgClosePositions{Creator: bot}
				if list == "stop_loss" {
					st.StopLossPrice = trig
					req.StopLoss = []perptypes.PositionRequest{{Address: m.Address, Id: m.Id}}
				} else {
					st.TakeProfitPrice = trig
					req.TakeProfit = []perptypes.PositionRequest{{Address: m.Address, Id: m.Id}}
				}
				if err := k.SetMTP(c, &st); err != nil {
					continue
				}
				cases++
				deliver(c, req)
				_, gerr := k.GetMTP(c, owner, m.Id)
				still := gerr == nil
				name := fmt.Sprintf("%s=price%+d quantum", list, off)
				if !still {
					closures++
				}
				if !still && !reached {
					report("trigger_boundary", "module=perp,side="+m.Position.String()+","+name, fmt.Sprintf("perpetual %s position %d, market price %s, %s %s: closed by a third party = %v, trigger reached = %v", m.Position, m.Id, price, list, trig, !still, reached), name)
				}
			}
		}
	}
	// ---- opens: safety factor at exactly the health the open ends with
	type openCase struct {
		name string
		msg  func() sdk.Msg
	}
	atom := w.Env.Atom
	var ocs []openCase
	for _, lev := range []string{"1", "1.5", "2", "3", "5", "9"} {
		lev := lev
		ocs = append(ocs,
			openCase{"llp.open(t2,x" + lev + ")", func() sdk.Msg { return llpOpen(w.A("t2"), lev, 1e9, "0") }},
			openCase{"llp.open(t1,x" + lev + ",consolidating)", func() sdk.Msg { return llpOpen(w.A("t1"), lev, 5e8, "0") }},
		)
	}
	for _, lev := range []string{"0", "1.5", "2", "3", "5", "9"} {
		lev := lev
		ocs = append(ocs,
			openCase{"perp.open(t3,long,x" + lev + ")", func() sdk.Msg {
				return perpOpen(w.A("t3"), perptypes.Position_LONG, lev, C("uusdc", 1e9), mulDecStr(atom, "1.6"))
			}},
			openCase{"perp.open(t3,long,atom_collateral,x" + lev + ")", func() sdk.Msg {
				return perpOpen(w.A("t3"), perptypes.Position_LONG, lev, C("uatom", 2e8), mulDecStr(atom, "1.6"))
			}},
			openCase{"perp.open(t3,short,x" + lev + ")", func() sdk.Msg {
				return perpOpen(w.A("t3"), perptypes.Position_SHORT, lev, C("uusdc", 1e9), mulDecStr(atom, "0.4"))
			}},
			openCase{"perp.open(t1,long,x" + lev + ",consolidating)", func() sdk.Msg {
				return perpOpen(w.A("t1"), perptypes.Position_LONG, lev, C("uusdc", 5e8), mulDecStr(atom, "1.6"))
			}},
			openCase{"perp.open(t2,short,x" + lev + ",consolidating)", func() sdk.Msg {
				return perpOpen(w.A("t2"), perptypes.Position_SHORT, lev, C("uusdc", 5e8), mulDecStr(atom, "0.4"))
			}},
		)
	}
	// health of the position the message touched, (a) as stored by the handler, (b) recomputed from
	// the state the handler left
	healthAfter := func(c sdk.Context, msg sdk.Msg) (stored, recomputed math.LegacyDec, ok bool) {
		switch m := msg.(type) {
		case *llptypes.MsgOpen:
			var last *llptypes.Position
			for _, p := range w.App.LeveragelpKeeper.GetAllPositions(c) {
				p := p
				if p.Address == m.Creator && p.AmmPoolId == m.AmmPoolId {
					last = &p
				}
			}
			if last == nil {
				return
			}
			h, err := w.App.LeveragelpKeeper.GetPositionHealth(c, *last)
			if err != nil {
				return
			}
			return last.PositionHealth, h, true
		case *perptypes.MsgOpen:
			k := w.App.PerpetualKeeper
			var last *perptypes.MTP
			for _, p := range k.GetAllMTPs(c) {
				p := p
				if p.Address == m.Creator && p.Position == m.Position && p.AmmPoolId == m.PoolId {
					if last == nil || p.Id > last.Id {
						last = &p
					}
				}
			}
			if last == nil {
				return
			}
			ammPool, err := k.GetAmmPool(c, last.AmmPoolId)
			if err != nil {
				return
			}
			h, err := k.GetMTPHealth(c, *last, ammPool, "uusdc")
			if err != nil {
				return
			}
			return last.MtpHealth, h, true
		}
		return
	}
	setSF := func(c sdk.Context, msg sdk.Msg, sf math.LegacyDec) bool {
		switch msg.(type) {
		case *llptypes.MsgOpen:
			prm := w.App.LeveragelpKeeper.GetParams(c)
			prm.SafetyFactor = sf
			return w.App.LeveragelpKeeper.SetParams(c, &prm) == nil
		default:
			prm := w.App.PerpetualKeeper.GetParams(c)
			prm.SafetyFactor = sf
			return w.App.PerpetualKeeper.SetParams(c, &prm) == nil
		}
	}
	// prepared ground "owner_tier_drops": the owner (t3) was rich yesterday — the tier module holds yesterday's
	// portfolio, recorded the way its hook does — and has moved nearly everything out since: the first action
	// of today makes the hooks record a SMALL portfolio, the fee tier falls from the top one to the bottom
	// one INSIDE the open (the plain cases only see it rise)
	prepare := func(ctx sdk.Context, ground string) {
		if ground != "owner_tier_drops" {
			return
		}
		t3 := w.A("t3").Addr
		y := ctx.BlockTime().AddDate(0, 0, -1).Format("2006-01-02")
		w.App.TierKeeper.SetPortfolio(ctx, tiertypes.NewPortfolioWithContextDate(y, t3, math.LegacyNewDec(1e12)))
		for _, c := range w.App.BankKeeper.GetAllBalances(ctx, t3) {
			keep := math.NewInt(3e9)
			if c.Amount.GT(keep) {
				_ = w.App.BankKeeper.SendCoins(ctx, t3, w.A("donor").Addr, sdk.NewCoins(sdk.NewCoin(c.Denom, c.Amount.Sub(keep))))
			}
		}
	}
	type ocRun struct {
		oc     openCase
		ground string
	}
	var runs []ocRun
	for _, oc := range ocs {
		runs = append(runs, ocRun{oc, ""})
	}
	for _, oc := range ocs {
		if strings.Contains(oc.name, "(t3,") {
			runs = append(runs, ocRun{openCase{oc.name + ",ground=owner_tier_drops", oc.msg}, "owner_tier_drops"})
		}
	}
	for _, rn := range runs {
		oc := rn.oc
		ctx := base()
		prepare(ctx, rn.ground)
		dry, _ := ctx.CacheContext()
		msg := oc.msg()
		if err := deliver(dry, msg); err != nil {
			if os.Getenv("VERIF_DEBUG_C10K") != "" {
				fmt.Println("C10K open refused at the configured factor:", oc.name, err)
			}
			continue
		}
		hs, hr, ok := healthAfter(dry, msg)
		if !ok {
			continue
		}
		if os.Getenv("VERIF_DEBUG_C10K") != "" {
			fmt.Println("C10K", oc.name, "stored", hs, "recomputed", hr)
			if pm, ok := msg.(*perptypes.MsgOpen); ok {
				ad := sdk.MustAccAddressFromBech32(pm.Creator)
				_, t0 := w.App.TierKeeper.GetMembershipTier(ctx, ad)
				_, t1 := w.App.TierKeeper.GetMembershipTier(dry, ad)
				fmt.Println("   tier before", t0.Discount, "after", t1.Discount)
			}
		}
		seen := map[string]bool{}
		for bi, b0 := range []math.LegacyDec{hs, hr} {
			for _, off := range []int64{-1, 0, 1} {
				sf := b0.Add(q.MulInt64(off))
				if seen[sf.String()] || !sf.IsPositive() {
					continue
				}
				seen[sf.String()] = true
				c, _ := ctx.CacheContext()
				if !setSF(c, msg, sf) {
					continue
				}
				cases++
				if err := deliver(c, oc.msg()); err != nil {
					continue
				}
				opens++
				s2, r2, ok := healthAfter(c, msg)
				if !ok {
					continue
				}
				if s2.LTE(sf) || r2.LTE(sf) {
					// mechanism: did the handler's own gate see a health at or below the factor, or did it see a
					// healthy position that the state it left (hooks included) no longer shows?
					mech := "gate_admitted_health_at_or_below_factor"
					if s2.GT(sf) {
						mech = "health_seen_by_gate_above_factor_but_health_of_state_left_not"
					}
					// what it means: can a third party force-close it in the very same block?
					closedNow := false
					switch m := msg.(type) {
					case *perptypes.MsgOpen:
						before := len(w.App.PerpetualKeeper.GetAllMTPs(c))
						var reqs []perptypes.PositionRequest
						for _, p := range w.App.PerpetualKeeper.GetAllMTPs(c) {
							if p.Address == m.Creator {
								reqs = append(reqs, perptypes.PositionRequest{Address: p.Address, Id: p.Id})
							}
						}
						deliver(c, &perptypes.MsgClosePositions{Creator: bot, Liquidate: reqs})
						closedNow = len(w.App.PerpetualKeeper.GetAllMTPs(c)) < before
					case *llptypes.MsgOpen:
						before := len(w.App.LeveragelpKeeper.GetAllPositions(c))
						var reqs []*llptypes.PositionRequest
						for _, p := range w.App.LeveragelpKeeper.GetAllPositions(c) {
							if p.Address == m.Creator {
								reqs = append(reqs, &llptypes.PositionRequest{Address: p.Address, Id: p.Id})
							}
						}
						deliver(c, &llptypes.MsgClosePositions{Creator: bot, Liquidate: reqs})
						closedNow = len(w.App.LeveragelpKeeper.GetAllPositions(c)) < before
					}
					name := fmt.Sprintf("%s,factor=%s%+d quantum", oc.name, map[int]string{0: "stored_health", 1: "state_health"}[bi], off)
					report("open_boundary", "mech="+mech+","+name, fmt.Sprintf("%s succeeded with safety factor %s and left the position with health %s (stored by the handler) / %s (recomputed from the state it left): not strictly above the factor; a third party's MsgClosePositions{Liquidate} in the same block closed it: %v", oc.name, sf, s2, r2, closedNow), name)
				}
			}
		}
	}
	return
}
