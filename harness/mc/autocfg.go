//go:build verif

package mc

import (
	"fmt"
	"reflect"
	"sort"

	"cosmossdk.io/math"
	sdk "github.com/cosmos/cosmos-sdk/types"
	ammtypes "github.com/elys-network/elys/x/amm/types"
	burnertypes "github.com/elys-network/elys/x/burner/types"
	estypes "github.com/elys-network/elys/x/estaking/types"
	llptypes "github.com/elys-network/elys/x/leveragelp/types"
	mctypes "github.com/elys-network/elys/x/masterchef/types"
	oracletypes "github.com/elys-network/elys/x/oracle/types"
	perptypes "github.com/elys-network/elys/x/perpetual/types"
	sstypes "github.com/elys-network/elys/x/stablestake/types"
	tstypes "github.com/elys-network/elys/x/tradeshield/types"
)

// Configuration-boundary sweep (C18): for every module that has a governance MsgUpdateParams, every
// numeric / boolean top-level field of its Params is set, ONE field at a time, to its boundary values
// (0 and 1 for integers, 0 / 1e-18 / 1 for decimals, the other value for booleans). The message goes
// through its own ValidateBasic and the real router handler: what validation ACCEPTS is a
// configuration governance can put the chain in, and block processing must survive it.
// The field list comes from reflection over the Params types, so a new parameter is swept without
// anybody remembering to add it.

type autoMod struct {
	Name string
	Zero interface{} // zero Params value (for the static field enumeration)
	Get  func(w *World, ctx sdk.Context) interface{}
	Msg  func(gov string, p interface{}) sdk.Msg
}

func autoMods() []autoMod {
	return []autoMod{
		{"amm", ammtypes.Params{}, func(w *World, c sdk.Context) interface{} { p := w.App.AmmKeeper.GetParams(c); return &p },
			func(g string, p interface{}) sdk.Msg { return &ammtypes.MsgUpdateParams{Authority: g, Params: p.(*ammtypes.Params)} }},
		{"leveragelp", llptypes.Params{}, func(w *World, c sdk.Context) interface{} { p := w.App.LeveragelpKeeper.GetParams(c); return &p },
			func(g string, p interface{}) sdk.Msg { return &llptypes.MsgUpdateParams{Authority: g, Params: p.(*llptypes.Params)} }},
		{"perpetual", perptypes.Params{}, func(w *World, c sdk.Context) interface{} { p := w.App.PerpetualKeeper.GetParams(c); return &p },
			func(g string, p interface{}) sdk.Msg { return &perptypes.MsgUpdateParams{Authority: g, Params: p.(*perptypes.Params)} }},
		{"stablestake", sstypes.Params{}, func(w *World, c sdk.Context) interface{} { p := w.App.StablestakeKeeper.GetParams(c); return &p },
			func(g string, p interface{}) sdk.Msg { return &sstypes.MsgUpdateParams{Authority: g, Params: p.(*sstypes.Params)} }},
		{"masterchef", mctypes.Params{}, func(w *World, c sdk.Context) interface{} { p := w.App.MasterchefKeeper.GetParams(c); return &p },
			func(g string, p interface{}) sdk.Msg { return &mctypes.MsgUpdateParams{Authority: g, Params: *p.(*mctypes.Params)} }},
		{"estaking", estypes.Params{}, func(w *World, c sdk.Context) interface{} { p := w.App.EstakingKeeper.GetParams(c); return &p },
			func(g string, p interface{}) sdk.Msg { return &estypes.MsgUpdateParams{Authority: g, Params: *p.(*estypes.Params)} }},
		{"oracle", oracletypes.Params{}, func(w *World, c sdk.Context) interface{} { p := w.App.OracleKeeper.GetParams(c); return &p },
			func(g string, p interface{}) sdk.Msg { return &oracletypes.MsgUpdateParams{Authority: g, Params: *p.(*oracletypes.Params)} }},
		{"tradeshield", tstypes.Params{}, func(w *World, c sdk.Context) interface{} { p := w.App.TradeshieldKeeper.GetParams(c); return &p },
			func(g string, p interface{}) sdk.Msg { return &tstypes.MsgUpdateParams{Authority: g, Params: p.(*tstypes.Params)} }},
		{"burner", burnertypes.Params{}, func(w *World, c sdk.Context) interface{} { p := w.App.BurnerKeeper.GetParams(c); return &p },
			func(g string, p interface{}) sdk.Msg { return &burnertypes.MsgUpdateParams{Authority: g, Params: *p.(*burnertypes.Params)} }},
	}
}

type autoCfg struct {
	Mod   string
	Field string
	Idx   int
	Cand  string
}

func (a autoCfg) Name() string { return fmt.Sprintf("cfgauto_%s_%s=%s", a.Mod, a.Field, a.Cand) }

var intType = reflect.TypeOf(math.Int{})
var decType = reflect.TypeOf(math.LegacyDec{})

// AutoCfgs is the static enumeration (module, field, boundary value).
func AutoCfgs() []autoCfg {
	var out []autoCfg
	for _, m := range autoMods() {
		t := reflect.TypeOf(m.Zero)
		for i := 0; i < t.NumField(); i++ {
			f := t.Field(i)
			if !f.IsExported() {
				continue
			}
			var cands []string
			switch {
			case f.Type == intType:
				cands = []string{"0", "1"}
			case f.Type == decType:
				cands = []string{"0", "0.000000000000000001", "1"}
			case f.Type.Kind() == reflect.Int64 || f.Type.Kind() == reflect.Uint64 || f.Type.Kind() == reflect.Int32 || f.Type.Kind() == reflect.Uint32:
				cands = []string{"0", "1"}
			case f.Type.Kind() == reflect.Bool:
				cands = []string{"toggle"}
			}
			for _, c := range cands {
				out = append(out, autoCfg{m.Name, f.Name, i, c})
			}
		}
	}
	sort.Slice(out, func(i, j int) bool { return out[i].Name() < out[j].Name() })
	return out
}

func (a autoCfg) gov(w *World) func(ctx sdk.Context) error {
	return func(ctx sdk.Context) error {
		for _, m := range autoMods() {
			if m.Name != a.Mod {
				continue
			}
			p := m.Get(w, ctx)
			fv := reflect.ValueOf(p).Elem().Field(a.Idx)
			switch {
			case fv.Type() == intType:
				v, _ := math.NewIntFromString(a.Cand)
				fv.Set(reflect.ValueOf(v))
			case fv.Type() == decType:
				fv.Set(reflect.ValueOf(math.LegacyMustNewDecFromStr(a.Cand)))
			case fv.Kind() == reflect.Bool:
				fv.SetBool(!fv.Bool())
			case fv.Kind() == reflect.Int64 || fv.Kind() == reflect.Int32:
				if a.Cand == "1" {
					fv.SetInt(1)
				} else {
					fv.SetInt(0)
				}
			case fv.Kind() == reflect.Uint64 || fv.Kind() == reflect.Uint32:
				if a.Cand == "1" {
					fv.SetUint(1)
				} else {
					fv.SetUint(0)
				}
			}
			msg := m.Msg(w.Gov, p)
			if err := vb(msg); err != nil {
				return fmt.Errorf("refused by ValidateBasic: %w", err)
			}
			h := w.App.MsgServiceRouter().Handler(msg)
			if h == nil {
				return fmt.Errorf("no handler for %s", sdk.MsgTypeURL(msg))
			}
			var err error
			func() {
				defer func() {
					if r := recover(); r != nil {
						err = fmt.Errorf("handler panic: %v", r)
					}
				}()
				_, err = h(ctx, msg)
			}()
			return err
		}
		return fmt.Errorf("unknown module %s", a.Mod)
	}
}

func addAutoCfgOps(l *OpLib) {
	for _, a := range AutoCfgs() {
		a := a
		// cost 2: a deviation budget of 3 admits ONE configuration change per path plus one environment op
		l.Add(a.Name(), "config", 2, func(w *World, p *BlockPlan) { p.Gov = append(p.Gov, a.gov(w)) })
	}
}

func autoCfgOpNames() []string {
	var out []string
	for _, a := range AutoCfgs() {
		out = append(out, a.Name())
	}
	return out
}
