//go:build verif

package mc

import (
	"fmt"
	"reflect"
	"sort"
	"strings"

	"cosmossdk.io/math"
	sdk "github.com/cosmos/cosmos-sdk/types"
	distrtypes "github.com/cosmos/cosmos-sdk/x/distribution/types"
	slashingtypes "github.com/cosmos/cosmos-sdk/x/slashing/types"
	stakingtypes "github.com/cosmos/cosmos-sdk/x/staking/types"
	ammtypes "github.com/elys-network/elys/x/amm/types"
	aptypes "github.com/elys-network/elys/x/assetprofile/types"
	burnertypes "github.com/elys-network/elys/x/burner/types"
	ctypes "github.com/elys-network/elys/x/commitment/types"
	estypes "github.com/elys-network/elys/x/estaking/types"
	llptypes "github.com/elys-network/elys/x/leveragelp/types"
	mctypes "github.com/elys-network/elys/x/masterchef/types"
	oracletypes "github.com/elys-network/elys/x/oracle/types"
	paramtypes "github.com/elys-network/elys/x/parameter/types"
	perptypes "github.com/elys-network/elys/x/perpetual/types"
	sstypes "github.com/elys-network/elys/x/stablestake/types"
	tktypes "github.com/elys-network/elys/x/tokenomics/types"
	tstypes "github.com/elys-network/elys/x/tradeshield/types"
)

// Configuration-boundary sweep (C18): every numeric / decimal / boolean field of every governance
// message is set, ONE field at a time, to its boundary values (0 and 1 for integers, 0 / 1e-18 / 1 for
// decimals, the other value for booleans). The message goes through its own ValidateBasic and the
// real router handler: what validation ACCEPTS is a configuration governance can put the chain in,
// and block processing must survive it. The field list comes from reflection over the message types,
// so a new parameter is swept without anybody remembering to add it.

// The sweep is driven by the SAME well-formed payloads the router enumeration (C17) builds for every
// governance-only message type (38 types: every MsgUpdateParams plus pool parameters, vesting info,
// reward denoms, pool multipliers, inflation entries, airdrops, the parameter module's setters, ...).
// For each type, every numeric / decimal / boolean field of the message and of the structs it embeds
// one level down (Params, PoolParams, Inflation, ...) is swept.

type autoCfg struct {
	URL   string // message type URL
	Path  []int  // field index path (1 or 2 levels)
	Label string // Msg.Field or Msg.Struct.Field
	Cand  string
}

func (a autoCfg) Name() string { return fmt.Sprintf("cfgauto_%s=%s", a.Label, a.Cand) }

var intType = reflect.TypeOf(math.Int{})
var decType = reflect.TypeOf(math.LegacyDec{})

func candsFor(t reflect.Type) []string {
	switch {
	case t == intType:
		return []string{"0", "1"}
	case t == decType:
		return []string{"0", "0.000000000000000001", "1"}
	case t.Kind() == reflect.Int64 || t.Kind() == reflect.Uint64 || t.Kind() == reflect.Int32 || t.Kind() == reflect.Uint32:
		return []string{"0", "1"}
	case t.Kind() == reflect.Bool:
		return []string{"toggle"}
	}
	return nil
}

// autoGovZero lists a zero value of every governance-only message type (kept in step with
// govPayloads by C17's "governance-only message without a payload builder" finding and by
// autoCfgSelfCheck below).
func autoGovZero() []sdk.Msg {
	return []sdk.Msg{
		&ammtypes.MsgUpdatePoolParams{}, &ammtypes.MsgUpdateParams{}, &aptypes.MsgUpdateEntry{}, &burnertypes.MsgUpdateParams{},
		&ctypes.MsgUpdateVestingInfo{}, &ctypes.MsgUpdateEnableVestNow{}, &estypes.MsgUpdateParams{}, &llptypes.MsgUpdateParams{},
		&llptypes.MsgAddPool{}, &mctypes.MsgAddExternalRewardDenom{}, &mctypes.MsgUpdateParams{}, &mctypes.MsgTogglePoolEdenRewards{},
		&oracletypes.MsgUpdateParams{}, &perptypes.MsgUpdateParams{}, &sstypes.MsgUpdateParams{}, &tktypes.MsgUpdateGenesisInflation{},
		&tktypes.MsgCreateTimeBasedInflation{}, &tktypes.MsgUpdateTimeBasedInflation{}, &tktypes.MsgCreateAirdrop{}, &tktypes.MsgUpdateAirdrop{},
		&tstypes.MsgUpdateParams{}, &paramtypes.MsgUpdateMinCommission{}, &paramtypes.MsgUpdateMaxVotingPower{}, &paramtypes.MsgUpdateMinSelfDelegation{},
		&paramtypes.MsgUpdateTotalBlocksPerYear{}, &paramtypes.MsgUpdateRewardsDataLifetime{},
		// parameters of the SDK modules the chain's own begin-/end-blockers read (governance can move them too)
		&distrtypes.MsgUpdateParams{}, &stakingtypes.MsgUpdateParams{}, &slashingtypes.MsgUpdateParams{},
	}
}

// sdkGovTemplates: well-formed payloads (current parameters) of the SDK-module governance messages of the sweep.
func sdkGovTemplates(w *World, ctx sdk.Context) map[string]sdk.Msg {
	out := map[string]sdk.Msg{}
	if p, err := w.App.DistrKeeper.Params.Get(ctx); err == nil {
		m := &distrtypes.MsgUpdateParams{Params: p}
		out[sdk.MsgTypeURL(m)] = m
	}
	if p, err := w.App.StakingKeeper.GetParams(ctx); err == nil {
		m := &stakingtypes.MsgUpdateParams{Params: p}
		out[sdk.MsgTypeURL(m)] = m
	}
	if p, err := w.App.SlashingKeeper.GetParams(ctx); err == nil {
		m := &slashingtypes.MsgUpdateParams{Params: p}
		out[sdk.MsgTypeURL(m)] = m
	}
	return out
}

// AutoCfgs is the static enumeration (message type, field path, boundary value).
// relCands: valid NON-boundary values — half and double of the value currently stored (numeric fields only)
func relCands(t reflect.Type) []string {
	switch {
	case t == intType, t == decType, t.Kind() == reflect.Int64, t.Kind() == reflect.Uint64, t.Kind() == reflect.Int32, t.Kind() == reflect.Uint32:
		return []string{"x0.5", "x2"}
	}
	return nil
}

// AutoCfgsRel: the sweep over the same fields with the relative candidates.
func AutoCfgsRel() []autoCfg {
	var out []autoCfg
	for _, a := range autoCfgsWith(relCands) {
		out = append(out, a)
	}
	return out
}

func AutoCfgs() []autoCfg { return autoCfgsWith(candsFor) }

func autoCfgsWith(candsFor func(reflect.Type) []string) []autoCfg {
	var out []autoCfg
	for _, z := range autoGovZero() {
		url := sdk.MsgTypeURL(z)
		t := reflect.TypeOf(z).Elem()
		short := strings.TrimPrefix(strings.TrimPrefix(url, "/elys."), "/")
		for i := 0; i < t.NumField(); i++ {
			f := t.Field(i)
			if !f.IsExported() {
				continue
			}
			for _, c := range candsFor(f.Type) {
				out = append(out, autoCfg{url, []int{i}, short + "." + f.Name, c})
			}
			ft := f.Type
			if ft.Kind() == reflect.Ptr {
				ft = ft.Elem()
			}
			if ft.Kind() == reflect.Struct && ft != intType && ft != decType {
				for j := 0; j < ft.NumField(); j++ {
					g := ft.Field(j)
					if !g.IsExported() {
						continue
					}
					for _, c := range candsFor(g.Type) {
						out = append(out, autoCfg{url, []int{i, j}, short + "." + f.Name + "." + g.Name, c})
					}
				}
			}
		}
	}
	sort.Slice(out, func(i, j int) bool { return out[i].Name() < out[j].Name() })
	return out
}

func setBoundary(fv reflect.Value, cand string) {
	if cand == "x0.5" || cand == "x2" {
		num, den := int64(1), int64(2)
		if cand == "x2" {
			num, den = 2, 1
		}
		switch {
		case fv.Type() == intType:
			v := fv.Interface().(math.Int)
			if !v.IsNil() {
				fv.Set(reflect.ValueOf(v.MulRaw(num).QuoRaw(den)))
			}
		case fv.Type() == decType:
			v := fv.Interface().(math.LegacyDec)
			if !v.IsNil() {
				fv.Set(reflect.ValueOf(v.MulInt64(num).QuoInt64(den)))
			}
		case fv.Kind() == reflect.Int64 || fv.Kind() == reflect.Int32:
			fv.SetInt(fv.Int() * num / den)
		case fv.Kind() == reflect.Uint64 || fv.Kind() == reflect.Uint32:
			fv.SetUint(fv.Uint() * uint64(num) / uint64(den))
		}
		return
	}
	switch {
	case fv.Type() == intType:
		v, _ := math.NewIntFromString(cand)
		fv.Set(reflect.ValueOf(v))
	case fv.Type() == decType:
		fv.Set(reflect.ValueOf(math.LegacyMustNewDecFromStr(cand)))
	case fv.Kind() == reflect.Bool:
		fv.SetBool(!fv.Bool())
	case fv.Kind() == reflect.Int64 || fv.Kind() == reflect.Int32:
		if cand == "1" {
			fv.SetInt(1)
		} else {
			fv.SetInt(0)
		}
	case fv.Kind() == reflect.Uint64 || fv.Kind() == reflect.Uint32:
		if cand == "1" {
			fv.SetUint(1)
		} else {
			fv.SetUint(0)
		}
	}
}

func (a autoCfg) gov(w *World) func(ctx sdk.Context) error {
	return func(ctx sdk.Context) error {
		tpl := govPayloadsAt(w, ctx)[a.URL]
		if tpl == nil {
			tpl = sdkGovTemplates(w, ctx)[a.URL]
		}
		if tpl == nil {
			return fmt.Errorf("no payload template for %s", a.URL)
		}
		msg := cloneMsg(tpl)
		sf, err := signerField(strings.TrimPrefix(a.URL, "/"))
		if err != nil {
			return err
		}
		if err := setField(msg, sf, w.Gov); err != nil {
			return err
		}
		fv := reflect.ValueOf(msg).Elem().Field(a.Path[0])
		if len(a.Path) == 2 {
			if fv.Kind() == reflect.Ptr {
				if fv.IsNil() {
					fv.Set(reflect.New(fv.Type().Elem()))
				}
				fv = fv.Elem()
			}
			fv = fv.Field(a.Path[1])
		}
		setBoundary(fv, a.Cand)
		if err := vb(msg); err != nil {
			return fmt.Errorf("refused by ValidateBasic: %w", err)
		}
		h := w.App.MsgServiceRouter().Handler(msg)
		if h == nil {
			return fmt.Errorf("no handler for %s", a.URL)
		}
		func() {
			defer func() {
				if r := recover(); r != nil {
					err = fmt.Errorf("handler panic: %v", r)
				}
			}()
			_, err = h(ctx, msg)
		}()
		return err
	}
}

func addAutoCfgOps(l *OpLib) {
	for _, a := range append(AutoCfgs(), AutoCfgsRel()...) {
		a := a
		// cost 2: a deviation budget of 3 admits ONE configuration change per path plus one environment op
		l.Add(a.Name(), "config", 2, func(w *World, p *BlockPlan) { p.Gov = append(p.Gov, a.gov(w)) })
	}
}

func autoCfgOpNames() []string {
	var out []string
	for _, a := range AutoCfgs() {
		out = append(out, a.Name())
	}
	return out
}

// autoCfgOpNamesFor returns the sweep ops of the message types whose URL contains sub.
func autoCfgOpNamesFor(sub string) []string {
	var out []string
	for _, a := range AutoCfgs() {
		if strings.Contains(a.URL, sub) {
			out = append(out, a.Name())
		}
	}
	return out
}

// autoCfgAllNamesFor: boundary AND relative candidates of the message types whose URL contains one of subs.
func autoCfgAllNamesFor(subs ...string) []string {
	var out []string
	for _, a := range append(AutoCfgs(), AutoCfgsRel()...) {
		for _, sub := range subs {
			if strings.Contains(a.URL, sub) {
				out = append(out, a.Name())
				break
			}
		}
	}
	return out
}
