//go:build verif

package mc

import (
	banktypes "github.com/cosmos/cosmos-sdk/x/bank/types"
	"encoding/json"
	"fmt"
	"os"
	"strings"
	"time"

	"cosmossdk.io/math"
	sdk "github.com/cosmos/cosmos-sdk/types"
	ammtypes "github.com/elys-network/elys/x/amm/types"
	oracletypes "github.com/elys-network/elys/x/oracle/types"
)

// C04 (Engine W, batch enumeration): every ordered selection of <= 3 swap requests out of a
// 18-request alphabet is placed in ONE real block (each request has its own sender and, where
// stated, its own recipient so that balance deltas are attributable), alone and together with one
// price-moving transaction before or after them; the block is followed by an empty block.

type c04Req struct {
	Name     string
	Sender   string
	Recip    string // "" = sender
	In, Out  string
	ExactOut bool
	Amt      int64 // token in (exact-in) / token out (exact-out)
	Limit    int64 // min out (exact-in) / max in (exact-out)
	Mid      string
	Build    func(w *World, r *c04Req) sdk.Msg
	// Quote > 0: the limit is not a constant but Quote x what a DRY RUN of this very request on the
	// pre-block state pays the recipient (bonus included) — how a front end sets a slippage limit
	Quote float64
}

func c04Requests() []c04Req {
	in := func(r *c04Req, routes ...ammtypes.SwapAmountInRoute) func(w *World, r *c04Req) sdk.Msg {
		return func(w *World, r *c04Req) sdk.Msg {
			rc := ""
			if r.Recip != "" {
				rc = w.A(r.Recip).Addr.String()
			}
			return swapIn(w.A(r.Sender), rc, C(r.In, r.Amt), r.Limit, routes...)
		}
	}
	out := func(r *c04Req, routes ...ammtypes.SwapAmountOutRoute) func(w *World, r *c04Req) sdk.Msg {
		return func(w *World, r *c04Req) sdk.Msg {
			rc := ""
			if r.Recip != "" {
				rc = w.A(r.Recip).Addr.String()
			}
			return swapOut(w.A(r.Sender), rc, C(r.Out, r.Amt), r.Limit, routes...)
		}
	}
	rs := []c04Req{
		{Name: "in_p1_usdc_atom_dust_loose", Sender: "q0", In: "uusdc", Out: "uatom", Amt: 1000, Limit: 1},
		{Name: "in_p1_usdc_atom_large_tight", Sender: "q1", In: "uusdc", Out: "uatom", Amt: 5e10, Limit: 9850000000},
		{Name: "in_p1_usdc_atom_large_unattainable", Sender: "q2", In: "uusdc", Out: "uatom", Amt: 5e10, Limit: 11000000000},
		{Name: "in_p1_atom_usdc_large_loose_to_r3", Sender: "q3", Recip: "r3", In: "uatom", Out: "uusdc", Amt: 1e10, Limit: 1},
		{Name: "out_p1_usdc_for_atom_loose", Sender: "q4", In: "uusdc", Out: "uatom", ExactOut: true, Amt: 1e9, Limit: 1e11},
		{Name: "out_p1_atom_for_usdc_tight", Sender: "q5", In: "uatom", Out: "uusdc", ExactOut: true, Amt: 5e9, Limit: 1015000000},
		{Name: "in_2hop_elys_usdc_atom_tight_to_r6", Sender: "q6", Recip: "r6", In: "uelys", Out: "uatom", Amt: 1e10, Limit: 5900000000, Mid: "uusdc"},
		{Name: "out_2hop_atom_usdc_elys_loose", Sender: "q7", In: "uatom", Out: "uelys", ExactOut: true, Amt: 1e9, Limit: 1e12, Mid: "uusdc"},
		{Name: "bydenom_usdc_atom", Sender: "q8", In: "uusdc", Out: "uatom", Amt: 1e9, Limit: 1},
		{Name: "in_p2_elys_usdc_tight", Sender: "q9", In: "uelys", Out: "uusdc", Amt: 1e10, Limit: 29000000000},
		{Name: "bydenom_exact_out_atom_for_usdc", Sender: "r0", In: "uusdc", Out: "uatom", ExactOut: true, Amt: 5e8, Limit: 1e10},
		{Name: "in_p3_atom_usdc_quoted_997_r1", Sender: "r1", In: "uatom", Out: "uusdc", Amt: 5e8, Quote: 0.997},
		{Name: "in_p3_atom_usdc_quoted_997_r2", Sender: "r2", In: "uatom", Out: "uusdc", Amt: 5e8, Quote: 0.997},
		// exact-out over two hops whose LATER hop is the oracle pool (its real charge includes the
		// weight-breaking fee, the per-hop estimate does not); the sender also holds the intermediate denom
		{Name: "out_2hop_elys_usdc_atom_large_loose", Sender: "r4", In: "uelys", Out: "uatom", ExactOut: true, Amt: 2e10, Limit: 1e13, Mid: "uusdc"},
		{Name: "out_2hop_elys_usdc_atom_small_loose", Sender: "r5", In: "uelys", Out: "uatom", ExactOut: true, Amt: 1e8, Limit: 1e13, Mid: "uusdc"},
		// swap-by-denom with a limit QUOTED from its own dry run (99.9 %): the less used of the two message
		// types that end in the same queued request
		{Name: "bydenom_usdc_atom_quoted_999", Sender: "r8", In: "uusdc", Out: "uatom", Amt: 1e9, Quote: 0.999},
		{Name: "bydenom_elys_usdc_quoted_999", Sender: "r7", In: "uelys", Out: "uusdc", Amt: 1e9, Quote: 0.999},
		// an exact-out request whose stated maximum is ZERO (stateless validation does not look at the field)
		{Name: "out_p1_usdc_for_atom_max0", Sender: "r9", In: "uusdc", Out: "uatom", ExactOut: true, Amt: 1e6, Limit: 0},
	}
	rs[0].Build = in(&rs[0], rin(1, "uatom"))
	rs[1].Build = in(&rs[1], rin(1, "uatom"))
	rs[2].Build = in(&rs[2], rin(1, "uatom"))
	rs[3].Build = in(&rs[3], rin(1, "uusdc"))
	rs[4].Build = out(&rs[4], rout(1, "uusdc"))
	rs[5].Build = out(&rs[5], rout(1, "uatom"))
	rs[6].Build = in(&rs[6], rin(2, "uusdc"), rin(1, "uatom"))
	rs[7].Build = out(&rs[7], rout(1, "uatom"), rout(2, "uusdc"))
	rs[8].Build = func(w *World, r *c04Req) sdk.Msg {
		return &ammtypes.MsgSwapByDenom{Sender: w.A(r.Sender).Addr.String(), Amount: C("uusdc", r.Amt), MinAmount: C("uatom", r.Limit), DenomIn: "uusdc", DenomOut: "uatom"}
	}
	rs[9].Build = in(&rs[9], rin(2, "uusdc"))
	rs[11].Build = in(&rs[11], rin(3, "uusdc"))
	rs[12].Build = in(&rs[12], rin(3, "uusdc"))
	rs[13].Build = out(&rs[13], rout(2, "uelys"), rout(1, "uusdc"))
	rs[14].Build = out(&rs[14], rout(2, "uelys"), rout(1, "uusdc"))
	rs[15].Build = func(w *World, r *c04Req) sdk.Msg {
		return &ammtypes.MsgSwapByDenom{Sender: w.A(r.Sender).Addr.String(), Amount: C("uusdc", r.Amt), MinAmount: C("uatom", r.Limit), DenomIn: "uusdc", DenomOut: "uatom"}
	}
	rs[16].Build = func(w *World, r *c04Req) sdk.Msg {
		return &ammtypes.MsgSwapByDenom{Sender: w.A(r.Sender).Addr.String(), Amount: C("uelys", r.Amt), MinAmount: C("uusdc", r.Limit), DenomIn: "uelys", DenomOut: "uusdc"}
	}
	rs[17].Build = out(&rs[17], rout(1, "uusdc"))
	rs[10].Build = func(w *World, r *c04Req) sdk.Msg {
		// exact-out by denom: Amount is the wanted OUT amount; MaxAmount (denominated in the out denom by
		// the message's own rule) caps the input
		return &ammtypes.MsgSwapByDenom{Sender: w.A(r.Sender).Addr.String(), Amount: C("uatom", r.Amt), MaxAmount: C("uatom", r.Limit), DenomIn: "uusdc", DenomOut: "uatom"}
	}
	return rs
}

// c04FailingSecond is not a companion transaction: it marks units whose first request shares its transaction
// with a message that fails (see c04Plan)
const c04FailingSecond = "failing_second_message_in_the_request_tx"

var c04Companions = []string{"none", "join_p1", "exit_p1", "big_opposite_swap", "price_up", "price_down"}

func c04Companion(w *World, kind string) *PlannedTx {
	switch kind {
	case "join_p1":
		a := w.A("t1")
		return &PlannedTx{Signer: "t1", Msgs: []sdk.Msg{&ammtypes.MsgJoinPool{Sender: a.Addr.String(), PoolId: 1, MaxAmountsIn: sdk.NewCoins(C("uusdc", 5e11)), ShareAmountOut: I(1)}}}
	case "exit_p1":
		a := w.A("lp1")
		have := w.CommittedOf(a.Addr, ammtypes.GetPoolShareDenom(1))
		return &PlannedTx{Signer: "lp1", Msgs: []sdk.Msg{&ammtypes.MsgExitPool{Sender: a.Addr.String(), PoolId: 1, ShareAmountIn: have.QuoRaw(5), MinAmountsOut: sdk.Coins{}, TokenOutDenom: "uatom"}}}
	case "big_opposite_swap":
		return &PlannedTx{Signer: "t2", Msgs: []sdk.Msg{swapIn(w.A("t2"), "", C("uatom", 1e11), 1, rin(1, "uusdc"))}}
	case "price_up", "price_down":
		p := "6"
		if kind == "price_down" {
			p = "4"
		}
		f := w.A("feeder")
		return &PlannedTx{Signer: "feeder", Msgs: []sdk.Msg{&oracletypes.MsgFeedMultiplePrices{Creator: f.Addr.String(), FeedPrices: []oracletypes.FeedPrice{{Asset: "ATOM", Price: Dec(p), Source: "elys"}}}}}
	}
	return nil
}

type c04Unit struct {
	Root  string `json:"root"`
	Reqs  []int  `json:"reqs"`
	Comp  string `json:"companion"`
	After bool   `json:"companion_after"`
}

func (u c04Unit) String() string {
	rs := c04Requests()
	ns := []string{}
	for _, i := range u.Reqs {
		ns = append(ns, rs[i].Name)
	}
	pos := "before"
	if u.After {
		pos = "after"
	}
	return fmt.Sprintf("%s[%s | companion %s %s]", u.Root, strings.Join(ns, ", "), u.Comp, pos)
}

var c04Denoms = []string{"uusdc", "uatom", "uelys"}

func balOf(w *World, ctx sdk.Context, name string) map[string]math.Int {
	m := map[string]math.Int{}
	for _, d := range c04Denoms {
		m[d] = w.App.BankKeeper.GetBalance(ctx, w.A(name).Addr, d).Amount
	}
	return m
}

func c04Plan(w *World, u c04Unit, reqs []c04Req) *BlockPlan {
	plan := &BlockPlan{Dt: 5, Feed: true}
	comp := c04Companion(w, u.Comp)
	if comp != nil && !u.After {
		plan.Txs = append(plan.Txs, *comp)
	}
	for _, i := range u.Reqs {
		if reqs[i].Quote > 0 {
			// dry run on a discarded branch of the pre-block state: handler + the amm end-blocker
			r := reqs[i]
			r.Limit = 1
			c, _ := w.Ctx().CacheContext()
			c = c.WithBlockHeight(w.Height() + 1).WithBlockTime(time.Unix(w.Env.Tm+5, 0).UTC())
			who := w.A(r.Sender).Addr
			b0 := w.App.BankKeeper.GetBalance(c, who, r.Out).Amount
			m := r.Build(w, &r)
			lim := int64(1)
			if _, err := w.App.MsgServiceRouter().Handler(m)(c, m); err == nil {
				w.App.AmmKeeper.EndBlocker(c)
				got := w.App.BankKeeper.GetBalance(c, who, r.Out).Amount.Sub(b0)
				if got.IsPositive() {
					lim = int64(float64(got.Int64()) * r.Quote)
				}
			}
			reqs[i].Limit = lim
		}
		r := reqs[i]
		msgs := []sdk.Msg{r.Build(w, &r)}
		if u.Comp == c04FailingSecond && len(u.Reqs) > 0 && i == u.Reqs[0] {
			// the FIRST request's transaction carries a second message that fails at delivery: the request was
			// accepted (and queued) by its own message, then the whole transaction is rolled back
			a := w.A(r.Sender)
			msgs = append(msgs, &banktypes.MsgSend{FromAddress: a.Addr.String(), ToAddress: w.A("t3").Addr.String(), Amount: sdk.NewCoins(C("uusdc", 4e18))})
		}
		plan.Txs = append(plan.Txs, PlannedTx{Signer: r.Sender, Msgs: msgs, Tag: r.Name})
	}
	if comp != nil && u.After {
		plan.Txs = append(plan.Txs, *comp)
	}
	return plan
}

func c04RunUnit(x *Explorer, u c04Unit, validate bool) *KStats {
	st := &KStats{Clauses: map[string]int64{}}
	w := x.W
	reqs := c04Requests()
	x.gotoRoot(u.Root)
	v0, env0 := w.Height(), w.Env
	defer w.Rollback(v0, env0)
	bad := func(clause, disc, detail string) {
		st.Findings = append(st.Findings, KFinding{Finding: Finding{Clause: clause, Culprit: "swap_batch", Disc: disc, Detail: detail + "\nblock: " + u.String()}, Input: u, Len: len(u.Reqs) + 1})
	}
	ctx := w.RCtx()
	pre := map[string]map[string]math.Int{}
	accts := []string{}
	for _, i := range u.Reqs {
		accts = append(accts, reqs[i].Sender)
		if reqs[i].Recip != "" {
			accts = append(accts, reqs[i].Recip)
		}
	}
	for _, a := range accts {
		pre[a] = balOf(w, ctx, a)
	}
	plan := c04Plan(w, u, reqs)
	br := w.Exec(plan)
	st.Evaluations++
	if !br.OK() {
		bad("block_failed", "", br.Err)
		return st
	}
	hash1 := br.Hash
	ctx = w.RCtx()
	post := map[string]map[string]math.Int{}
	for _, a := range accts {
		post[a] = balOf(w, ctx, a)
	}
	// tx index of each request
	off := 0
	if u.Comp != "none" && u.Comp != c04FailingSecond && !u.After {
		off = 1
	}
	anyExec := false
	for k, i := range u.Reqs {
		r := reqs[i]
		code := br.Res.TxResults[plan.TxIndex[off+k]].Code
		rc := r.Recip
		if rc == "" {
			rc = r.Sender
		}
		d := func(acct, denom string) math.Int { return post[acct][denom].Sub(pre[acct][denom]) }
		if os.Getenv("VERIF_DEBUG_C04") != "" && r.Quote > 0 {
			fmt.Fprintf(os.Stderr, "C04DBG %s root=%s req=%s limit=%d code=%d log=%q in=%s out=%s\n", u.String(), u.Root, r.Name, r.Limit, code, br.Res.TxResults[plan.TxIndex[off+k]].Log, d(r.Sender, r.In), d(rc, r.Out))
		}
		unchanged := func() bool {
			for _, a := range []string{r.Sender, rc} {
				for _, dn := range c04Denoms {
					if !d(a, dn).IsZero() {
						return false
					}
				}
			}
			return true
		}
		dump := func() string {
			s := ""
			for _, a := range []string{r.Sender, rc} {
				for _, dn := range c04Denoms {
					if !d(a, dn).IsZero() {
						s += fmt.Sprintf(" %s.%s%+d", a, dn, d(a, dn).Int64())
					}
				}
				if a == rc && rc == r.Sender {
					break
				}
			}
			return s
		}
		if code != 0 {
			st.Clauses["rejected_request"]++
			if !unchanged() {
				bad("rejected_swap_moved_funds", "form="+form(r), fmt.Sprintf("request %s was rejected (code %d) yet balances changed:%s", r.Name, code, dump()))
			}
			continue
		}
		din := d(r.Sender, r.In)
		dout := d(rc, r.Out)
		if rc == r.Sender {
			// same account: in and out denoms differ, so the deltas are still separate
		}
		if din.IsZero() {
			st.Clauses["accepted_not_executed"]++
			if !unchanged() {
				bad("unexecuted_swap_moved_funds", "form="+form(r), fmt.Sprintf("request %s was accepted, its input was not debited, yet balances changed:%s", r.Name, dump()))
			}
			continue
		}
		anyExec = true
		st.Clauses["executed"]++
		if r.ExactOut {
			if din.IsPositive() || din.Neg().GT(I(r.Limit)) {
				bad("debit_beyond_max_in", "form="+form(r), fmt.Sprintf("request %s (max in %d): sender %s delta %s", r.Name, r.Limit, r.In, din))
			}
			if dout.LT(I(r.Amt)) {
				bad("credit_below_requested_out", "form="+form(r), fmt.Sprintf("request %s (out %d): recipient %s delta %s", r.Name, r.Amt, r.Out, dout))
			}
			if dout.GT(I(r.Amt)) {
				bad("credit_above_requested_out", "form="+form(r), fmt.Sprintf("request %s (out %d): recipient %s delta %s (executed more than once?)", r.Name, r.Amt, r.Out, dout))
			}
		} else {
			if !din.Neg().Equal(I(r.Amt)) {
				bad("debit_not_exactly_token_in", "form="+form(r), fmt.Sprintf("request %s (in %d): sender %s delta %s", r.Name, r.Amt, r.In, din))
			}
			if dout.LT(I(r.Limit)) {
				bad("credit_below_min_out", "form="+form(r), fmt.Sprintf("request %s (min out %d): recipient %s delta %s", r.Name, r.Limit, r.Out, dout))
			}
		}
		// nothing but the in-denom of the sender and the out-denom of the recipient may move
		for _, a := range []string{r.Sender, rc} {
			for _, dn := range c04Denoms {
				if (a == r.Sender && dn == r.In) || (a == rc && dn == r.Out) {
					continue
				}
				if a == r.Sender && dn == r.Mid && r.ExactOut && d(a, dn).IsPositive() {
					// an exact-out route buys the ESTIMATED need of the intermediate denom on the first hop; when
					// the later hop then charges less, the change stays with the sender — paid for by the sender's
					// own input within the stated maximum, so nothing the statement forbids. A DEBIT in a denom
					// the sender never offered is a violation.
					st.Clauses["exact_out_route_left_intermediate_change_with_sender"]++
					continue
				}
				if !d(a, dn).IsZero() {
					bad("other_balance_moved", "form="+form(r), fmt.Sprintf("request %s: %s.%s changed by %s (intermediate hop / wrong account)", r.Name, a, dn, d(a, dn)))
				}
			}
		}
	}
	if anyExec {
		st.Clauses["blocks_with_execution"]++
	}
	// the following empty block must not touch the accounts (no lingering request)
	br2 := w.Exec(&BlockPlan{Dt: 5, Feed: true})
	st.Evaluations++
	if !br2.OK() {
		bad("block_failed", "", br2.Err)
		return st
	}
	ctx = w.RCtx()
	st.Clauses["lingering_checked"]++
	for _, a := range accts {
		b := balOf(w, ctx, a)
		for _, dn := range c04Denoms {
			if !b[dn].Equal(post[a][dn]) {
				bad("request_lingered_into_next_block", "", fmt.Sprintf("%s.%s changed by %s in the following empty block", a, dn, b[dn].Sub(post[a][dn])))
			}
		}
	}
	st.Sequences++
	st.States = append(st.States, hash1[:16])
	if validate {
		// linear re-execution on a fresh app over a copy of the root database
		f := x.rootDB[u.Root].Fork()
		fb := f.Exec(c04Plan(f, u, reqs))
		if !fb.OK() || fb.Hash != hash1 {
			st.HarnessErr = fmt.Sprintf("explorer validation: linear run of %s gives app hash %s, rollback run had %s", u.String(), fb.Hash, hash1)
		} else {
			st.Validated++
		}
		f.Close()
	}
	if len(st.Findings) == 0 && len(u.Reqs) == 2 && u.Comp != "none" {
		st.Samples = append(st.Samples, u.String())
	}
	return st
}

func form(r c04Req) string {
	f := "exact_in"
	if r.ExactOut {
		f = "exact_out"
	}
	if r.Mid != "" {
		f += "_multihop"
	}
	if r.Recip != "" {
		f += "_other_recipient"
	}
	return f
}

func c04Worker(tier string) KUnitFunc {
	x := NewExplorer(&Config{Property: "C04", Tier: tier, ValidateMod: 1})
	n := 0
	return func(raw json.RawMessage, deadline time.Time) *KStats {
		var u c04Unit
		if err := json.Unmarshal(raw, &u); err != nil {
			return &KStats{HarnessErr: err.Error()}
		}
		n++
		return c04RunUnit(x, u, n%8 == 0)
	}
}

func c04Units(tier string) []interface{} {
	var us []interface{}
	n := len(c04Requests())
	roots := []string{"R0", "R1"}
	add := func(reqs []int) {
		for _, r := range roots {
			us = append(us, c04Unit{Root: r, Reqs: reqs, Comp: "none"})
		}
	}
	for i := 0; i < n; i++ {
		add([]int{i})
		for j := 0; j < n; j++ {
			if j != i {
				add([]int{i, j})
			}
		}
	}
	// the two requests whose limit is a quote of their own dry run, on the root where pool 1 is far off
	// target and its treasury can pay about one large bonus (both orders; the batch also picks its own)
	for _, rs := range [][]int{{11}, {12}, {11, 12}, {12, 11}} {
		us = append(us, c04Unit{Root: "R13", Reqs: rs, Comp: "none"})
	}
	// every single request, and every ordered pair, with a FAILING second message in the first request's
	// transaction (the queued request must vanish with the rolled-back transaction; the other request settles)
	for i := 0; i < n; i++ {
		for _, r := range roots {
			us = append(us, c04Unit{Root: r, Reqs: []int{i}, Comp: c04FailingSecond, After: true})
		}
		for j := 0; j < n; j++ {
			if j != i {
				us = append(us, c04Unit{Root: "R1", Reqs: []int{i, j}, Comp: c04FailingSecond, After: true})
			}
		}
	}
	comps := c04Companions[1:]
	// single requests with every companion before / after
	for i := 0; i < n; i++ {
		for _, c := range comps {
			for _, after := range []bool{false, true} {
				for _, r := range roots {
					us = append(us, c04Unit{Root: r, Reqs: []int{i}, Comp: c, After: after})
				}
			}
		}
	}
	if tier != "thorough" {
		// quick: opposite-direction pairs on pool 1 (the end-blocker's reverse-pair logic) with every
		// companion before/after, from R1
		fwd, rev := []int{0, 1, 2, 4, 8, 10}, []int{3, 5}
		for _, i := range fwd {
			for _, j := range rev {
				for _, pair := range [][]int{{i, j}, {j, i}} {
					for _, c := range comps {
						for _, after := range []bool{false, true} {
							us = append(us, c04Unit{Root: "R1", Reqs: pair, Comp: c, After: after})
						}
					}
				}
			}
		}
		return us
	}
	for i := 0; i < n; i++ {
		for j := 0; j < n; j++ {
			if j == i {
				continue
			}
			for _, c := range comps {
				for _, after := range []bool{false, true} {
					us = append(us, c04Unit{Root: "R1", Reqs: []int{i, j}, Comp: c, After: after})
				}
			}
			for k := 0; k < n; k++ {
				if k != i && k != j {
					add([]int{i, j, k})
				}
			}
		}
	}
	return us
}

func RunC04(tier string) int {
	units := c04Units(tier)
	sum := RunSharded("C04", tier, units, deadlineFor(tier))
	names := []string{}
	for _, r := range c04Requests() {
		names = append(names, r.Name)
	}
	bounds := map[string]interface{}{"requests": names, "companions": c04Companions, "roots": []string{"R0", "R1"}, "blocks_enumerated": len(units),
		"composition": "quick: every 1- and ordered 2-request block + every single request with each companion before/after + every opposite-direction pair on pool 1 with each companion before/after (R1); thorough: + every ordered 2-request block with each companion (R1) + every ordered 3-request block"}
	return KConclude("C04", tier, "W: exhaustive enumeration of swap-request batches as real blocks on the real ElysApp (store rollback between batches)", "each unit is one real block holding an ordered selection of swap requests (own sender/recipient each) plus optionally one price-moving tx before or after them, followed by one empty block; balances of every sender/recipient are compared before/after", []string{"request amounts/limits as listed; two roots", "the end-blocker's pick order is a deterministic function of the transient keys: all tx orders are enumerated"}, sum, bounds,
		func(f KFinding) bool {
			b, _ := json.Marshal(f.Input)
			var u c04Unit
			if json.Unmarshal(b, &u) != nil {
				return false
			}
			x := NewExplorer(&Config{Property: "C04", ValidateMod: 0})
			defer x.W.Close()
			for _, g := range c04RunUnit(x, u, false).Findings {
				if g.Sig() == f.Sig() {
					return true
				}
			}
			return false
		})
}

func init() {
	OtherEngines["C04"] = RunC04
	KWorkers["C04"] = c04Worker
	OtherReplays["C04"] = func(r *Replay) int {
		b, _ := json.Marshal(r.Extra["input"])
		var u c04Unit
		if json.Unmarshal(b, &u) != nil {
			return 2
		}
		x := NewExplorer(&Config{Property: "C04", ValidateMod: 0})
		defer x.W.Close()
		hit := false
		for _, g := range c04RunUnit(x, u, false).Findings {
			fmt.Printf("finding clause=%s disc=%s\n  %s\n", g.Clause, g.Disc, firstLines(g.Detail, 5))
			if g.Sig() == r.Finding.Sig() {
				hit = true
			}
		}
		if hit {
			fmt.Println("VIOLATION property=C04 replay=(reproduced)")
			return 1
		}
		fmt.Println("replay: recorded finding not reproduced on this tree")
		return 0
	}
}
