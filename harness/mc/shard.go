//go:build verif

package mc

import (
	"bufio"
	"encoding/json"
	"fmt"
	"os"
	"sync"
	"time"
)

// Generic process-level sharding for the K / G / D engines: the master hands opaque JSON units to
// worker processes (same binary, `elysmc kworker <prop> <tier>`) over pipes and collects opaque
// JSON results. A worker that dies is reported, never waited for.

type KStats struct {
	Evaluations int64              `json:"evaluations"` // ops / grid points executed against the real code
	Sequences   int64              `json:"sequences"`   // complete op sequences (paths) explored
	States      []string           `json:"states"`      // distinct canonical state keys
	NStates     int64              `json:"nstates"`     // (when keys are too many to ship) count
	Findings    []KFinding         `json:"findings"`
	Clauses     map[string]int64   `json:"clauses"`
	Samples     []interface{}      `json:"samples"`
	Incomplete  bool               `json:"incomplete"`
	HarnessErr  string             `json:"harness_err"`
	Validated   int64              `json:"validated"`
	Extra       map[string]float64 `json:"extra"`
	Payload     json.RawMessage    `json:"payload,omitempty"`
	// Polluted: the unit proved that the application keeps state outside the store (a discarded branch
	// changed what the parent sees); the worker must rebuild its world before the next unit
	Polluted bool `json:"polluted,omitempty"`
}

// KFinding is a finding of a K/G engine together with its replayable input.
type KFinding struct {
	Finding
	Input interface{} `json:"input"`
	Len   int         `json:"len"`
}

type KUnitFunc func(unit json.RawMessage, deadline time.Time) *KStats

// KWorkers maps property id -> unit function (registered by each engine file).
var KWorkers = map[string]func(tier string) KUnitFunc{}

func KWorkerMain(prop, tier string) {
	mk, ok := KWorkers[prop]
	if !ok {
		fmt.Fprintln(os.Stderr, "no K worker for", prop)
		os.Exit(2)
	}
	f := mk(tier)
	in := os.NewFile(3, "units")
	out := os.NewFile(4, "results")
	rd := bufio.NewReaderSize(in, 1<<22)
	enc := json.NewEncoder(out)
	for {
		line, err := rd.ReadBytes('\n')
		if err != nil {
			return
		}
		var req struct {
			U        json.RawMessage `json:"u"`
			Deadline int64           `json:"deadline"`
		}
		if err := json.Unmarshal(line, &req); err != nil {
			return
		}
		var res *KStats
		func() {
			defer func() {
				if r := recover(); r != nil {
					res = &KStats{HarnessErr: fmt.Sprintf("harness panic on unit %s: %v", string(req.U), r)}
				}
			}()
			res = f(req.U, time.Unix(req.Deadline, 0))
		}()
		if err := enc.Encode(res); err != nil {
			return
		}
	}
}

// KSummary is the merged outcome of a sharded K/G run.
type KSummary struct {
	Evaluations int64
	Sequences   int64
	States      int64
	Findings    []KFinding
	Clauses     map[string]int64
	Samples     []interface{}
	Exhaustive  bool
	HarnessErrs []string
	UnitsTotal  int
	UnitsDone   int
	Validated   int64
	Extra       map[string]float64
	Wall        float64
}

func RunSharded(prop, tier string, units []interface{}, budget time.Duration, cb ...func(u interface{}, r *KStats)) *KSummary {
	t0 := time.Now()
	deadline := t0.Add(budget)
	sum := &KSummary{Clauses: map[string]int64{}, Exhaustive: true, UnitsTotal: len(units), Extra: map[string]float64{}}
	nw := nWorkers()
	if nw > len(units) {
		nw = len(units)
	}
	var mu sync.Mutex
	next := 0
	keys := map[string]bool{}
	best := map[string]KFinding{}
	var wg sync.WaitGroup
	for i := 0; i < nw; i++ {
		wg.Add(1)
		go func(id int) {
			defer wg.Done()
			var wp *workerProc
			defer func() {
				if wp != nil {
					wp.in.Close()
					wp.cmd.Wait()
				}
			}()
			for {
				mu.Lock()
				if next >= len(units) || time.Now().After(deadline) {
					if next < len(units) {
						sum.Exhaustive = false
					}
					mu.Unlock()
					return
				}
				u := units[next]
				next++
				mu.Unlock()
				if wp == nil {
					var err error
					wp, err = startWorker(id, []string{"kworker", prop, tier})
					if err != nil {
						mu.Lock()
						sum.HarnessErrs = append(sum.HarnessErrs, "start worker: "+err.Error())
						mu.Unlock()
						return
					}
				}
				req, _ := json.Marshal(map[string]interface{}{"u": u, "deadline": deadline.Unix()})
				wp.in.Write(append(req, '\n'))
				line, err := wp.out.ReadBytes('\n')
				if err != nil {
					mu.Lock()
					sum.HarnessErrs = append(sum.HarnessErrs, fmt.Sprintf("worker %d died on unit %v: %v", id, u, err))
					mu.Unlock()
					wp.cmd.Wait()
					wp = nil
					continue
				}
				var r KStats
				if err := json.Unmarshal(line, &r); err != nil {
					mu.Lock()
					sum.HarnessErrs = append(sum.HarnessErrs, "bad result: "+err.Error())
					mu.Unlock()
					continue
				}
				mu.Lock()
				for _, f := range cb {
					f(u, &r)
				}
				sum.UnitsDone++
				sum.Evaluations += r.Evaluations
				sum.Sequences += r.Sequences
				sum.Validated += r.Validated
				sum.States += r.NStates
				for _, k := range r.States {
					keys[k] = true
				}
				for k, v := range r.Clauses {
					sum.Clauses[k] += v
				}
				for k, v := range r.Extra {
					if v > sum.Extra[k] {
						sum.Extra[k] = v
					}
				}
				if r.Incomplete {
					sum.Exhaustive = false
				}
				if r.HarnessErr != "" {
					sum.HarnessErrs = append(sum.HarnessErrs, r.HarnessErr)
				}
				if len(sum.Samples) < 8 {
					sum.Samples = append(sum.Samples, r.Samples...)
				}
				for _, f := range r.Findings {
					s := f.Sig()
					if old, ok := best[s]; !ok || f.Len < old.Len {
						best[s] = f
					}
				}
				mu.Unlock()
			}
		}(i)
	}
	wg.Wait()
	sum.States += int64(len(keys))
	for _, f := range best {
		sum.Findings = append(sum.Findings, f)
	}
	sum.Wall = time.Since(t0).Seconds()
	return sum
}

// KConclude writes evidence / replays / stdout lines for a K/G run. reproduce re-runs one finding's
// input without the explorer and reports whether the same signature shows up.
func KConclude(prop, tier, engine, rule string, assumptions []string, sum *KSummary, bounds map[string]interface{}, reproduce func(f KFinding) bool) int {
	kf := LoadKnownFindings()
	exit, nvio := 0, 0
	var vioOut []map[string]interface{}
	printed := map[string]bool{}
	for _, f := range sum.Findings {
		if k := MatchKnown(kf, prop, f.Finding); k != nil {
			line := fmt.Sprintf("KNOWN-FINDING: property=%s %s", prop, k.What)
			if !printed[line] {
				fmt.Println(line)
				printed[line] = true
			}
			vioOut = append(vioOut, map[string]interface{}{"known": true, "finding": f.Finding, "input": f.Input})
			continue
		}
		if reproduce != nil && !reproduce(f) {
			sum.HarnessErrs = append(sum.HarnessErrs, fmt.Sprintf("finding %s did not reproduce on a plain re-run of its input %v", f.Sig(), f.Input))
			continue
		}
		nvio++
		p := WriteReplay(&Replay{Property: prop, Engine: engine, Finding: f.Finding, Extra: map[string]interface{}{"input": f.Input}}, nvio)
		fmt.Printf("VIOLATION property=%s replay=%s\n  clause=%s culprit=%s disc=%s\n  %s\n", prop, p, f.Clause, f.Culprit, f.Disc, firstLines(f.Detail, 8))
		vioOut = append(vioOut, map[string]interface{}{"known": false, "finding": f.Finding, "input": f.Input, "replay": p})
		exit = 1
	}
	samples := sum.Samples
	if len(samples) == 0 {
		samples = []interface{}{"no sample (see harness_errors)"}
	}
	cov := map[string]interface{}{
		"states":                        maxI(sum.States, 1),
		"transitions":                   maxI(sum.Evaluations, 1),
		"traces_validated_against_impl": sum.Validated,
		"samples":                       samples,
		"exhaustive":                    sum.Exhaustive && len(sum.HarnessErrs) == 0,
		"engine":                        engine,
		"rule":                          rule,
		"sequences":                     sum.Sequences,
		"shards_total":                  sum.UnitsTotal,
		"shards_completed":              sum.UnitsDone,
		"clause_evaluations":            sum.Clauses,
		"bounds":                        bounds,
		"measures":                      sum.Extra,
		"findings":                      vioOut,
		"harness_errors":                sum.HarnessErrs,
	}
	WriteEvidence(&Evidence{PropertyID: prop, Tier: tier, Seed: Seed(), Level: "model_checking", WallS: sum.Wall, Violations: nvio, Assumptions: assumptions, Coverage: cov})
	fmt.Printf("%s %s: states=%d evaluations=%d sequences=%d validated=%d exhaustive=%v violations=%d wall=%.1fs\n", prop, tier, sum.States, sum.Evaluations, sum.Sequences, sum.Validated, cov["exhaustive"], nvio, sum.Wall)
	if len(sum.HarnessErrs) > 0 {
		seenErr := map[string]bool{}
		for _, e := range sum.HarnessErrs {
			if seenErr[e] || len(seenErr) > 10 {
				continue
			}
			seenErr[e] = true
			fmt.Println("HARNESS-ERROR:", firstLines(e, 8))
		}
		if exit == 0 {
			exit = 2
		}
	}
	return exit
}

func maxI(a, b int64) int64 {
	if a > b {
		return a
	}
	return b
}
