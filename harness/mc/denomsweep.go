//go:build verif

package mc

import (
	"strings"

	sdk "github.com/cosmos/cosmos-sdk/types"
	ctypes "github.com/elys-network/elys/x/commitment/types"
)

// Denom sweep: every user message of the commitment module that NAMES a denom (commit, uncommit,
// vest, cancel-vest, vest-now, vest-liquid, stake, unstake) is sent by lp1 (who holds something of
// everything in the mid-life roots) for EVERY denom the chain knows — the coins, Eden / Eden Boost,
// both pools' share tokens and the vault's share token. Most combinations must be refused; the point
// is the second routes: a message that reaches a keeper function meant for another denom class.

var sweepDenoms = []string{"uusdc", "uatom", "uelys", "ueden", "uedenb", "amm/pool/1", "amm/pool/2", "stablestake/share"}

func denomTag(d string) string { return strings.NewReplacer("/", "_").Replace(d) }

func addDenomSweepOps(l *OpLib) {
	type mk func(w *World, creator, denom string) sdk.Msg
	amt := func(w *World, denom string) sdk.Coin {
		// a tenth of whatever lp1 holds of it in the relevant bucket (committed, else claimed, else wallet), at least 1
		a := w.A("lp1").Addr
		v := w.CommittedOf(a, denom)
		if !v.IsPositive() {
			cm := w.App.CommitmentKeeper.GetCommitments(w.RCtx(), a)
			v = cm.GetClaimedForDenom(denom)
		}
		if !v.IsPositive() {
			v = w.App.BankKeeper.GetBalance(w.RCtx(), a, denom).Amount
		}
		v = v.QuoRaw(10)
		if !v.IsPositive() {
			v = I(1)
		}
		return sdk.NewCoin(denom, v)
	}
	msgs := map[string]mk{
		"commit_claimed": func(w *World, c, d string) sdk.Msg {
			return &ctypes.MsgCommitClaimedRewards{Creator: c, Denom: d, Amount: amt(w, d).Amount}
		},
		"uncommit": func(w *World, c, d string) sdk.Msg {
			return &ctypes.MsgUncommitTokens{Creator: c, Denom: d, Amount: amt(w, d).Amount}
		},
		"vest": func(w *World, c, d string) sdk.Msg {
			return &ctypes.MsgVest{Creator: c, Denom: d, Amount: amt(w, d).Amount}
		},
		"cancel_vest": func(w *World, c, d string) sdk.Msg {
			return &ctypes.MsgCancelVest{Creator: c, Denom: d, Amount: amt(w, d).Amount}
		},
		"vest_now": func(w *World, c, d string) sdk.Msg {
			return &ctypes.MsgVestNow{Creator: c, Denom: d, Amount: amt(w, d).Amount}
		},
		"vest_liquid": func(w *World, c, d string) sdk.Msg {
			return &ctypes.MsgVestLiquid{Creator: c, Denom: d, Amount: amt(w, d).Amount}
		},
		"stake": func(w *World, c, d string) sdk.Msg {
			return &ctypes.MsgStake{Creator: c, Asset: d, Amount: amt(w, d).Amount, ValidatorAddress: w.ValAddr.String()}
		},
		"unstake": func(w *World, c, d string) sdk.Msg {
			return &ctypes.MsgUnstake{Creator: c, Asset: d, Amount: amt(w, d).Amount, ValidatorAddress: w.ValAddr.String()}
		},
	}
	for name, f := range msgs {
		for _, d := range sweepDenoms {
			name, f, d := name, f, d
			l.Add("denomsweep_"+name+"("+denomTag(d)+")", "denomsweep", 0, func(w *World, p *BlockPlan) {
				p.Txs = one("lp1", f(w, w.A("lp1").Addr.String(), d))
			})
		}
	}
}

func denomSweepOpNames() []string {
	var out []string
	for _, n := range []string{"commit_claimed", "uncommit", "vest", "cancel_vest", "vest_now", "vest_liquid", "stake", "unstake"} {
		for _, d := range sweepDenoms {
			out = append(out, "denomsweep_"+n+"("+denomTag(d)+")")
		}
	}
	return out
}
