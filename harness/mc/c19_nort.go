//go:build verif && !verifrt

package mc

const HaveMapSeam = false

func MapSeamSet(mode uint32, target uintptr, alt uintptr) {}
func MapSeamReset()                                       {}
func MapSeamSites() ([]uintptr, []uint32)                 { return nil, nil }
func SiteName(pc uintptr) string                          { return "" }
