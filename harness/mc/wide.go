//go:build verif

package mc

import (
	"fmt"
	"strings"

	"cosmossdk.io/math"
	sdk "github.com/cosmos/cosmos-sdk/types"
	banktypes "github.com/cosmos/cosmos-sdk/x/bank/types"
	ammtypes "github.com/elys-network/elys/x/amm/types"
	aptypes "github.com/elys-network/elys/x/assetprofile/types"
	llpkeeper "github.com/elys-network/elys/x/leveragelp/keeper"
	llptypes "github.com/elys-network/elys/x/leveragelp/types"
	perptypes "github.com/elys-network/elys/x/perpetual/types"
)

// ---------------------------------------------------------------------------------------------
// SECOND VENUE (root R19): everything the other roots have exactly ONE of exists twice. (A pool with THREE
// assets cannot exist in this version: MsgCreatePool refuses it with "pool assets must be exactly two" — probed.)
//   v4 = a second ORACLE pool (uelys / uusdc, ELYS priced by the feeder), enabled for leveraged LP, so
//        that the real hooks create a second accounted pool and a second perpetual pool (trading asset
//        uelys); positions of both modules are open in BOTH venues, one account (t1) holds a perpetual
//        position in each.
// Pool ids are looked up by shape (they depend on the root the op runs from); on a root without the
// venue the messages name pool 99 and fail, which is a legitimate (boring) history.

func (w *World) venue4() uint64 {
	for _, p := range w.App.AmmKeeper.GetAllPool(w.RCtx()) {
		if p.PoolParams.UseOracle && len(p.PoolAssets) == 2 {
			for _, a := range p.PoolAssets {
				if a.Token.Denom == "uelys" {
					return p.PoolId
				}
			}
		}
	}
	return 99
}

func (w *World) mtpsOfIn(owner string, pool uint64) []perptypes.MTP {
	var out []perptypes.MTP
	for _, m := range w.MTPsOf(owner) {
		if m.AmmPoolId == pool {
			out = append(out, m)
		}
	}
	return out
}

func (w *World) llpsOfIn(owner string, pool uint64) []llptypes.Position {
	var out []llptypes.Position
	for _, m := range w.LLPsOf(owner) {
		if m.AmmPoolId == pool {
			out = append(out, m)
		}
	}
	return out
}

// wideOps: the alphabet of the second-venue phases (besides ops of the first venue that exist anyway).
var wideV4Ops = []string{
	"v4_swap_in_usdc_elys_L", "v4_swap_in_elys_usdc_L", "v4_swap_out_usdc_for_elys", "v4_join_all_t1", "v4_join_single_elys_t2",
	"v4_exit_10pct_lp1", "v4_exit_single_usdc_lp1", "v4_perp_open_long_t1", "v4_perp_open_short_t3", "v4_perp_close_full_t1", "v4_perp_close_half_t3",
	"v4_llp_open_t2_x3", "v4_llp_close_full_t2", "v4_llp_close_half_t2",
}
var wideV3Ops = []string{"v14_swap_2hop_atom_usdc_elys", "v41_swap_out_2hop_elys_usdc_atom", "v4_exit_all_t1", "v4_perp_open_long_elyscoll_t2", "v4_llp_open_t1_x5", "v4_perp_close_full_t3"}
var widePriceOps = []string{"price_elys_2", "price_elys_1.2", "price_elys_4.5", "price_elys_7"}

func addWideOps(l *OpLib) {
	addUpgradeOps(l)
	for _, pr := range []string{"3", "2", "1.2", "4.5", "7"} {
		pr := pr
		l.Add("price_elys_"+pr, "price", 1, func(w *World, p *BlockPlan) { p.SetElys = pr })
	}
	l.Add("v4_create_lp1", "createpool", 0, func(w *World, p *BlockPlan) {
		p.Txs = one("lp1", mkPoolMsg(w.A("lp1"), true, "uelys", 1e12, 3e12, 10, 10, "0.002"))
	})
	l.Add("cfg_llp_addpool_v4", "config", 1, func(w *World, p *BlockPlan) {
		p.Gov = append(p.Gov, func(ctx sdk.Context) error {
			id := w.venue4()
			m := &llptypes.MsgAddPool{Authority: w.Gov, Pool: llptypes.AddPool{AmmPoolId: id, LeverageMax: math.LegacyNewDec(10)}}
			if err := vb(m); err != nil {
				return err
			}
			_, err := llpkeeper.NewMsgServerImpl(*w.App.LeveragelpKeeper).AddPool(ctx, m)
			return err
		})
	})
	// ---- v4: swaps, joins, exits
	l.Add("v4_swap_in_usdc_elys_L", "swap", 0, func(w *World, p *BlockPlan) {
		p.Txs = one("t1", swapIn(w.A("t1"), "", C("uusdc", 3e10), 1, rin(w.venue4(), "uelys")))
	})
	l.Add("v4_swap_in_elys_usdc_L", "swap", 0, func(w *World, p *BlockPlan) {
		p.Txs = one("t2", swapIn(w.A("t2"), "", C("uelys", 1e10), 1, rin(w.venue4(), "uusdc")))
	})
	l.Add("v4_swap_out_usdc_for_elys", "swap", 0, func(w *World, p *BlockPlan) {
		p.Txs = one("t1", swapOut(w.A("t1"), "", C("uelys", 5e9), 1e14, rout(w.venue4(), "uusdc")))
	})
	l.Add("v4_join_all_t1", "join", 0, func(w *World, p *BlockPlan) {
		p.Txs = one("t1", &ammtypes.MsgJoinPool{Sender: w.A("t1").Addr.String(), PoolId: w.venue4(), MaxAmountsIn: sdk.NewCoins(C("uusdc", 3e10), C("uelys", 1e10)), ShareAmountOut: I(1)})
	})
	l.Add("v4_join_single_elys_t2", "join", 0, func(w *World, p *BlockPlan) {
		p.Txs = one("t2", &ammtypes.MsgJoinPool{Sender: w.A("t2").Addr.String(), PoolId: w.venue4(), MaxAmountsIn: sdk.NewCoins(C("uelys", 2e10)), ShareAmountOut: I(1)})
	})
	vexit := func(name, signer string, pool func(w *World) uint64, num, den int64, outDenom string) {
		l.Add(name, "exit", 0, func(w *World, p *BlockPlan) {
			a := w.A(signer)
			id := pool(w)
			amt := mulFrac(w.CommittedOf(a.Addr, ammtypes.GetPoolShareDenom(id)), num, den)
			if !amt.IsPositive() {
				amt = I(1)
			}
			p.Txs = one(signer, &ammtypes.MsgExitPool{Sender: a.Addr.String(), PoolId: id, ShareAmountIn: amt, MinAmountsOut: sdk.Coins{}, TokenOutDenom: outDenom})
		})
	}
	v4 := func(w *World) uint64 { return w.venue4() }
	vexit("v4_exit_10pct_lp1", "lp1", v4, 1, 10, "")
	vexit("v4_exit_single_usdc_lp1", "lp1", v4, 1, 50, "uusdc")
	vexit("v4_exit_all_t1", "t1", v4, 1, 1, "")
	// ---- v4: perpetual (trading asset uelys) and leveraged LP
	vperp := func(a Acct, w *World, side perptypes.Position, lev string, coll sdk.Coin, tpMul string) sdk.Msg {
		return &perptypes.MsgOpen{Creator: a.Addr.String(), Position: side, Leverage: Dec(lev), TradingAsset: "uelys", Collateral: coll, TakeProfitPrice: Dec(mulDecStr(w.Env.Elys, tpMul)), StopLossPrice: math.LegacyZeroDec(), PoolId: w.venue4()}
	}
	l.Add("v4_perp_open_long_t1", "perp_open", 0, func(w *World, p *BlockPlan) {
		p.Txs = one("t1", vperp(w.A("t1"), w, perptypes.Position_LONG, "3", C("uusdc", 1e9), "1.6"))
	})
	l.Add("v4_perp_open_long_elyscoll_t2", "perp_open", 0, func(w *World, p *BlockPlan) {
		p.Txs = one("t2", vperp(w.A("t2"), w, perptypes.Position_LONG, "2", C("uelys", 3e8), "1.6"))
	})
	l.Add("v4_perp_open_short_t3", "perp_open", 0, func(w *World, p *BlockPlan) {
		p.Txs = one("t3", vperp(w.A("t3"), w, perptypes.Position_SHORT, "2", C("uusdc", 1e9), "0.4"))
	})
	vclose := func(name, owner string, num, den int64) {
		l.Add(name, "perp_close", 0, func(w *World, p *BlockPlan) {
			ms := w.mtpsOfIn(owner, w.venue4())
			id, amt := uint64(999), I(1)
			if len(ms) > 0 {
				id = ms[0].Id
				amt = mulFrac(ms[0].Custody, num, den)
				if !amt.IsPositive() {
					amt = I(1)
				}
			}
			p.Txs = one(owner, &perptypes.MsgClose{Creator: w.A(owner).Addr.String(), Id: id, Amount: amt})
		})
	}
	vclose("v4_perp_close_full_t1", "t1", 1, 1)
	vclose("v4_perp_close_half_t3", "t3", 1, 2)
	vclose("v4_perp_close_full_t3", "t3", 1, 1)
	l.Add("v4_llp_open_t2_x3", "llp_open", 0, func(w *World, p *BlockPlan) {
		p.Txs = one("t2", &llptypes.MsgOpen{Creator: w.A("t2").Addr.String(), CollateralAsset: "uusdc", CollateralAmount: I(2e9), AmmPoolId: w.venue4(), Leverage: Dec("3"), StopLossPrice: Dec("0")})
	})
	l.Add("v4_llp_open_t1_x5", "llp_open", 0, func(w *World, p *BlockPlan) {
		p.Txs = one("t1", &llptypes.MsgOpen{Creator: w.A("t1").Addr.String(), CollateralAsset: "uusdc", CollateralAmount: I(1e9), AmmPoolId: w.venue4(), Leverage: Dec("5"), StopLossPrice: Dec("0")})
	})
	vllpClose := func(name, owner string, num, den int64) {
		l.Add(name, "llp_close", 0, func(w *World, p *BlockPlan) {
			ps := w.llpsOfIn(owner, w.venue4())
			id, amt := uint64(999), I(1)
			if len(ps) > 0 {
				id = ps[0].Id
				amt = mulFrac(ps[0].LeveragedLpAmount, num, den)
				if !amt.IsPositive() {
					amt = I(1)
				}
			}
			p.Txs = one(owner, &llptypes.MsgClose{Creator: w.A(owner).Addr.String(), Id: id, LpAmount: amt})
		})
	}
	vllpClose("v4_llp_close_full_t2", "t2", 1, 1)
	vllpClose("v4_llp_close_half_t2", "t2", 1, 2)
	// a route through BOTH oracle pools, exact-in and exact-out
	l.Add("v14_swap_2hop_atom_usdc_elys", "swap", 0, func(w *World, p *BlockPlan) {
		p.Txs = one("t2", swapIn(w.A("t2"), "", C("uatom", 2e9), 1, rin(1, "uusdc"), rin(w.venue4(), "uelys")))
	})
	l.Add("v41_swap_out_2hop_elys_usdc_atom", "swap", 0, func(w *World, p *BlockPlan) {
		p.Txs = one("t2", swapOut(w.A("t2"), "", C("uatom", 1e9), 1e14, rout(w.venue4(), "uelys"), rout(1, "uusdc")))
	})
}

// ---------------------------------------------------------------------------------------------
// MULTI-MESSAGE TRANSACTIONS. "tx[a+b]" places the messages of ops a and b (same signer) in ONE signed
// transaction, in that order; the pseudo-component FAIL appends a message of the same signer that is
// bound to fail at delivery (a bank send of more than the account holds), so that the WHOLE transaction —
// including the earlier, successful messages — must be rolled back by baseapp. Every component is planned
// on the pre-block state, like in blk[...].

func TxOf(names ...string) string { return "tx[" + strings.Join(names, "+") + "]" }

func (l *OpLib) txOf(name string) *Op {
	if !strings.HasPrefix(name, "tx[") || !strings.HasSuffix(name, "]") {
		return nil
	}
	parts := strings.Split(name[3:len(name)-1], "+")
	var comps []*Op
	dev := 0
	for _, pn := range parts {
		if pn == "FAIL" {
			comps = append(comps, nil)
			continue
		}
		c, ok := l.ops[pn]
		if !ok {
			return nil
		}
		comps = append(comps, c)
		dev += c.Dev
	}
	kind := "multi_msg_tx"
	if strings.HasSuffix(name, "+FAIL]") {
		kind = "multi_msg_tx_failing"
	}
	op := &Op{Name: name, Kind: kind, Dev: dev, Plan: func(w *World, p *BlockPlan) {
		var merged []PlannedTx
		for _, c := range comps {
			if c == nil {
				if n := len(merged); n > 0 {
					a := w.A(merged[n-1].Signer)
					merged[n-1].Msgs = append(merged[n-1].Msgs, &banktypes.MsgSend{FromAddress: a.Addr.String(), ToAddress: w.A("donor").Addr.String(), Amount: sdk.NewCoins(C("uusdc", 4e18))})
				}
				continue
			}
			sub := &BlockPlan{Dt: 5, Feed: true}
			c.Plan(w, sub)
			for _, t := range sub.Txs {
				if n := len(merged); n > 0 && merged[n-1].Signer == t.Signer && len(t.Fee) == 0 && len(merged[n-1].Fee) == 0 {
					merged[n-1].Msgs = append(merged[n-1].Msgs, t.Msgs...)
				} else {
					merged = append(merged, t)
				}
			}
			p.Gov = append(p.Gov, sub.Gov...)
			p.Feed = p.Feed && sub.Feed
			if sub.Dt > p.Dt {
				p.Dt = sub.Dt
			}
			if p.SetAtom == "" {
				p.SetAtom = sub.SetAtom
			}
			if p.SetElys == "" {
				p.SetElys = sub.SetElys
			}
		}
		p.Txs = append(p.Txs, merged...)
	}}
	l.ops[name] = op
	return op
}

// txPairs: every ordered pair (repetition allowed) of the set as one transaction, plus every single op
// and every pair followed by the failing message.
func txPairs(set []string) []string {
	var out []string
	for _, a := range set {
		out = append(out, TxOf(a, "FAIL"))
		for _, b := range set {
			out = append(out, TxOf(a, b))
		}
	}
	return out
}

// per-property same-signer op sets for the multi-message phase (all signed by t1 unless the set says so)
var multiMsgSets = map[string][]string{
	"C01": {"swap_in_p1_usdc_atom_L", "join_p1_all_t1", "exit_p1_all_t1", "perp_open_long_t1", "perp_close_half_t1", "llp_open_t1_x3", "llp_close_half_t1"},
	"C02": {"join_p1_all_t1", "exit_p1_all_t1", "join_p2_all_t1", "llp_open_t1_x3", "llp_close_half_t1", "llp_close_full_t1"},
	"C06": {"llp_open_t1_x3", "llp_close_half_t1", "llp_close_full_t1", "bond_t1_L", "unbond_t1_half"},
	"C08": {"llp_open_t1_x3", "llp_open_t1_x2_again", "llp_close_half_t1", "llp_close_full_t1", "llp_update_sl_t1", "join_p1_all_t1"},
	"C09": {"perp_open_long_t1", "perp_open_long_atomcoll_t1", "perp_topup_t1", "perp_close_half_t1", "perp_close_full_t1", "perp_update_tp_t1", "swap_in_p1_usdc_atom_L"},
	"C11": {"perp_open_long_t1", "perp_close_half_t1", "perp_close_full_t1", "swap_in_p1_usdc_atom_L", "join_p1_all_t1", "exit_p1_all_t1"},
	"C12": {"commit_eden_lp1", "uncommit_eden_lp1", "vest_eden_lp1", "cancel_vest_lp1", "stake_elys_lp1", "unstake_elys_lp1", "mc_claim_lp1"},
	"C13": {"mc_claim_lp1", "exit_p1_10pct_lp1", "bond_lp1_L", "unbond_lp1_all", "ext_incentive_now_lp1"},
	"C15": {"vest_eden_lp1", "cancel_vest_lp1", "claim_vesting_lp1", "vest_now_lp1", "mc_claim_lp1", "exit_p1_10pct_lp1"},
	"C10": {"llp_open_t1_x3_stoploss", "llp_open_t1_x2_again", "llp_close_half_t1", "perp_open_long_t1_stoploss", "perp_topup_t1", "perp_close_half_t1", "perp_update_sl_t1"},
	"C20": {"ts_spot_limitbuy_met_own1", "ts_spot_limitsell_unmet_own1", "ts_perp_long_met_own1", "ts_perp_long_unmet_own1", "ts_cancel_all_by_own1", "ts_update_spot_first_by_own1", "ts_cancel_spot_first_by_own1"},
	"C18": {"swap_in_p1_usdc_atom_L", "join_p1_all_t1", "exit_p1_all_t1", "perp_open_long_t1", "perp_close_full_t1", "llp_open_t1_x3", "llp_close_full_t1"},
}

// ---------------------------------------------------------------------------------------------
// CHAIN UPGRADE. runModuleUpgrade runs the store migration(s) module mod registers for its PREVIOUS consensus
// version, the way an upgrade handler does: module manager, configurator, a version map in which only mod is one
// version back. Used only for modules whose registered migration reads no legacy-format state (amm: the
// balance-matching migration; stablestake: empty in this version), so that every state reachable on this tree
// is also a valid state of the previous version.
func runModuleUpgrade(w *World, ctx sdk.Context, mod string) (err error) {
	defer func() {
		if r := recover(); r != nil {
			err = fmt.Errorf("panic: %v", r)
		}
	}()
	mm := w.App.ModuleManager()
	vm := mm.GetVersionMap()
	if vm[mod] < 2 {
		return fmt.Errorf("module %s has no previous version", mod)
	}
	vm[mod]--
	_, err = mm.RunMigrations(ctx, w.App.Configurator(), vm)
	return err
}

func addAliasOps(l *OpLib) {
	// MsgAddEntry is open to any account in this version: an outsider registers asset-profile entries whose Denom
	// is an EXISTING asset under a fresh base denom that sorts first, with other decimals — lookups "by denom"
	// and lookups "by base denom" then disagree about that asset
	for _, d := range []string{"uusdc", "uatom", "uelys"} {
		d := d
		l.Add("ap_alias_entry_"+d+"_18dec_t3", "profile_alias", 1, func(w *World, p *BlockPlan) {
			p.Txs = one("t3", &aptypes.MsgAddEntry{Creator: w.A("t3").Addr.String(), BaseDenom: "aaa" + d, Denom: d, Decimals: 18, DisplayName: "ALIAS" + d, CommitEnabled: true, WithdrawEnabled: true})
		})
	}
	// the ELYS price of the constant-product pool crashed below 0.5 USDC by one very large sale
	l.Add("swap_in_p2_elys_usdc_XXL", "swap", 0, func(w *World, p *BlockPlan) {
		p.Txs = one("t2", swapIn(w.A("t2"), "", C("uelys", 25e11), 1, rin(2, "uusdc")))
	})
}

func addShortcutOps(l *OpLib) {
	// the newest constant-product pool with UNEQUAL weights (create_pool_lp1: 80:20): an exact-out request for
	// exactly HALF of its uusdc reserve (balance ratio exactly 2), and an exact-in of exactly its uatom reserve
	weighted := func(w *World) (uint64, ammtypes.Pool) {
		ps := w.App.AmmKeeper.GetAllPool(w.RCtx())
		for i := len(ps) - 1; i >= 0; i-- {
			p := ps[i]
			if !p.PoolParams.UseOracle && len(p.PoolAssets) == 2 && !p.PoolAssets[0].Weight.Equal(p.PoolAssets[1].Weight) {
				return p.PoolId, p
			}
		}
		return 99, ammtypes.Pool{}
	}
	bal := func(p ammtypes.Pool, d string) math.Int {
		for _, a := range p.PoolAssets {
			if a.Token.Denom == d {
				return a.Token.Amount
			}
		}
		return math.OneInt()
	}
	l.Add("swap_out_p3_half_usdc_reserve", "swap", 0, func(w *World, p *BlockPlan) {
		id, pool := weighted(w)
		p.Txs = one("t2", &ammtypes.MsgSwapExactAmountOut{Sender: w.A("t2").Addr.String(), Routes: []ammtypes.SwapAmountOutRoute{rout(id, "uatom")}, TokenOut: sdk.NewCoin("uusdc", bal(pool, "uusdc").QuoRaw(2)), TokenInMaxAmount: I(1e14)})
	})
	l.Add("swap_in_p3_atom_double_reserve", "swap", 0, func(w *World, p *BlockPlan) {
		id, pool := weighted(w)
		p.Txs = one("t2", &ammtypes.MsgSwapExactAmountIn{Sender: w.A("t2").Addr.String(), Routes: []ammtypes.SwapAmountInRoute{rin(id, "uusdc")}, TokenIn: sdk.NewCoin("uatom", bal(pool, "uatom")), TokenOutMinAmount: I(1)})
	})
}

// the VOUCHER VENUE: a constant-product pool WETH-voucher / uusdc (5 WETH : 10 000 USDC), swaps that push the POOL
// price far above / below the oracle's 2000, joins and exits
func (w *World) venue5() uint64 {
	for _, p := range w.App.AmmKeeper.GetAllPool(w.RCtx()) {
		for _, a := range p.PoolAssets {
			if a.Token.Denom == VoucherDenom {
				return p.PoolId
			}
		}
	}
	return 99
}

func addVoucherOps(l *OpLib) {
	l.Add("v5_create_lp1", "createpool", 0, func(w *World, p *BlockPlan) {
		a := w.A("lp1")
		p.Txs = one("lp1", &ammtypes.MsgCreatePool{Sender: a.Addr.String(),
			PoolParams: ammtypes.PoolParams{UseOracle: false, SwapFee: Dec("0.003"), FeeDenom: "uusdc"},
			PoolAssets: []ammtypes.PoolAsset{
				{Token: sdk.NewCoin(VoucherDenom, math.NewIntWithDecimal(5, 18)), Weight: I(10), ExternalLiquidityRatio: math.LegacyNewDec(1)},
				{Token: C("uusdc", 1e10), Weight: I(10), ExternalLiquidityRatio: math.LegacyNewDec(1)},
			}})
	})
	l.Add("v5_swap_in_usdc_weth_XL", "swap", 0, func(w *World, p *BlockPlan) {
		p.Txs = one("t1", swapIn(w.A("t1"), "", C("uusdc", 3e9), 1, rin(w.venue5(), VoucherDenom)))
	})
	l.Add("v5_swap_in_weth_usdc_XL", "swap", 0, func(w *World, p *BlockPlan) {
		p.Txs = one("t2", swapIn(w.A("t2"), "", sdk.NewCoin(VoucherDenom, math.NewIntWithDecimal(15, 17)), 1, rin(w.venue5(), "uusdc")))
	})
	l.Add("v5_swap_out_usdc_for_weth_D", "swap", 0, func(w *World, p *BlockPlan) {
		p.Txs = one("t1", swapOut(w.A("t1"), "", sdk.NewCoin(VoucherDenom, math.NewInt(7)), 1e14, rout(w.venue5(), "uusdc")))
	})
	l.Add("v5_join_all_t1", "join", 0, func(w *World, p *BlockPlan) {
		p.Txs = one("t1", &ammtypes.MsgJoinPool{Sender: w.A("t1").Addr.String(), PoolId: w.venue5(), MaxAmountsIn: sdk.NewCoins(C("uusdc", 1e9), sdk.NewCoin(VoucherDenom, math.NewIntWithDecimal(5, 17))), ShareAmountOut: math.NewIntWithDecimal(1, 18)})
	})
	l.Add("v5_exit_half_lp1", "exit", 0, func(w *World, p *BlockPlan) {
		a := w.A("lp1")
		id := w.venue5()
		amt := mulFrac(w.CommittedOf(a.Addr, ammtypes.GetPoolShareDenom(id)), 1, 2)
		if !amt.IsPositive() {
			amt = I(1)
		}
		p.Txs = one("lp1", &ammtypes.MsgExitPool{Sender: a.Addr.String(), PoolId: id, ShareAmountIn: amt, MinAmountsOut: sdk.Coins{}})
	})
	l.Add("fee_tx_voucher", "feetx", 1, func(w *World, p *BlockPlan) {
		a := w.A("t3")
		p.Txs = []PlannedTx{{Signer: "t3", Fee: sdk.NewCoins(sdk.NewCoin(VoucherDenom, math.NewIntWithDecimal(1, 15))), Msgs: []sdk.Msg{&banktypes.MsgSend{FromAddress: a.Addr.String(), ToAddress: w.A("t1").Addr.String(), Amount: sdk.NewCoins(C("uusdc", 1))}}}}
	})
}

var voucherOps = []string{"v5_swap_in_usdc_weth_XL", "v5_swap_in_weth_usdc_XL", "v5_swap_out_usdc_for_weth_D", "v5_join_all_t1", "v5_exit_half_lp1", "fee_tx_voucher"}

func addUpgradeOps(l *OpLib) {
	addAliasOps(l)
	addVoucherOps(l)
	addShortcutOps(l)
	for _, mod := range []string{"amm", "stablestake"} {
		mod := mod
		l.Add("upgrade_"+mod+"_prev_version", "upgrade", 1, func(w *World, p *BlockPlan) {
			p.Gov = append(p.Gov, func(ctx sdk.Context) error { return runModuleUpgrade(w, ctx, mod) })
		})
	}
	// a token that is NOT an asset of the pool, sent straight to a pool's address (ibc vouchers end up there)
	l.Add("donate_p2_atom_foreign", "donate_foreign", 1, func(w *World, p *BlockPlan) {
		p.Txs = one("donor", &banktypes.MsgSend{FromAddress: w.A("donor").Addr.String(), ToAddress: w.PoolAddr(2).String(), Amount: sdk.NewCoins(C("uatom", 5000000))})
	})
}

// ---------------------------------------------------------------------------------------------
// A GOVERNANCE CHANGE THAT IS EXECUTED AND THEN DISCARDED: "rolledback[<config op>]" runs the governance steps of
// a configuration op on a branch of the state and then drops the branch — what happens to an earlier message of a
// multi-message proposal when a later one fails, and to every message of a simulated transaction. The committed
// state is untouched by construction, so on a correct tree the op is indistinguishable from an empty block.
func (l *OpLib) rolledBackOf(name string) *Op {
	if !strings.HasPrefix(name, "rolledback[") || !strings.HasSuffix(name, "]") {
		return nil
	}
	inner, ok := l.ops[name[len("rolledback["):len(name)-1]]
	if !ok {
		return nil
	}
	op := &Op{Name: name, Kind: "rolled_back_config", Dev: inner.Dev, Plan: func(w *World, p *BlockPlan) {
		sub := &BlockPlan{Dt: 5, Feed: true}
		inner.Plan(w, sub)
		steps := sub.Gov
		p.Gov = append(p.Gov, func(ctx sdk.Context) error {
			for _, g := range steps {
				if err := g(ctx); err != nil {
					return err
				}
			}
			return fmt.Errorf("a later message of the proposal fails: the whole branch is dropped")
		})
	}}
	l.ops[name] = op
	return op
}

func rolledBack(names []string) []string {
	out := make([]string, 0, len(names))
	for _, n := range names {
		out = append(out, "rolledback["+n+"]")
	}
	return out
}
