//go:build verif

package mc

import (
	"fmt"
	"sort"

	"cosmossdk.io/math"
	sdk "github.com/cosmos/cosmos-sdk/types"
	perpkeeper "github.com/elys-network/elys/x/perpetual/keeper"
	perptypes "github.com/elys-network/elys/x/perpetual/types"
	tstypes "github.com/elys-network/elys/x/tradeshield/types"
)

// C20: escrowed order funds (Engine W, transition oracle).

func pendingSpotOf(w *World, owner string) []tstypes.SpotOrder {
	out := []tstypes.SpotOrder{}
	for _, o := range w.App.TradeshieldKeeper.GetAllPendingSpotOrder(w.RCtx()) {
		if owner == "" || o.OwnerAddress == w.A(owner).Addr.String() {
			out = append(out, o)
		}
	}
	sort.Slice(out, func(i, j int) bool { return out[i].OrderId < out[j].OrderId })
	return out
}

func pendingPerpOf(w *World, owner string) []tstypes.PerpetualOrder {
	out := []tstypes.PerpetualOrder{}
	for _, o := range w.App.TradeshieldKeeper.GetAllPendingPerpetualOrder(w.RCtx()) {
		if owner == "" || o.OwnerAddress == w.A(owner).Addr.String() {
			out = append(out, o)
		}
	}
	sort.Slice(out, func(i, j int) bool { return out[i].OrderId < out[j].OrderId })
	return out
}

func addC20Ops(l *OpLib) {
	spot := func(name, who string, typ tstypes.SpotOrderType, base, quote, rate string, amt sdk.Coin, target string) {
		l.Add(name, "ts_create", 0, func(w *World, p *BlockPlan) {
			p.Txs = one(who, &tstypes.MsgCreateSpotOrder{OwnerAddress: w.A(who).Addr.String(), OrderType: typ, OrderPrice: tstypes.OrderPrice{BaseDenom: base, QuoteDenom: quote, Rate: Dec(rate)}, OrderAmount: amt, OrderTargetDenom: target})
		})
	}
	// orders in the IBC VOUCHER (18 decimals, profile Denom != BaseDenom), traded in a constant-product pool: the
	// trigger is a matter of the ORACLE price (2000 per WETH = 2e-9 uusdc per base unit), whatever the pool says
	spot("ts_spot_limitsell_weth_unmet_own1", "own1", tstypes.SpotOrderType_LIMITSELL, VoucherDenom, "uusdc", "0.0000000022", sdk.NewCoin(VoucherDenom, math.NewIntWithDecimal(1, 17)), "uusdc")
	spot("ts_spot_stoploss_weth_unmet_own2", "own2", tstypes.SpotOrderType_STOPLOSS, VoucherDenom, "uusdc", "0.0000000018", sdk.NewCoin(VoucherDenom, math.NewIntWithDecimal(2, 17)), "uusdc")
	spot("ts_spot_limitbuy_weth_unmet_own1", "own1", tstypes.SpotOrderType_LIMITBUY, "uusdc", VoucherDenom, "450000000", C("uusdc", 300000000), VoucherDenom)
	// market price of base in quote = P(base)/P(quote); ATOM = 5 by default
	spot("ts_spot_limitbuy_met_own1", "own1", tstypes.SpotOrderType_LIMITBUY, "uusdc", "uatom", "0.5", C("uusdc", 2000000), "uatom")
	spot("ts_spot_limitbuy_unmet_own1", "own1", tstypes.SpotOrderType_LIMITBUY, "uusdc", "uatom", "0.15", C("uusdc", 3000000), "uatom")
	spot("ts_spot_limitsell_met_own1", "own1", tstypes.SpotOrderType_LIMITSELL, "uatom", "uusdc", "4.5", C("uatom", 700000), "uusdc")
	spot("ts_spot_limitsell_unmet_own1", "own1", tstypes.SpotOrderType_LIMITSELL, "uatom", "uusdc", "7", C("uatom", 800000), "uusdc")
	spot("ts_spot_stoploss_unmet_own1", "own1", tstypes.SpotOrderType_STOPLOSS, "uatom", "uusdc", "3.5", C("uatom", 900000), "uusdc")
	spot("ts_spot_limitbuy_met_own2", "own2", tstypes.SpotOrderType_LIMITBUY, "uusdc", "uatom", "0.5", C("uusdc", 1100000), "uatom")
	spot("ts_marketbuy_own2", "own2", tstypes.SpotOrderType_MARKETBUY, "uusdc", "uatom", "0.5", C("uusdc", 1500000), "uatom")
	perp := func(name, who string, pos tstypes.PerpetualPosition, trig, lev string, coll int64, tpMul string) {
		l.Add(name, "ts_create", 0, func(w *World, p *BlockPlan) {
			p.Txs = one(who, &tstypes.MsgCreatePerpetualOpenOrder{OwnerAddress: w.A(who).Addr.String(), TriggerPrice: tstypes.TriggerPrice{TradingAssetDenom: "uatom", Rate: Dec(trig)}, Collateral: C("uusdc", coll), TradingAsset: "uatom", Position: pos, Leverage: Dec(lev), TakeProfitPrice: Dec(mulDecStr(trig, tpMul)), StopLossPrice: math.LegacyZeroDec(), PoolId: 1})
		})
	}
	perp("ts_perp_long_met_own1", "own1", tstypes.PerpetualPosition_LONG, "5.5", "2", 4000000, "1.5")
	perp("ts_perp_long_unmet_own1", "own1", tstypes.PerpetualPosition_LONG, "3.2", "2", 5000000, "1.5")
	perp("ts_perp_short_unmet_own1", "own1", tstypes.PerpetualPosition_SHORT, "7", "2", 6000000, "0.5")
	perp("ts_perp_long_met_huge_own1", "own1", tstypes.PerpetualPosition_LONG, "5.5", "8", 500000000000, "1.5")
	perp("ts_perp_long_met_own2", "own2", tstypes.PerpetualPosition_LONG, "5.6", "2", 3000000, "1.5")
	first := func(w *World) (uint64, uint64) {
		s, p := uint64(1), uint64(1)
		if os := pendingSpotOf(w, "own1"); len(os) > 0 {
			s = os[0].OrderId
		}
		if os := pendingPerpOf(w, "own1"); len(os) > 0 {
			p = os[0].OrderId
		}
		return s, p
	}
	for _, who := range []string{"own1", "own2", "bot"} {
		who := who
		kind := "ts_owner"
		if who != "own1" {
			kind = "ts_intruder"
		}
		l.Add("ts_update_spot_first_by_"+who, kind, 0, func(w *World, p *BlockPlan) {
			s, _ := first(w)
			p.Txs = one(who, &tstypes.MsgUpdateSpotOrder{OwnerAddress: w.A(who).Addr.String(), OrderId: s, OrderPrice: tstypes.OrderPrice{BaseDenom: "uusdc", QuoteDenom: "uatom", Rate: Dec("0.9")}})
		})
		l.Add("ts_cancel_spot_first_by_"+who, kind, 0, func(w *World, p *BlockPlan) {
			s, _ := first(w)
			p.Txs = one(who, &tstypes.MsgCancelSpotOrder{OwnerAddress: w.A(who).Addr.String(), OrderId: s})
		})
		l.Add("ts_update_perp_first_by_"+who, kind, 0, func(w *World, p *BlockPlan) {
			_, q := first(w)
			p.Txs = one(who, &tstypes.MsgUpdatePerpetualOrder{OwnerAddress: w.A(who).Addr.String(), OrderId: q, TriggerPrice: tstypes.TriggerPrice{TradingAssetDenom: "uatom", Rate: Dec("5.2")}})
		})
		l.Add("ts_cancel_perp_first_by_"+who, kind, 0, func(w *World, p *BlockPlan) {
			_, q := first(w)
			p.Txs = one(who, &tstypes.MsgCancelPerpetualOrder{OwnerAddress: w.A(who).Addr.String(), OrderId: q})
		})
		l.Add("ts_cancel_all_by_"+who, kind, 0, func(w *World, p *BlockPlan) {
			sids, pids := []uint64{}, []uint64{}
			for _, o := range pendingSpotOf(w, "own1") {
				sids = append(sids, o.OrderId)
			}
			for _, o := range pendingPerpOf(w, "own1") {
				pids = append(pids, o.OrderId)
			}
			if len(sids) == 0 {
				sids = []uint64{1}
			}
			if len(pids) == 0 {
				pids = []uint64{1}
			}
			a := w.A(who).Addr.String()
			p.Txs = []PlannedTx{{Signer: who, Msgs: []sdk.Msg{&tstypes.MsgCancelSpotOrders{Creator: a, SpotOrderIds: sids}}}, {Signer: who, Msgs: []sdk.Msg{&tstypes.MsgCancelPerpetualOrders{OwnerAddress: a, OrderIds: pids}}}}
		})
	}
	l.Add("ts_cancel_everyones_by_own2", "ts_intruder", 0, func(w *World, p *BlockPlan) {
		// own2 lists its own orders first and then everybody else's (batch owner checks)
		sids, pids := []uint64{}, []uint64{}
		for _, o := range pendingSpotOf(w, "own2") {
			sids = append(sids, o.OrderId)
		}
		for _, o := range pendingSpotOf(w, "own1") {
			sids = append(sids, o.OrderId)
		}
		for _, o := range pendingPerpOf(w, "own2") {
			pids = append(pids, o.OrderId)
		}
		for _, o := range pendingPerpOf(w, "own1") {
			pids = append(pids, o.OrderId)
		}
		if len(sids) == 0 {
			sids = []uint64{1}
		}
		if len(pids) == 0 {
			pids = []uint64{1}
		}
		a := w.A("own2").Addr.String()
		p.Txs = []PlannedTx{{Signer: "own2", Msgs: []sdk.Msg{&tstypes.MsgCancelSpotOrders{Creator: a, SpotOrderIds: sids}}}, {Signer: "own2", Msgs: []sdk.Msg{&tstypes.MsgCancelPerpetualOrders{OwnerAddress: a, OrderIds: pids}}}}
	})
	exec := func(name string, extraMissing bool, twice bool, at ...string) {
		l.Add(name, "ts_execute", 0, func(w *World, p *BlockPlan) {
			if len(at) > 0 {
				p.SetAtom = at[0] // the feeder's tx precedes the execute request in the same block
			}
			sids, pids := []uint64{}, []uint64{}
			for _, o := range pendingSpotOf(w, "") {
				sids = append(sids, o.OrderId)
			}
			for _, o := range pendingPerpOf(w, "") {
				pids = append(pids, o.OrderId)
			}
			if extraMissing {
				sids = append(sids, 999)
			}
			m := &tstypes.MsgExecuteOrders{Creator: w.A("bot").Addr.String(), SpotOrderIds: sids, PerpetualOrderIds: pids}
			p.Txs = one("bot", m)
			if twice {
				p.Txs = append(p.Txs, PlannedTx{Signer: "t3", Msgs: []sdk.Msg{&tstypes.MsgExecuteOrders{Creator: w.A("t3").Addr.String(), SpotOrderIds: sids, PerpetualOrderIds: pids}}})
			}
		})
	}
	exec("ts_execute_all_bot", false, false)
	// ONE request per pending order, each its own transaction (a request naming a spot order whose trigger is not
	// met fails as a whole on this tree — the skipped order's nil response is dereferenced — so an "all" request
	// executes nothing as soon as one listed order is unmet)
	l.Add("ts_execute_each_bot", "ts_execute", 0, func(w *World, p *BlockPlan) {
		for _, o := range pendingSpotOf(w, "") {
			p.Txs = append(p.Txs, PlannedTx{Signer: "bot", Msgs: []sdk.Msg{&tstypes.MsgExecuteOrders{Creator: w.A("bot").Addr.String(), SpotOrderIds: []uint64{o.OrderId}}}})
		}
		for _, o := range pendingPerpOf(w, "") {
			p.Txs = append(p.Txs, PlannedTx{Signer: "bot", Msgs: []sdk.Msg{&tstypes.MsgExecuteOrders{Creator: w.A("bot").Addr.String(), PerpetualOrderIds: []uint64{o.OrderId}}}})
		}
		if len(p.Txs) == 0 {
			p.Txs = one("bot", &tstypes.MsgExecuteOrders{Creator: w.A("bot").Addr.String(), SpotOrderIds: []uint64{1}})
		}
	})
	exec("ts_execute_all_plus_missing_bot", true, false)
	exec("ts_execute_all_twice", false, true)
	// price move and execution in ONE block: orders that were unmet when created become met
	exec("ts_execute_all_bot_at_3", false, false, "3")
	exec("ts_execute_all_bot_at_8", false, false, "8")
	l.Add("cfg_perp_maxpos0", "config", 1, func(w *World, p *BlockPlan) {
		p.Gov = append(p.Gov, func(ctx sdk.Context) error {
			pp := w.App.PerpetualKeeper.GetParams(ctx)
			pp.MaxOpenPositions = 0
			m := &perptypes.MsgUpdateParams{Authority: w.Gov, Params: &pp}
			if err := vb(m); err != nil {
				return err
			}
			_, err := perpkeeper.NewMsgServerImpl(*w.App.PerpetualKeeper).UpdateParams(ctx, m)
			return err
		})
	})
}

type c20Order struct {
	id      uint64
	perp    bool
	owner   string
	bytes   string
	escrow  sdk.AccAddress
	amount  sdk.Coin
	trigger func(atom, elys math.LegacyDec) bool
	desc    string
}

type c20Snap struct {
	orders map[string]*c20Order // "s<id>" / "p<id>"
	escrow map[string]sdk.Coins
	wallet map[string]sdk.Coins // own1, own2
	mtps   map[string]int
}

func c20Snapshot(w *World) *c20Snap {
	ctx := w.RCtx()
	s := &c20Snap{orders: map[string]*c20Order{}, escrow: map[string]sdk.Coins{}, wallet: map[string]sdk.Coins{}, mtps: map[string]int{}}
	price := func(d string, atom, elys math.LegacyDec) math.LegacyDec {
		switch d {
		case "uatom":
			return atom
		case "uelys":
			return elys
		case VoucherDenom:
			// 18 decimals against the 6 of every other asset: the price of one BASE unit, on the scale on which a
			// 6-decimals asset has its display price
			return Dec(VoucherPrice).Quo(math.LegacyNewDec(1000000000000))
		}
		return math.LegacyOneDec()
	}
	for _, o := range w.App.TradeshieldKeeper.GetAllPendingSpotOrder(ctx) {
		o := o
		k := fmt.Sprintf("s%d", o.OrderId)
		bz, _ := o.Marshal()
		co := &c20Order{id: o.OrderId, owner: o.OwnerAddress, bytes: string(bz), escrow: o.GetOrderAddress(), amount: o.OrderAmount, desc: fmt.Sprintf("spot order %d (%s %s rate %s)", o.OrderId, o.OrderType, o.OrderAmount, o.OrderPrice.Rate)}
		co.trigger = func(atom, elys math.LegacyDec) bool {
			m := price(o.OrderPrice.BaseDenom, atom, elys).Quo(price(o.OrderPrice.QuoteDenom, atom, elys))
			switch o.OrderType {
			case tstypes.SpotOrderType_LIMITSELL:
				return m.GTE(o.OrderPrice.Rate)
			case tstypes.SpotOrderType_LIMITBUY, tstypes.SpotOrderType_STOPLOSS:
				return m.LTE(o.OrderPrice.Rate)
			}
			return true
		}
		s.orders[k] = co
		s.escrow[k] = w.App.BankKeeper.GetAllBalances(ctx, co.escrow)
	}
	for _, o := range w.App.TradeshieldKeeper.GetAllPendingPerpetualOrder(ctx) {
		o := o
		k := fmt.Sprintf("p%d", o.OrderId)
		bz, _ := o.Marshal()
		co := &c20Order{id: o.OrderId, perp: true, owner: o.OwnerAddress, bytes: string(bz), escrow: o.GetOrderAddress(), amount: o.Collateral, desc: fmt.Sprintf("perpetual order %d (%s %s trigger %s)", o.OrderId, o.Position, o.Collateral, o.TriggerPrice.Rate)}
		co.trigger = func(atom, elys math.LegacyDec) bool {
			if o.Position == tstypes.PerpetualPosition_LONG {
				return atom.LTE(o.TriggerPrice.Rate)
			}
			return atom.GTE(o.TriggerPrice.Rate)
		}
		s.orders[k] = co
		s.escrow[k] = w.App.BankKeeper.GetAllBalances(ctx, co.escrow)
	}
	for _, n := range []string{"own1", "own2"} {
		s.wallet[n] = w.App.BankKeeper.GetAllBalances(ctx, w.A(n).Addr)
		s.mtps[n] = len(w.MTPsOf(n))
	}
	return s
}

func OracleC20() *Oracle {
	return &Oracle{Name: "C20",
		Pre: func(w *World, op *Op, plan *BlockPlan) interface{} { return c20Snapshot(w) },
		Post: func(t *Transition) []Finding {
			w := t.W
			pre := t.Pre.(*c20Snap)
			post := c20Snapshot(w)
			var out []Finding
			bad := func(clause, disc, detail string) {
				out = append(out, Finding{Clause: clause, Disc: disc, Detail: detail})
			}
			atom, elys := Dec(w.Env.Atom), Dec(w.Env.Elys)
			fed := t.Plan.Feed
			// what the block's successful txs asked for
			cancelled := map[string]string{} // order key -> signer address
			updated := map[string]string{}
			executed := map[string]bool{}
			for i, pt := range t.Plan.Txs {
				code := t.Res.Res.TxResults[t.Plan.TxIndex[i]].Code
				signer := w.A(pt.Signer).Addr.String()
				for _, m := range pt.Msgs {
					var keys []string
					kind := ""
					switch mm := m.(type) {
					case *tstypes.MsgCancelSpotOrder:
						keys, kind = []string{fmt.Sprintf("s%d", mm.OrderId)}, "cancel"
					case *tstypes.MsgCancelSpotOrders:
						for _, id := range mm.SpotOrderIds {
							keys = append(keys, fmt.Sprintf("s%d", id))
						}
						kind = "cancel"
					case *tstypes.MsgCancelPerpetualOrder:
						keys, kind = []string{fmt.Sprintf("p%d", mm.OrderId)}, "cancel"
					case *tstypes.MsgCancelPerpetualOrders:
						for _, id := range mm.OrderIds {
							keys = append(keys, fmt.Sprintf("p%d", id))
						}
						kind = "cancel"
					case *tstypes.MsgUpdateSpotOrder:
						keys, kind = []string{fmt.Sprintf("s%d", mm.OrderId)}, "update"
					case *tstypes.MsgUpdatePerpetualOrder:
						keys, kind = []string{fmt.Sprintf("p%d", mm.OrderId)}, "update"
					case *tstypes.MsgExecuteOrders:
						for _, id := range mm.SpotOrderIds {
							keys = append(keys, fmt.Sprintf("s%d", id))
						}
						for _, id := range mm.PerpetualOrderIds {
							keys = append(keys, fmt.Sprintf("p%d", id))
						}
						kind = "execute"
					}
					for _, k := range keys {
						o, known := pre.orders[k]
						if kind == "cancel" || kind == "update" {
							if known && o.owner != signer {
								Clauses.Inc("intruder_" + kind)
								if code == 0 {
									bad("non_owner_"+kind+"_accepted", "order="+kindOf(k), fmt.Sprintf("%s of %s signed by %s (not the owner) has code 0", kind, o.desc, pt.Signer))
								}
							}
						}
						if code != 0 {
							continue
						}
						switch kind {
						case "cancel":
							cancelled[k] = signer
						case "update":
							updated[k] = signer
						case "execute":
							executed[k] = true
						}
					}
				}
			}
			executedOK := map[string]sdk.Coins{} // owner name -> escrowed amounts that legitimately left F
			name := map[string]string{w.A("own1").Addr.String(): "own1", w.A("own2").Addr.String(): "own2"}
			for k, o := range pre.orders {
				met := o.trigger(atom, elys)
				po, still := post.orders[k]
				if !still {
					switch {
					case cancelled[k] == o.owner:
						Clauses.Inc("owner_cancel")
					case executed[k] && met:
						Clauses.Inc("execution_with_trigger_met")
						executedOK[name[o.owner]] = executedOK[name[o.owner]].Add(o.amount)
					case executed[k] && !fed:
						// no feed in this block: the previous block's price may still be live; not judged
						Clauses.Inc("execution_in_unfed_block_not_judged")
						executedOK[name[o.owner]] = executedOK[name[o.owner]].Add(o.amount)
					case executed[k] && !met:
						bad("executed_without_trigger", "order="+kindOf(k), fmt.Sprintf("%s was removed by an execute request although its trigger is not met (ATOM=%s, fed=%v)", o.desc, atom, fed))
					default:
						bad("order_removed_without_cause", "order="+kindOf(k), fmt.Sprintf("%s disappeared without an owner cancel or an execution", o.desc))
					}
					if b := w.App.BankKeeper.GetAllBalances(w.RCtx(), o.escrow); !b.IsZero() {
						bad("escrow_left_behind", "order="+kindOf(k), fmt.Sprintf("%s is gone but its escrow address still holds %s", o.desc, b))
					}
					continue
				}
				if po.bytes != o.bytes && updated[k] != o.owner {
					bad("order_record_changed", "order="+kindOf(k), fmt.Sprintf("%s changed without an owner update", o.desc))
				}
				if executed[k] && !met && fed {
					Clauses.Inc("execute_on_untriggered_order")
					if po.bytes != o.bytes || !post.escrow[k].Equal(pre.escrow[k]) {
						bad("untriggered_order_touched", "order="+kindOf(k), fmt.Sprintf("execute on %s (trigger not met) changed it: escrow %s -> %s", o.desc, pre.escrow[k], post.escrow[k]))
					}
				}
				if !executed[k] && !post.escrow[k].Equal(pre.escrow[k]) {
					bad("escrow_changed_without_request", "order="+kindOf(k), fmt.Sprintf("escrow of %s: %s -> %s", o.desc, pre.escrow[k], post.escrow[k]))
				}
			}
			// conservation of wallet + escrows per judged owner (own1: no market orders in the alphabet)
			for _, n := range []string{"own1"} {
				addr := w.A(n).Addr.String()
				F := func(s *c20Snap) sdk.Coins {
					f := s.wallet[n]
					for k, o := range s.orders {
						if o.owner == addr {
							f = f.Add(s.escrow[k]...)
						}
					}
					return f
				}
				f0, f1 := F(pre), F(post)
				Clauses.Inc("conservation")
				allowed := executedOK[n]
				for _, d := range []string{"uusdc", "uatom", "uelys", VoucherDenom} {
					lost := f0.AmountOf(d).Sub(f1.AmountOf(d))
					if lost.IsPositive() && lost.GT(allowed.AmountOf(d)) {
						cl := "owner_funds_lost_without_execution"
						if !allowed.IsZero() {
							cl = "execution_took_more_than_escrowed"
						}
						bad(cl, "denom="+d, fmt.Sprintf("%s: wallet+escrow of %s went %s -> %s (lost %s) while successfully executed orders account for %s; positions %d -> %d", n, d, f0.AmountOf(d), f1.AmountOf(d), lost, allowed.AmountOf(d), pre.mtps[n], post.mtps[n]))
					}
					if lost.IsNegative() && allowed.IsZero() {
						bad("owner_funds_grew_without_execution", "denom="+d, fmt.Sprintf("%s: wallet+escrow of %s grew by %s with no executed order", n, d, lost.Neg()))
					}
				}
			}
			return out
		},
	}
}

func kindOf(k string) string {
	if k[0] == 'p' {
		return "perpetual"
	}
	return "spot"
}
