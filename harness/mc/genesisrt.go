//go:build verif

package mc

import (
	"encoding/json"
	"fmt"
	"os"
	"sort"
	"strings"
	"time"

	abci "github.com/cometbft/cometbft/abci/types"
	dbm "github.com/cosmos/cosmos-db"
	simtestutil "github.com/cosmos/cosmos-sdk/testutil/sims"
)

// ExportImport exports the committed state as a genesis document (the application's own
// ExportAppStateAndValidators, not for zero height) and starts a FRESH application from it: InitChain
// at the exported height, one empty block, Commit. The returned world shares accounts and environment
// with w and owns its own database.
func (w *World) ExportImport() (n *World, err error) {
	defer func() {
		if r := recover(); r != nil {
			err = fmt.Errorf("panic: %v", r)
		}
	}()
	exp, err := w.App.ExportAppStateAndValidators(false, nil, nil)
	if err != nil {
		return nil, fmt.Errorf("export: %w", err)
	}
	home, err := os.MkdirTemp(WorkDir(), "home")
	if err != nil {
		return nil, err
	}
	db := dbm.NewMemDB()
	n = &World{DB: db, Home: home, Accs: w.Accs, Gov: w.Gov, ValHash: w.ValHash, ValAddr: w.ValAddr, Env: w.Env, BlockTimeout: w.BlockTimeout}
	n.App = newApp(db, home)
	tm := time.Unix(w.Env.Tm, 0).UTC()
	if _, err = n.App.InitChain(&abci.RequestInitChain{ConsensusParams: simtestutil.DefaultConsensusParams, AppStateBytes: exp.AppState, Time: tm, InitialHeight: exp.Height}); err != nil {
		return n, fmt.Errorf("InitChain: %w", err)
	}
	if _, err = n.App.FinalizeBlock(&abci.RequestFinalizeBlock{Height: exp.Height, Time: tm, NextValidatorsHash: w.ValHash}); err != nil {
		return n, fmt.Errorf("first block: %w", err)
	}
	if _, err = n.App.Commit(); err != nil {
		return n, fmt.Errorf("commit: %w", err)
	}
	return n, nil
}

// ---------------------------------------------------------------------------------------------
// Genesis round trip (an extension of the state-invariant properties): a chain started from the
// EXPORTED genesis of a reachable state is a chain like any other — the invariant must hold at its
// first block boundary and keep holding. For every root of the property and every single op of its
// alphabet: state := root + op; export; start a fresh application from the export; the drift vector
// of the state oracle must be the same on both sides; then two more blocks (empty, a day later) on
// the new chain, judged by the state and transition oracles like any block.

var genesisRTProps = map[string]bool{"C01": true, "C02": true, "C06": true, "C08": true, "C09": true, "C11": true, "C12": true, "C13": true, "C15": true, "C10": true, "C20": true}

var genesisRTFollow = []string{"empty", "gap_1d"}

// properties judged by TRANSITION oracles get follow-up blocks that exercise them on the new chain
var genesisRTFollowFor = map[string][]string{
	"C20": {"ts_spot_limitbuy_met_own2", "ts_perp_long_met_own2", "ts_cancel_all_by_own2", "ts_cancel_all_by_own1"},
	"C10": {"empty", "perp_bot_close_all", "llp_bot_close_all", "gap_1d"},
}

func grtFollow(prop string) []string {
	if f, ok := genesisRTFollowFor[prop]; ok {
		return f
	}
	return genesisRTFollow
}

var longHistoryProps = map[string]bool{"C01": true, "C06": true, "C08": true, "C09": true, "C11": true} // not C13: its claim-order drain hook branches by store rollback, which is what a thousand-version store cannot afford

var longHistoryChains = [][]string{
	{"empty", "gap_1d", "bond_lp1_D", "unbond_lp2_half", "llp_close_half_t1", "llp_open_t1_x2_again", "perp_close_half_t1", "perp_bot_close_all", "llp_bot_close_all", "mc_claim_lp1", "swap_in_p1_usdc_atom_L", "cfg_llp_fallback_on", "empty", "gap_1d"},
	{"cfg_llp_fallback_on", "empty", "llp_close_full_t1", "perp_close_full_t1", "unbond_lp2_all", "exit_p1_10pct_lp1", "gap_30d", "empty"},
	{ExportImportOp, "empty", "gap_1d", "llp_close_half_t1", "perp_close_half_t1"},
}

type grtUnit struct {
	Prop string `json:"prop"`
	Root string `json:"root"`
	Op   string `json:"op"` // "" = the root itself
	// Chain: when set, the unit is a plain LINEAR trace from the root (no export/import unless the chain names
	// it), every block of it judged — used from roots that are too old for the rollback explorer (R20)
	Chain []string `json:"chain,omitempty"`
}

func (u grtUnit) trace() []string {
	if len(u.Chain) > 0 {
		return append([]string{}, u.Chain...)
	}
	t := []string{}
	if u.Op != "" {
		t = append(t, u.Op)
	}
	t = append(t, ExportImportOp)
	return append(t, grtFollow(u.Prop)...)
}

func grtUnits(prop, tier string) []interface{} {
	cfg := WConfig(prop, tier)
	var us []interface{}
	seen := map[string]bool{}
	for _, ph := range cfg.Phases {
		if ph.First != nil || strings.HasPrefix(ph.Name, "union-") || strings.HasPrefix(ph.Name, "denom-sweep") {
			continue // product-shaped phases (configuration / denom sweeps) stay with the W run
		}
		for _, r := range ph.Roots {
			if tier != "thorough" && r != "R1" && r != "R3" && r != ph.Roots[len(ph.Roots)-1] {
				continue // quick: R1, R3 (lazily accrued debts) and the phase's most specific root
			}
			for _, o := range append([]string{""}, ph.Ops...) {
				k := r + "|" + o
				if !seen[k] {
					seen[k] = true
					us = append(us, grtUnit{Prop: prop, Root: r, Op: o})
				}
			}
		}
	}
	// LONG HISTORY (root R20: a thousand ordinary blocks since anything touched the open positions' debts):
	// store rollback over a thousand versions is far too slow for the explorer, so the root is followed by
	// fixed linear chains that visit every op family once, one of them through a genesis export / import
	if longHistoryProps[prop] {
		for _, c := range longHistoryChains {
			us = append(us, grtUnit{Prop: prop, Root: "R20", Chain: c})
		}
	}
	if !seen["R3|"] {
		us = append(us, grtUnit{Prop: prop, Root: "R3", Op: ""}, grtUnit{Prop: prop, Root: "R3", Op: "gap_1d"})
	}
	return us
}

func grtWorker(prop string) func(tier string) KUnitFunc {
	return func(tier string) KUnitFunc {
		cfg := WConfig(prop, tier)
		return func(raw json.RawMessage, deadline time.Time) *KStats {
			var u grtUnit
			if err := json.Unmarshal(raw, &u); err != nil {
				return &KStats{HarnessErr: err.Error()}
			}
			st := &KStats{Clauses: map[string]int64{}}
			if time.Now().After(deadline) {
				st.Incomplete = true
				return st
			}
			judgeFrom := 0
			if u.Op != "" && len(u.Chain) == 0 {
				judgeFrom = 1
			}
			tr := u.trace()
			fs, err := replayLinearFrom(cfg, u.Root, tr, judgeFrom)
			if err != nil {
				return &KStats{HarnessErr: fmt.Sprintf("genesis round trip %s%v: %v", u.Root, tr, err)}
			}
			st.Evaluations = int64(len(tr))
			st.Sequences = 1
			st.States = []string{u.Root + "|" + u.Op + strings.Join(u.Chain, ",")}
			if len(u.Chain) > 0 {
				st.Clauses["long_history_chains"]++
			} else {
				st.Clauses["genesis_round_trips"]++
			}
			seen := map[string]bool{}
			for _, f := range fs {
				if f.Clause == "genesis_export_import_failed" {
					// not a statement about the invariant: counted, reported in the evidence
					st.Clauses["state_not_importable"]++
					if len(st.Samples) < 1 {
						st.Samples = append(st.Samples, map[string]interface{}{"not_importable": u.Root + "[" + u.Op + "]", "error": f.Detail})
					}
					continue
				}
				if f.Culprit == "root" || seen[f.Sig()] {
					continue
				}
				seen[f.Sig()] = true
				st.Findings = append(st.Findings, KFinding{Finding: f, Input: append([]string{u.Root}, tr...), Len: len(tr)})
			}
			return st
		}
	}
}

func init() {
	for p := range genesisRTProps {
		KWorkers["GRT:"+p] = grtWorker(p)
	}
}

// genesisRTAll runs the part for prop and returns its findings as W-style violations (root + linear trace).
func genesisRTAll(prop, tier string, budget time.Duration) (sum *KSummary, vios []foundViolation) {
	units := grtUnits(prop, tier)
	sum = RunSharded("GRT:"+prop, tier, units, budget)
	best := map[string]foundViolation{}
	for _, f := range sum.Findings {
		in, _ := toStrings(f.Input)
		if len(in) == 0 {
			continue
		}
		v := foundViolation{Finding: f.Finding, Root: in[0], Trace: in[1:]}
		if old, ok := best[f.Sig()]; !ok || len(v.Trace) < len(old.Trace) {
			best[f.Sig()] = v
		}
	}
	keys := []string{}
	for k := range best {
		keys = append(keys, k)
	}
	sort.Strings(keys)
	for _, k := range keys {
		vios = append(vios, best[k])
	}
	return
}

// RunGenesisRT is a development probe: root + ops, then export/import, then every state oracle of prop on both worlds.
func RunGenesisRT(prop, root string, ops []string) int {
	cfg := WConfig(prop, "quick")
	fs, err := replayLinearFrom(cfg, root, append(append(append([]string{}, ops...), ExportImportOp), grtFollow(prop)...), len(ops))
	fmt.Println("err:", err)
	for _, f := range fs {
		fmt.Printf("FINDING %s culprit=%s %s: %s\n", f.Clause, f.Culprit, f.Disc, f.Detail)
	}
	return 0
}
