//go:build verif

package mc

import (
	"fmt"
	"os"
	"time"

	abci "github.com/cometbft/cometbft/abci/types"
	dbm "github.com/cosmos/cosmos-db"
	simtestutil "github.com/cosmos/cosmos-sdk/testutil/sims"
)

// ExportImport exports the committed state as a genesis document (the application's own
// ExportAppStateAndValidators, not for zero height) and starts a FRESH application from it: InitChain
// at the exported height, one empty block, Commit. The returned world shares accounts and environment
// with w and owns its own database.
func (w *World) ExportImport() (n *World, err error) {
	defer func() {
		if r := recover(); r != nil {
			err = fmt.Errorf("panic: %v", r)
		}
	}()
	exp, err := w.App.ExportAppStateAndValidators(false, nil, nil)
	if err != nil {
		return nil, fmt.Errorf("export: %w", err)
	}
	home, err := os.MkdirTemp(WorkDir(), "home")
	if err != nil {
		return nil, err
	}
	db := dbm.NewMemDB()
	n = &World{DB: db, Home: home, Accs: w.Accs, Gov: w.Gov, ValHash: w.ValHash, ValAddr: w.ValAddr, Env: w.Env, BlockTimeout: w.BlockTimeout}
	n.App = newApp(db, home)
	tm := time.Unix(w.Env.Tm, 0).UTC()
	if _, err = n.App.InitChain(&abci.RequestInitChain{ConsensusParams: simtestutil.DefaultConsensusParams, AppStateBytes: exp.AppState, Time: tm, InitialHeight: exp.Height}); err != nil {
		return n, fmt.Errorf("InitChain: %w", err)
	}
	if _, err = n.App.FinalizeBlock(&abci.RequestFinalizeBlock{Height: exp.Height, Time: tm, NextValidatorsHash: w.ValHash}); err != nil {
		return n, fmt.Errorf("first block: %w", err)
	}
	if _, err = n.App.Commit(); err != nil {
		return n, fmt.Errorf("commit: %w", err)
	}
	return n, nil
}

// RunGenesisRT is a development probe: root + ops, then export/import, then every state oracle of prop on both worlds.
func RunGenesisRT(prop, root string, ops []string) int {
	cfg := WConfig(prop, "quick")
	lib := NewOpLib()
	w := NewWorld(cfg.Fixture)
	defer w.Close()
	BuildRoot(w, root, lib)
	for _, o := range ops {
		br := w.ExecOp(lib.Get(o))
		fmt.Println("op", o, br.OK(), br.Err)
	}
	n, err := w.ExportImport()
	if n != nil {
		defer n.Close()
	}
	if err != nil {
		fmt.Println("EXPORT/IMPORT FAILED:", err)
		return 1
	}
	for _, o := range cfg.Oracles {
		if o.State == nil {
			continue
		}
		a, b := o.State(w), o.State(n)
		fmt.Println("oracle", o.Name, "before:", fmt.Sprint(a))
		fmt.Println("oracle", o.Name, "after: ", fmt.Sprint(b))
	}
	return 0
}
