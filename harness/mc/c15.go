//go:build verif

package mc

import (
	"fmt"
	ammtypes "github.com/elys-network/elys/x/amm/types"
	"strings"

	"cosmossdk.io/math"
	abci "github.com/cometbft/cometbft/abci/types"
	sdk "github.com/cosmos/cosmos-sdk/types"
	banktypes "github.com/cosmos/cosmos-sdk/x/bank/types"
	ctypes "github.com/elys-network/elys/x/commitment/types"
)

// C15: supply changes are attributed, per block and per scope (one tx, or the begin/end-block
// processing), to the bank module's own mint ("coinbase") and burn events, and each mint/burn is
// checked against what the statement allows for that denom.

type c15pre struct {
	supply      map[string]math.Int
	zeroElys    math.Int
	vestRelease map[string]math.Int // signer name -> uelys a ClaimVesting in the next block releases (reference formula)
	vestNowFac  math.Int
	claimedEden map[string]math.Int // claimed ueden of every signer that sends MsgVestNow in this block
	v           int64               // committed version and environment before the block (sibling blocks)
	env         Env
	height      int64
	provEpoch   int64    // current number of the provider-vesting epoch
	provRelease math.Int // what the provider reward account's schedule releases at the next height
}

const providerRewardModule = "cons_to_send_to_provider"

func provEpochNo(w *World, ctx sdk.Context) int64 {
	id := w.App.EstakingKeeper.GetParams(ctx).ProviderVestingEpochIdentifier
	ei, _ := w.App.EpochsKeeper.GetEpochInfo(ctx, id)
	return ei.CurrentEpoch
}

func supplyMap(w *World, ctx sdk.Context) map[string]math.Int {
	m := map[string]math.Int{}
	w.App.BankKeeper.IterateTotalSupply(ctx, func(c sdk.Coin) bool {
		m[c.Denom] = c.Amount
		return false
	})
	return m
}

// refVestRelease is the harness' own reading of the linear schedule: Σ_entries
// floor(total·min(h−start, n)/n) − claimed, for the uelys-vesting entries of addr at height h.
func refVestRelease(w *World, ctx sdk.Context, addr sdk.AccAddress, h int64) math.Int {
	cm := w.App.CommitmentKeeper.GetCommitments(ctx, addr)
	out := math.ZeroInt()
	for _, v := range cm.VestingTokens {
		if v.Denom != "uelys" || v.NumBlocks <= 0 {
			continue
		}
		e := h - v.StartBlock
		if e > v.NumBlocks {
			e = v.NumBlocks
		}
		if e < 0 {
			e = 0
		}
		vested := v.TotalAmount.MulRaw(e).QuoRaw(v.NumBlocks)
		out = out.Add(vested.Sub(v.ClaimedAmount))
	}
	return out
}

type scopeEv struct {
	name   string
	events []abci.Event
	msgs   []sdk.Msg
}

func attr(e abci.Event, k string) string {
	for _, a := range e.Attributes {
		if a.Key == k {
			return a.Value
		}
	}
	return ""
}

func hasPoolEvent(evs []abci.Event, typ string, poolDenom string) bool {
	id := strings.TrimPrefix(poolDenom, "amm/pool/")
	for _, e := range evs {
		if e.Type == typ && attr(e, "pool_id") == id {
			return true
		}
	}
	return false
}

func OracleC15() *Oracle {
	zero := sdk.AccAddress(make([]byte, 20))
	return &Oracle{Name: "C15",
		// share tokens exist only against what the pool / vault has BOOKED: the minted supply of a pool's
		// share token equals the pool's own share count in every state (a mint larger than the booked
		// deposit leaves share tokens without a deposit behind them)
		State: func(w *World) Measure {
			ctx := w.RCtx()
			m := Measure{}
			for _, p := range w.App.AmmKeeper.GetAllPool(ctx) {
				d := ammtypes.GetPoolShareDenom(p.PoolId)
				put(m, fmt.Sprintf("share_supply_vs_pool_book@pool=%d", p.PoolId), w.App.BankKeeper.GetSupply(ctx, d).Amount.Sub(p.TotalShares.Amount))
				Clauses.Inc("share_supply_vs_pool_book")
			}
			return m
		},
		Pre: func(w *World, op *Op, plan *BlockPlan) interface{} {
			ctx := w.RCtx()
			p := &c15pre{v: w.Height(), env: w.Env, supply: supplyMap(w, ctx), zeroElys: w.App.BankKeeper.GetBalance(ctx, zero, "uelys").Amount, vestRelease: map[string]math.Int{}, height: w.Height() + 1}
			for _, t := range plan.Txs {
				for _, m := range t.Msgs {
					if _, ok := m.(*ctypes.MsgClaimVesting); ok {
						p.vestRelease[t.Signer] = refVestRelease(w, ctx, w.A(t.Signer).Addr, p.height)
					}
					if _, ok := m.(*ctypes.MsgVestNow); ok {
						if p.claimedEden == nil {
							p.claimedEden = map[string]math.Int{}
						}
						cm := w.App.CommitmentKeeper.GetCommitments(ctx, w.A(t.Signer).Addr)
						p.claimedEden[t.Signer] = cm.GetClaimedForDenom("ueden")
					}
				}
			}
			p.provEpoch = provEpochNo(w, ctx)
			p.provRelease = refVestRelease(w, ctx, modAddr(providerRewardModule), p.height)
			p.vestNowFac = math.ZeroInt()
			if vi, _ := w.App.CommitmentKeeper.GetVestingInfo(ctx, "ueden"); vi != nil {
				p.vestNowFac = vi.VestNowFactor
			}
			return p
		},
		Post: func(t *Transition) []Finding {
			pre := t.Pre.(*c15pre)
			w := t.W
			ctx := w.RCtx()
			post := supplyMap(w, ctx)
			var out []Finding
			bad := func(clause, disc, detail string) {
				out = append(out, Finding{Clause: clause, Disc: disc, Detail: detail})
			}
			// scopes
			scopes := []scopeEv{{name: "block", events: t.Res.Res.Events}}
			txOf := map[int]*PlannedTx{}
			for i := range t.Plan.Txs {
				txOf[t.Plan.TxIndex[i]] = &t.Plan.Txs[i]
			}
			for i, r := range t.Res.Res.TxResults {
				sc := scopeEv{name: fmt.Sprintf("tx%d", i), events: r.Events}
				if pt, ok := txOf[i]; ok && r.Code == 0 {
					sc.msgs = pt.Msgs
				}
				scopes = append(scopes, sc)
			}
			minted, burned := map[string]math.Int{}, map[string]math.Int{}
			expectedElysMint := math.ZeroInt()
			zeroIn := math.ZeroInt()
			modName := func(addr string) string {
				for _, n := range []string{"commitment", "amm", "stablestake", "burner", "gov", "bonded_tokens_pool", "not_bonded_tokens_pool", "masterchef", "perpetual", "leveragelp", "estaking", "tokenomics", "mint", "distribution", "transfer", "tradeshield", "tier", "oracle"} {
					if modAddr(n).String() == addr {
						return n
					}
				}
				return addr
			}
			// an immediate conversion (VestNow) mints native tokens AGAINST Eden: the Eden must leave the book.
			// Block processing may credit Eden to the same account in the same block (a forced close claims its
			// rewards), so the transaction's own effect is measured against the SIBLING block without it: same
			// header, same other transactions.
			for i, r := range t.Res.Res.TxResults {
				pt, ok := txOf[i]
				if !ok || r.Code != 0 || len(pt.Msgs) != 1 {
					continue
				}
				vn, ok := pt.Msgs[0].(*ctypes.MsgVestNow)
				if !ok || vn.Denom != "ueden" {
					continue
				}
				cmAfter := w.App.CommitmentKeeper.GetCommitments(ctx, w.A(pt.Signer).Addr)
				after := cmAfter.GetClaimedForDenom("ueden")
				wantHash := string(w.App.LastCommitID().Hash)
				w.Rollback(pre.v, pre.env)
				sib := *t.Plan
				sib.Txs = nil
				for j := range t.Plan.Txs {
					if &t.Plan.Txs[j] != pt {
						sib.Txs = append(sib.Txs, t.Plan.Txs[j])
					}
				}
				sib.TxIndex, sib.GovErrs = nil, nil
				if br := w.Exec(&sib); br.OK() {
					cmSib := w.App.CommitmentKeeper.GetCommitments(w.RCtx(), w.A(pt.Signer).Addr)
					without := cmSib.GetClaimedForDenom("ueden")
					Clauses.Inc("vest_now_consumes_eden")
					if took := without.Sub(after); !took.Equal(vn.Amount) {
						bad("vest_now_minted_without_consuming_eden", "", fmt.Sprintf("MsgVestNow of %s ueden by %s succeeded; the block leaves the account with %s claimed Eden, the same block WITHOUT the message with %s (difference %s)", vn.Amount, pt.Signer, after, without, took))
					}
				}
				w.Rollback(pre.v, pre.env)
				re := *t.Plan
				re.TxIndex, re.GovErrs = nil, nil
				if rb := w.Exec(&re); !rb.OK() || string(w.App.LastCommitID().Hash) != wantHash {
					panic(fmt.Sprintf("C15 sibling check: re-execution of %s diverged", t.Op.Name))
				}
				ctx = w.RCtx()
			}
			for _, sc := range scopes {
				for _, m := range sc.msgs {
					switch mm := m.(type) {
					case *ctypes.MsgClaimVesting:
						for _, pt := range t.Plan.Txs {
							if w.A(pt.Signer).Addr.String() == mm.Sender {
								expectedElysMint = expectedElysMint.Add(pre.vestRelease[pt.Signer])
							}
						}
					case *ctypes.MsgVestNow:
						if pre.vestNowFac.IsPositive() {
							expectedElysMint = expectedElysMint.Add(mm.Amount.Quo(pre.vestNowFac))
						}
					case *banktypes.MsgSend:
						if mm.ToAddress == zero.String() {
							zeroIn = zeroIn.Add(mm.Amount.AmountOf("uelys"))
						}
					}
				}
				for _, e := range sc.events {
					isMint := e.Type == banktypes.EventTypeCoinMint
					isBurn := e.Type == banktypes.EventTypeCoinBurn
					if !isMint && !isBurn {
						continue
					}
					who := attr(e, "minter")
					if isBurn {
						who = attr(e, "burner")
					}
					coins, err := sdk.ParseCoinsNormalized(attr(e, sdk.AttributeKeyAmount))
					if err != nil {
						bad("unparsable_supply_event", "scope="+sc.name, e.String())
						continue
					}
					mod := modName(who)
					for _, c := range coins {
						d := c.Denom
						if isMint {
							minted[d] = geti(minted, d).Add(c.Amount)
						} else {
							burned[d] = geti(burned, d).Add(c.Amount)
						}
						kind := "burn"
						if isMint {
							kind = "mint"
						}
						switch {
						case d == "uelys":
							Clauses.Inc("uelys_" + kind)
							if isMint && mod != "commitment" {
								bad("native_minted_outside_vesting", "module="+mod, fmt.Sprintf("%s minted %s in %s", mod, c, sc.name))
							}
							if isBurn && mod != "burner" && mod != "gov" && mod != "bonded_tokens_pool" && mod != "not_bonded_tokens_pool" {
								bad("native_burned_outside_burner", "module="+mod, fmt.Sprintf("%s burned %s in %s", mod, c, sc.name))
							}
						case strings.HasPrefix(d, "amm/pool/"):
							Clauses.Inc("pool_share_" + kind)
							if mod != "amm" {
								bad("share_token_"+kind+"_by_wrong_module", "denom=amm/pool/N,module="+mod, fmt.Sprintf("%s %s %s in %s", mod, kind, c, sc.name))
							}
							if isMint && !(hasPoolEvent(sc.events, "pool_joined", d) || hasPoolEvent(sc.events, "pool_created", d)) {
								bad("share_mint_without_deposit", "denom=amm/pool/N", fmt.Sprintf("%s minted in %s without a join/creation of that pool in the same scope", c, sc.name))
							}
							if isBurn && !hasPoolEvent(sc.events, "pool_exited", d) {
								bad("share_burn_without_withdrawal", "denom=amm/pool/N", fmt.Sprintf("%s burned in %s without an exit of that pool in the same scope", c, sc.name))
							}
						case d == "stablestake/share":
							Clauses.Inc("vault_share_" + kind)
							if mod != "stablestake" {
								bad("share_token_"+kind+"_by_wrong_module", "denom=stablestake/share,module="+mod, fmt.Sprintf("%s %s %s in %s", mod, kind, c, sc.name))
							}
							okMsg := false
							for _, m := range sc.msgs {
								n := sdk.MsgTypeURL(m)
								if (isMint && n == "/elys.stablestake.MsgBond") || (isBurn && n == "/elys.stablestake.MsgUnbond") {
									okMsg = true
								}
							}
							if !okMsg {
								bad("vault_share_"+kind+"_without_bond_unbond", "denom=stablestake/share", fmt.Sprintf("%s %s in %s without a matching Bond/Unbond message", kind, c, sc.name))
							}
						default:
							bad("external_asset_"+kind, "denom="+d+",module="+mod, fmt.Sprintf("%s %s %s in %s", mod, kind, c, sc.name))
						}
					}
				}
			}
			// conversely every withdrawal / deposit of a pool is accompanied, in the same scope, by a burn /
			// mint of that pool's share token (a committed exit whose shares are not burnt leaves
			// unbacked share tokens behind)
			for _, sc := range scopes {
				for _, e := range sc.events {
					if e.Type != "pool_exited" && e.Type != "pool_joined" {
						continue
					}
					d := "amm/pool/" + attr(e, "pool_id")
					want := banktypes.EventTypeCoinBurn
					what := "exit_without_share_burn"
					if e.Type == "pool_joined" {
						want, what = banktypes.EventTypeCoinMint, "join_without_share_mint"
					}
					found := false
					for _, e2 := range sc.events {
						if e2.Type == want {
							if cs, err := sdk.ParseCoinsNormalized(attr(e2, sdk.AttributeKeyAmount)); err == nil && cs.AmountOf(d).IsPositive() {
								found = true
							}
						}
					}
					Clauses.Inc("deposit_withdrawal_matched_by_mint_burn")
					if !found {
						bad(what, "denom=amm/pool/N", fmt.Sprintf("%s of pool %s in %s without a matching share-token event in the same scope", e.Type, attr(e, "pool_id"), sc.name))
					}
				}
			}
			// supply delta must be fully explained by the mint/burn events seen
			denoms := map[string]bool{}
			for d := range pre.supply {
				denoms[d] = true
			}
			for d := range post {
				denoms[d] = true
			}
			for d := range denoms {
				delta := geti(post, d).Sub(geti(pre.supply, d))
				exp := geti(minted, d).Sub(geti(burned, d))
				Clauses.Inc("supply_delta_explained")
				if !delta.Equal(exp) {
					bad("supply_change_without_event", "denom="+denomClass(d), fmt.Sprintf("supply of %s changed by %s, mint/burn events explain %s", d, delta, exp))
				}
				if d != "uelys" && !strings.HasPrefix(d, "amm/pool/") && d != "stablestake/share" {
					Clauses.Inc("external_supply_constant")
					if !delta.IsZero() {
						bad("external_asset_supply_changed", "denom="+d, fmt.Sprintf("supply of %s changed by %s", d, delta))
					}
				}
			}
			// the provider reward account's own vesting is claimed by estaking when its epoch starts
			if provEpochNo(w, ctx) != pre.provEpoch {
				expectedElysMint = expectedElysMint.Add(pre.provRelease)
				if pre.provRelease.IsPositive() {
					Clauses.Inc("provider_vesting_release")
				}
			}
			if !geti(minted, "uelys").Equal(expectedElysMint) {
				bad("native_mint_not_equal_vesting_release", "", fmt.Sprintf("uelys minted %s, vesting releases due in this block (reference schedule) %s", geti(minted, "uelys"), expectedElysMint))
			}
			if expectedElysMint.IsPositive() {
				Clauses.Inc("native_mint_equals_release_nonzero")
			}
			// burner: burns exactly what sat on the zero address
			zeroPost := w.App.BankKeeper.GetBalance(ctx, zero, "uelys").Amount
			if !pre.zeroElys.Add(zeroIn).Sub(geti(burned, "uelys")).Equal(zeroPost) {
				bad("burn_not_from_burn_address", "", fmt.Sprintf("zero address uelys: before %s + received %s - burned %s != after %s", pre.zeroElys, zeroIn, geti(burned, "uelys"), zeroPost))
			}
			if geti(burned, "uelys").IsPositive() {
				Clauses.Inc("burner_burned_nonzero")
			}
			return out
		},
	}
}
