//go:build verif

package mc

import (
	"bufio"
	"encoding/json"
	"fmt"
	"os"
	"path/filepath"
	"regexp"
	"sort"
	"strconv"
	"strings"
)

func VerifDir() string {
	d := os.Getenv("VERIF_DIR")
	if d == "" {
		d = "/verif"
	}
	return d
}

// OutDir is where evidence and replays are written (VERIF_OUT lets mutant runs write elsewhere).
func OutDir() string {
	if d := os.Getenv("VERIF_OUT"); d != "" {
		return d
	}
	return VerifDir()
}

func Seed() int64 {
	s, _ := strconv.ParseInt(os.Getenv("VERIF_SEED"), 10, 64)
	return s
}

// KnownFinding is one committed entry of /verif/known_findings.jsonl.
type KnownFinding struct {
	Status   string `json:"status"` // "known" | "fixed"
	Property string `json:"property"`
	Clause   string `json:"clause"`
	Culprit  string `json:"culprit"` // regex on the culprit op kind
	Disc     string `json:"disc"`    // regex on the discriminators
	What     string `json:"what"`
	Commit   string `json:"commit,omitempty"`
}

func LoadKnownFindings() []KnownFinding {
	f, err := os.Open(filepath.Join(VerifDir(), "known_findings.jsonl"))
	if err != nil {
		return nil
	}
	defer f.Close()
	var out []KnownFinding
	sc := bufio.NewScanner(f)
	sc.Buffer(make([]byte, 1<<20), 1<<20)
	for sc.Scan() {
		line := strings.TrimSpace(sc.Text())
		if line == "" || strings.HasPrefix(line, "#") {
			continue
		}
		var k KnownFinding
		if err := json.Unmarshal([]byte(line), &k); err != nil {
			fmt.Fprintln(os.Stderr, "known_findings.jsonl: bad line:", err)
			continue
		}
		out = append(out, k)
	}
	return out
}

func full(re, s string) bool {
	if re == "" {
		return true
	}
	m, err := regexp.MatchString("^(?:"+re+")$", s)
	return err == nil && m
}

// MatchKnown returns the known (status=known) entry matching the finding, if any. Fixed entries
// suppress nothing.
func MatchKnown(kf []KnownFinding, property string, f Finding) *KnownFinding {
	for i := range kf {
		k := &kf[i]
		if k.Status != "known" || k.Property != property {
			continue
		}
		if k.Clause == f.Clause && full(k.Culprit, f.Culprit) && full(k.Disc, f.Disc) {
			return k
		}
	}
	return nil
}

// Replay is the replayable artefact of one violation.
type Replay struct {
	Property string                 `json:"property"`
	Engine   string                 `json:"engine"`
	Variant  string                 `json:"fixture_variant"`
	Root     string                 `json:"root"`
	Ops      []string               `json:"ops"`
	Finding  Finding                `json:"finding"`
	Extra    map[string]interface{} `json:"extra,omitempty"`
}

func WriteReplay(r *Replay, n int) string {
	dir := filepath.Join(OutDir(), "replays")
	os.MkdirAll(dir, 0o755)
	p := filepath.Join(dir, fmt.Sprintf("%s-%d.json", r.Property, n))
	b, _ := json.MarshalIndent(r, "", " ")
	os.WriteFile(p, b, 0o644)
	return p
}

// Evidence is /verif/evidence/<id>.json.
type Evidence struct {
	PropertyID  string                 `json:"property_id"`
	Tier        string                 `json:"tier"`
	Seed        int64                  `json:"seed"`
	Level       string                 `json:"level"`
	Coverage    map[string]interface{} `json:"coverage"`
	Assumptions []string               `json:"assumptions"`
	WallS       float64                `json:"wall_s"`
	Violations  int                    `json:"violations"`
}

func WriteEvidence(e *Evidence) {
	dir := filepath.Join(OutDir(), "evidence")
	os.MkdirAll(dir, 0o755)
	b, _ := json.MarshalIndent(e, "", " ")
	os.WriteFile(filepath.Join(dir, e.PropertyID+".json"), b, 0o644)
}

// ReplayLinear re-executes root+ops on a fresh world without the explorer and returns every
// finding of the property's oracles along the path (the "plain unit test" form of a trace).
func ReplayLinear(cfg *Config, root string, ops []string) ([]Finding, error) {
	return replayLinearFrom(cfg, root, ops, 0)
}

// ExportImportOp is a pseudo-op of linear traces: the committed state is exported as a genesis
// document and a FRESH application is started from it (World.ExportImport); the trace continues there.
const ExportImportOp = "export_import"

// replayLinearFrom judges only the steps with index >= judgeFrom (the steps before only build the state).
func replayLinearFrom(cfg *Config, root string, ops []string, judgeFrom int) ([]Finding, error) {
	lib := NewOpLib()
	w := NewWorld(cfg.Fixture)
	defer func() { w.Close() }()
	BuildRoot(w, root, lib)
	var out []Finding
	measure := func() []Measure {
		ms := make([]Measure, len(cfg.Oracles))
		for i, o := range cfg.Oracles {
			if o.State != nil {
				ms[i] = o.State(w)
			}
		}
		return ms
	}
	parent := measure()
	for i, o := range cfg.Oracles {
		if o.State == nil {
			continue
		}
		for k, v := range parent[i] {
			if nz(v) {
				cl, disc := splitKey(k)
				culprit := "root"
				if root == "R20" {
					// the thousand ordinary blocks that BUILT this root are part of the judged history (no explorer
					// phase starts from it; only linear chains do)
					culprit = "long_idle_history"
				}
				out = append(out, Finding{Clause: cl, Culprit: culprit, Disc: disc, Detail: "non-zero drift " + v + " at root"})
			}
		}
	}
	out = append(out, replayNodeHook(cfg, w, root, nil)...)
	if judgeFrom > 0 {
		out = nil
	}
	path := []string{}
	for step, n := range ops {
		if step == judgeFrom && judgeFrom > 0 {
			out = nil // drop what the state-building steps reported
		}
		if n == ExportImportOp {
			path = append(path, n)
			nw, err := w.ExportImport()
			if err != nil {
				if nw != nil {
					nw.Close()
				}
				out = append(out, Finding{Clause: "genesis_export_import_failed", Culprit: "genesis_export_import", Disc: "", Detail: err.Error()})
				return out, nil
			}
			w.Close()
			w = nw
			ms := measure()
			for i, o := range cfg.Oracles {
				if o.State != nil {
					for k, v := range ms[i] {
						pv := parent[i][k]
						if nz(v) && v != pv {
							cl, disc := splitKey(k)
							out = append(out, Finding{Clause: cl, Culprit: "genesis_export_import", Disc: disc, Detail: fmt.Sprintf("drift %s -> %s between the exporting chain and the chain started from its exported genesis", orZero(pv), v)})
						}
					}
				}
			}
			parent = ms
			continue
		}
		if !lib.Has(n) {
			return out, fmt.Errorf("unknown op %s", n)
		}
		op := lib.Get(n)
		path = append(path, n)
		plan := w.PlanOp(op)
		pres := make([]interface{}, len(cfg.Oracles))
		for i, o := range cfg.Oracles {
			if o.Pre != nil {
				pres[i] = o.Pre(w, op, plan)
			}
		}
		br := w.Exec(plan)
		if !br.OK() {
			if cfg.BlockFailure {
				out = append(out, Finding{Clause: "block_processing_failed", Culprit: "block", Disc: blockFailureDisc(br.Err), Detail: br.Err})
			}
			return out, nil
		}
		ms := measure()
		for i, o := range cfg.Oracles {
			if o.State != nil {
				for k, v := range ms[i] {
					pv := parent[i][k]
					if nz(v) && v != pv {
						cl, disc := splitKey(k)
						// the linear replay reports both attributions; the caller matches on either
						out = append(out, Finding{Clause: cl, Culprit: op.Kind, Disc: disc, Detail: fmt.Sprintf("drift %s -> %s after op %s", orZero(pv), v, op.Name)})
						out = append(out, Finding{Clause: cl, Culprit: "block_processing", Disc: disc, Detail: fmt.Sprintf("drift %s -> %s after op %s", orZero(pv), v, op.Name)})
					}
				}
			}
			if o.Post != nil {
				for _, f := range o.Post(&Transition{W: w, Op: op, Plan: plan, Res: br, Pre: pres[i], Path: path}) {
					if f.Culprit == "" {
						f.Culprit = op.Kind
					}
					out = append(out, f)
				}
			}
		}
		parent = ms
		out = append(out, replayNodeHook(cfg, w, root, path)...)
	}
	return out, nil
}

// replayNodeHook runs the property's node hook (extra exploration below a node, e.g. C13's claim-order
// drain) at one node of a linear replay and returns what it records.
func replayNodeHook(cfg *Config, w *World, root string, path []string) []Finding {
	if cfg.NodeHook == nil {
		return nil
	}
	x := &Explorer{Cfg: cfg, W: w, res: &unitResult{}, vioSeen: map[string]int{}}
	cfg.NodeHook(x, len(path), append([]string{}, path...), root, 0)
	var out []Finding
	for _, v := range x.res.Violations {
		out = append(out, v.Finding)
	}
	return out
}

// Conclude turns a Summary into evidence, replay files, stdout lines and an exit code.
func Conclude(cfg *Config, sum *Summary) int {
	kf := LoadKnownFindings()
	exit := 0
	nvio := 0
	var vioOut []map[string]interface{}
	knownPrinted := map[string]bool{}
	for _, v := range sum.Violations {
		if k := MatchKnown(kf, cfg.Property, v.Finding); k != nil {
			line := fmt.Sprintf("KNOWN-FINDING: property=%s %s", cfg.Property, k.What)
			if !knownPrinted[line] {
				fmt.Println(line)
				knownPrinted[line] = true
			}
			vioOut = append(vioOut, map[string]interface{}{"known": true, "finding": v.Finding, "root": v.Root, "trace": v.Trace})
			continue
		}
		// reproduce once linearly, without the explorer, before believing it
		rcfg := *cfg
		rcfg.Fixture.Variant = v.Variant
		var fs []Finding
		var err error
		if v.Root == "K" {
			// keeper-level product case: pure function of its input, re-evaluated by re-running the product
			var again []foundViolation
			if cfg.Property == "C10" {
				_, again = c10kAll()
			} else if cfg.Property == "C18" {
				_, again = c18kAllocationAll()
			} else {
				_, again = c12kAll()
				_, again2 := c12kKeeperAll(3)
				again = append(again, again2...)
				_, again3 := c12kBoostAll()
				again = append(again, again3...)
			}
			for _, a := range again {
				fs = append(fs, a.Finding)
			}
		} else {
			fs, err = ReplayLinear(&rcfg, v.Root, v.Trace)
		}
		repro := false
		for _, f := range fs {
			if f.Sig() == v.Sig() {
				repro = true
			}
		}
		if err != nil || !repro {
			sum.HarnessErrs = append(sum.HarnessErrs, fmt.Sprintf("violation %s on %s%v did not reproduce on a linear replay (err=%v)", v.Sig(), v.Root, v.Trace, err))
			continue
		}
		nvio++
		p := WriteReplay(&Replay{Property: cfg.Property, Engine: "W", Variant: v.Variant, Root: v.Root, Ops: v.Trace, Finding: v.Finding}, nvio)
		fmt.Printf("VIOLATION property=%s replay=%s\n", cfg.Property, p)
		fmt.Printf("  clause=%s culprit=%s disc=%s\n  trace=%s%v\n  %s\n", v.Clause, v.Culprit, v.Disc, v.Root, v.Trace, firstLines(v.Detail, 6))
		vioOut = append(vioOut, map[string]interface{}{"known": false, "finding": v.Finding, "variant": v.Variant, "root": v.Root, "trace": v.Trace, "replay": p})
		exit = 1
	}
	vac := []string{}
	for k, n := range sum.Clauses {
		if n == 0 {
			vac = append(vac, k)
		}
	}
	sort.Strings(vac)
	phases := []map[string]interface{}{}
	for _, ph := range cfg.Phases {
		phases = append(phases, map[string]interface{}{"name": ph.Name, "roots": ph.Roots, "alphabet": ph.Ops, "alphabet_size": len(ph.Ops), "depth": ph.Depth, "deviation_budget": ph.Dev})
	}
	samples := []interface{}{}
	for _, s := range sum.Samples {
		samples = append(samples, s)
	}
	if len(samples) == 0 {
		samples = append(samples, "no complete path (see harness_errors)")
	}
	ev := &Evidence{PropertyID: cfg.Property, Tier: cfg.Tier, Seed: Seed(), Level: "model_checking", WallS: sum.Wall, Violations: nvio, Assumptions: cfg.Assumptions,
		Coverage: map[string]interface{}{
			"states":                        sum.States,
			"transitions":                   sum.Transitions,
			"traces_validated_against_impl": sum.Validated,
			"samples":                       samples,
			"exhaustive":                    sum.Exhaustive && len(sum.HarnessErrs) == 0,
			"engine":                        "W: explicit-state DFS over the real ElysApp (FinalizeBlock/Commit per transition, store rollback to backtrack)",
			"rule":                          cfg.Rule,
			"phases":                        phases,
			"fixture_variants":              cfg.Variants,
			"phases_completed":              sum.PhasesDone,
			"shards_total":                  sum.UnitsTotal,
			"shards_completed":              sum.UnitsDone,
			"max_depth_reached":             sum.MaxDepth,
			"distinct_outcomes":             sum.Outcomes,
			"blocks_failed":                 sum.Blocked,
			"blocks_failed_at":              sum.BlockedAt,
			"txs_ok":                        sum.OkTxs,
			"txs_failed":                    sum.FailedTxs,
			"clause_evaluations":            sum.Clauses,
			"ops_succeeded":                 sum.OpOk,
			"ops_failed":                    sum.OpFail,
			"findings":                      vioOut,
			"harness_errors":                sum.HarnessErrs,
			"validation":                    "each validated trace is re-executed linearly (no rollback) on a fresh ElysApp over a copy of the root database; the resulting app hash must equal the explorer's",
		}}
	WriteEvidence(ev)
	fmt.Printf("%s %s: states=%d transitions=%d validated=%d outcomes=%d blocks_failed=%d exhaustive=%v violations=%d wall=%.1fs\n",
		cfg.Property, cfg.Tier, sum.States, sum.Transitions, sum.Validated, sum.Outcomes, sum.Blocked, ev.Coverage["exhaustive"], nvio, sum.Wall)
	if !cfg.BlockFailure {
		for _, b := range sum.BlockedAt {
			fmt.Println("NOTE: block processing failed (judged by C18, not by this property):", firstLines(b, 2))
		}
	}
	if len(sum.HarnessErrs) > 0 {
		for _, e := range sum.HarnessErrs {
			fmt.Println("HARNESS-ERROR:", firstLines(e, 8))
		}
		if exit == 0 {
			exit = 2
		}
	}
	return exit
}

func firstLines(s string, n int) string {
	ls := strings.Split(s, "\n")
	if len(ls) > n {
		ls = ls[:n]
	}
	return strings.Join(ls, "\n  ")
}
