//go:build verif

package mc

import (
	"fmt"
	"strconv"
	"strings"

	"cosmossdk.io/math"
	sdk "github.com/cosmos/cosmos-sdk/types"
	ammtypes "github.com/elys-network/elys/x/amm/types"
	atypes "github.com/elys-network/elys/x/assetprofile/types"
	burnerkeeper "github.com/elys-network/elys/x/burner/keeper"
	burnertypes "github.com/elys-network/elys/x/burner/types"
	cmkeeper "github.com/elys-network/elys/x/commitment/keeper"
	ctypes "github.com/elys-network/elys/x/commitment/types"
	eskeeper "github.com/elys-network/elys/x/estaking/keeper"
	estypes "github.com/elys-network/elys/x/estaking/types"
	llpkeeper "github.com/elys-network/elys/x/leveragelp/keeper"
	llptypes "github.com/elys-network/elys/x/leveragelp/types"
	mckeeper "github.com/elys-network/elys/x/masterchef/keeper"
	mctypes "github.com/elys-network/elys/x/masterchef/types"
	oraclekeeper "github.com/elys-network/elys/x/oracle/keeper"
	oracletypes "github.com/elys-network/elys/x/oracle/types"
	perpkeeper "github.com/elys-network/elys/x/perpetual/keeper"
	perptypes "github.com/elys-network/elys/x/perpetual/types"
	sskeeper "github.com/elys-network/elys/x/stablestake/keeper"
	sstypes "github.com/elys-network/elys/x/stablestake/types"
	tkkeeper "github.com/elys-network/elys/x/tokenomics/keeper"
	tktypes "github.com/elys-network/elys/x/tokenomics/types"
)

func Dec(s string) math.LegacyDec  { return math.LegacyMustNewDecFromStr(s) }
func I(v int64) math.Int           { return math.NewInt(v) }
func C(d string, v int64) sdk.Coin { return sdk.NewInt64Coin(d, v) }

// FeedTx is the feeder's MsgFeedMultiplePrices with the environment's current prices.
func (w *World) FeedMsg() sdk.Msg {
	f := w.A("feeder")
	return &oracletypes.MsgFeedMultiplePrices{Creator: f.Addr.String(), FeedPrices: []oracletypes.FeedPrice{
		{Asset: "USDC", Price: math.LegacyOneDec(), Source: "elys"},
		{Asset: "ATOM", Price: Dec(w.Env.Atom), Source: "elys"},
		{Asset: "ELYS", Price: Dec(w.Env.Elys), Source: "elys"},
		{Asset: "WETH", Price: Dec(VoucherPrice), Source: "elys"},
	}}
}

// FixtureCfg selects configuration variants applied at fixture time.
type FixtureCfg struct {
	Variant string // "" = default
}

// mustBlock runs a fixture block whose every tx must succeed.
func (w *World) mustBlock(what string, txs ...PlannedTx) {
	p := &BlockPlan{Dt: 5, Feed: true, Txs: txs}
	br := w.Exec(p)
	if !br.OK() {
		panic("fixture block " + what + ": " + br.Err)
	}
	for i, r := range br.Res.TxResults {
		if r.Code != 0 {
			panic(fmt.Sprintf("fixture block %s: tx %d failed: %s", what, i, r.Log))
		}
	}
}

func mkPoolMsg(sender Acct, oracle bool, d2 string, a2, ausdc int64, w2, wusdc int64, fee string) sdk.Msg {
	return &ammtypes.MsgCreatePool{Sender: sender.Addr.String(),
		PoolParams: ammtypes.PoolParams{UseOracle: oracle, SwapFee: Dec(fee), FeeDenom: "uusdc"},
		PoolAssets: []ammtypes.PoolAsset{
			{Token: C(d2, a2), Weight: I(w2), ExternalLiquidityRatio: math.LegacyNewDec(2)},
			{Token: C("uusdc", ausdc), Weight: I(wusdc), ExternalLiquidityRatio: math.LegacyNewDec(2)},
		}}
}

// NewWorld builds root R0: the committed DeFi fixture described in DESIGN.md §2.
func NewWorld(cfg FixtureCfg) *World {
	w := NewBareWorld()
	app := w.App
	gov := w.Gov
	// listings and feeder registration (keeper setters on the committed store; these are fixture
	// facts, not behaviour under test)
	w.MustGov("listings", func(ctx sdk.Context) error {
		for _, d := range [][2]string{{"uusdc", "USDC"}, {"uatom", "ATOM"}, {"uelys", "ELYS"}} {
			app.AssetprofileKeeper.SetEntry(ctx, atypes.Entry{BaseDenom: d[0], Denom: d[0], Decimals: 6, DisplayName: d[1], CommitEnabled: true, WithdrawEnabled: true, Authority: gov})
			app.OracleKeeper.SetAssetInfo(ctx, oracletypes.AssetInfo{Denom: d[0], Display: d[1], Decimal: 6})
		}
		app.AssetprofileKeeper.SetEntry(ctx, atypes.Entry{BaseDenom: VoucherBase, Denom: VoucherDenom, Decimals: 18, DisplayName: "WETH", CommitEnabled: true, WithdrawEnabled: true, Authority: gov})
		app.OracleKeeper.SetAssetInfo(ctx, oracletypes.AssetInfo{Denom: VoucherDenom, Display: "WETH", Decimal: 18})
		for _, d := range []string{"ueden", "uedenb"} {
			app.AssetprofileKeeper.SetEntry(ctx, atypes.Entry{BaseDenom: d, Denom: d, Decimals: 6, DisplayName: d, CommitEnabled: true, WithdrawEnabled: true, Authority: gov})
		}
		app.OracleKeeper.SetPriceFeeder(ctx, oracletypes.PriceFeeder{Feeder: w.A("feeder").Addr.String(), IsActive: true})
		ap := app.AmmKeeper.GetParams(ctx)
		ap.AllowedPoolCreators = append(ap.AllowedPoolCreators, w.A("lp1").Addr.String())
		ap.BaseAssets = []string{"uusdc"}
		app.AmmKeeper.SetParams(ctx, ap)
		return nil
	})
	w.mustBlock("first feed")
	lp1, lp2 := w.A("lp1"), w.A("lp2")
	w.mustBlock("pool1", PlannedTx{Signer: "lp1", Msgs: []sdk.Msg{mkPoolMsg(lp1, true, "uatom", 1e12, 5e12, 10, 10, "0.002")}})
	w.mustBlock("pool2", PlannedTx{Signer: "lp1", Msgs: []sdk.Msg{mkPoolMsg(lp1, false, "uelys", 1e12, 3e12, 10, 10, "0.003")}})
	w.MustGov("leveragelp AddPool", func(ctx sdk.Context) error {
		_, err := llpkeeper.NewMsgServerImpl(*app.LeveragelpKeeper).AddPool(ctx, &llptypes.MsgAddPool{Authority: gov, Pool: llptypes.AddPool{AmmPoolId: 1, LeverageMax: math.LegacyNewDec(10)}})
		return err
	})
	w.MustGov("inflation", func(ctx sdk.Context) error {
		_, err := tkkeeper.NewMsgServerImpl(app.TokenomicsKeeper).CreateTimeBasedInflation(ctx, &tktypes.MsgCreateTimeBasedInflation{Authority: gov, StartBlockHeight: 1, EndBlockHeight: 100000000, Description: "verif", Inflation: &tktypes.InflationEntry{LmRewards: 9999999999999, IcsStakingRewards: 9999999999999, CommunityFund: 1, StrategicReserve: 1, TeamTokensVested: 1}})
		return err
	})
	w.MustGov("eden toggle", func(ctx sdk.Context) error {
		_, err := mckeeper.NewMsgServerImpl(app.MasterchefKeeper).TogglePoolEdenRewards(ctx, &mctypes.MsgTogglePoolEdenRewards{Authority: gov, PoolId: 1, Enable: true})
		return err
	})
	w.MustGov("ext reward denom", func(ctx sdk.Context) error {
		_, err := mckeeper.NewMsgServerImpl(app.MasterchefKeeper).AddExternalRewardDenom(ctx, &mctypes.MsgAddExternalRewardDenom{Authority: gov, RewardDenom: "uatom", MinAmount: math.NewInt(1), Supported: true})
		return err
	})
	w.MustGov("ext reward denom 2", func(ctx sdk.Context) error {
		_, err := mckeeper.NewMsgServerImpl(app.MasterchefKeeper).AddExternalRewardDenom(ctx, &mctypes.MsgAddExternalRewardDenom{Authority: gov, RewardDenom: "uelys", MinAmount: math.NewInt(1), Supported: true})
		return err
	})
	w.MustGov("vest now", func(ctx sdk.Context) error {
		p := app.CommitmentKeeper.GetParams(ctx)
		p.EnableVestNow = true
		app.CommitmentKeeper.SetParams(ctx, p)
		return nil
	})
	w.MustGov("burner epoch", func(ctx sdk.Context) error {
		_, err := burnerkeeper.NewMsgServerImpl(app.BurnerKeeper).UpdateParams(ctx, &burnertypes.MsgUpdateParams{Authority: gov, Params: burnertypes.Params{EpochIdentifier: "five_minutes"}})
		return err
	})
	applyVariant(w, cfg.Variant)
	w.mustBlock("vault bond", PlannedTx{Signer: "lp2", Msgs: []sdk.Msg{&sstypes.MsgBond{Creator: lp2.Addr.String(), Amount: math.NewInt(1e12)}}})
	_ = ctypes.ModuleName
	_ = perptypes.ModuleName
	return w
}

// BuildRoot advances a fresh R0 world to the named root by a fixed prefix of real blocks.
func BuildRoot(w *World, root string, lib *OpLib) {
	var prefix []string
	switch root {
	case "R0", "":
		return
	case "R1":
		// mid-life: positions of both modules, accrued swap fees, a day elapsed, Eden claimed /
		// committed / vesting, ELYS staked
		prefix = []string{"perp_open_long_t1", "perp_open_short_t2", "llp_open_t1_x3", "swap_in_p1_usdc_atom_L", "swap_in_p2_elys_usdc_L", "gap_1d", "mc_claim_lp1", "commit_eden_lp1", "vest_eden_lp1", "stake_elys_lp1"}
	case "R3":
		// R1 without the leveraged-LP begin-block sweep (FallbackEnabled=false, a validated gov
		// change): debts of open positions then carry lazily accrued, un-booked interest, which
		// the every-block sweep of the default configuration otherwise books before any tx runs;
		// a large loan over 30 days also moves the vault's redemption rate visibly off 1 (≈ 1.005)
		prefix = []string{"perp_open_long_t1", "perp_open_short_t2", "llp_open_t1_x3", "swap_in_p1_usdc_atom_L", "swap_in_p2_elys_usdc_L", "gap_1d", "mc_claim_lp1", "commit_eden_lp1", "vest_eden_lp1", "stake_elys_lp1", "cfg_llp_fallback_off", "llp_open_t2_x5", "gap_30d"}
	case "R5":
		// leveraged-heavy pool: the vault is enlarged, the founder withdraws 90 % of pool 1 and one
		// position then holds ~60 % of the pool's shares — forced exits of it are large against the
		// pool's USDC side (the leveragelp AfterExitPool hook can reject them AFTER the exit happened)
		prefix = []string{"perp_open_long_t1", "perp_open_short_t2", "llp_open_t1_x3", "swap_in_p1_usdc_atom_L", "swap_in_p2_elys_usdc_L", "gap_1d", "mc_claim_lp1", "commit_eden_lp1", "vest_eden_lp1", "stake_elys_lp1", "bond_lp1_XL", "exit_p1_90pct_lp1", "llp_open_t2_x5_big"}
	case "R6":
		// several accounts hold SEVERAL committed denoms, acquired in different orders, and every lock
		// has expired: t1 [pool1, pool2], lp2 [stablestake, pool2], lp1 [pool1, pool2, ueden, pool3] —
		// a full withdrawal of an entry that is not the account's last one is one op away
		prefix = []string{"swap_in_p1_usdc_atom_L", "gap_1d", "mc_claim_lp1", "commit_eden_lp1", "join_p1_all_t1", "join_p2_all_t1", "join_p2_all_lp2", "create_pool_lp1", "gap_1d"}
	case "R7":
		// R1 plus an enlarged vault, a LARGE leveraged-LP position with a tight stop-loss (3 % below the
		// LP price) and a small one with a loose stop-loss (15 % below): a moderate price fall closes the
		// large one, which changes the pool a lot inside the very message that also names the small one
		prefix = []string{"perp_open_long_t1", "perp_open_short_t2", "llp_open_t1_x3", "swap_in_p1_usdc_atom_L", "swap_in_p2_elys_usdc_L", "gap_1d", "mc_claim_lp1", "commit_eden_lp1", "vest_eden_lp1", "stake_elys_lp1", "bond_lp1_XL", "llp_open_t2_x5_big_sl3", "llp_open_t3_x3_sl15", "gap_61m"}
	case "R8":
		// R1 a day later with Eden Boost in play: lp1 (staker, Eden committer) has withdrawn its staking
		// rewards, COMMITTED the EdenB and earned more (claimed, uncommitted) — unstaking / uncommitting
		// now burns EdenB from the claimed and from the committed balance
		prefix = []string{"perp_open_long_t1", "perp_open_short_t2", "llp_open_t1_x3", "swap_in_p1_usdc_atom_L", "swap_in_p2_elys_usdc_L", "gap_1d", "mc_claim_lp1", "commit_eden_lp1", "vest_eden_lp1", "stake_elys_lp1", "gap_1d", "estaking_withdraw_lp1", "commit_edenb_lp1", "gap_1d", "estaking_withdraw_lp1"}
	case "R9":
		// an ORACLE OUTAGE in progress (third block without a feed: every price has expired, pool TVLs
		// read 0), during which two external incentives with reward denoms NEW to pool 2 started and a
		// second account joined that pool; the feed returns with the next ordinary op
		prefix = []string{"perp_open_long_t1", "perp_open_short_t2", "llp_open_t1_x3", "swap_in_p1_usdc_atom_L", "swap_in_p2_elys_usdc_L", "gap_1d", "mc_claim_lp1", "commit_eden_lp1", "vest_eden_lp1", "stake_elys_lp1", "nofeed", "nofeed", "ext_incentives_two_new_denoms_lp1_nofeed", "nofeed", "join_p2_big_t1_nofeed"}
	case "R10":
		// R1 with a governance-registered liquid vesting of an external asset: lp1 holds a ueden -> uelys
		// vesting AND a uatom -> uatom one (MsgVestLiquid), both releasing from the next block on
		prefix = []string{"perp_open_long_t1", "perp_open_short_t2", "llp_open_t1_x3", "swap_in_p1_usdc_atom_L", "swap_in_p2_elys_usdc_L", "gap_1d", "mc_claim_lp1", "commit_eden_lp1", "vest_eden_lp1", "stake_elys_lp1", "cfg_vestinfo_uatom", "vest_liquid_uatom_lp1", "empty", "empty", "empty"}
	case "R11":
		// the Eden vesting schedule allows one concurrent vesting per account and the provider reward
		// account already holds it: the next provider-vesting epoch start meets "exceed max vestings"
		prefix = []string{"perp_open_long_t1", "perp_open_short_t2", "llp_open_t1_x3", "swap_in_p1_usdc_atom_L", "swap_in_p2_elys_usdc_L", "gap_1d", "mc_claim_lp1", "commit_eden_lp1", "vest_eden_lp1", "stake_elys_lp1", "cfg_vest_max1", "gap_40d"}
	case "R12":
		// R1 with pending tradeshield orders of TWO owners, spot and perpetual, created alternately (ids
		// 1..2 each): removing an order that is not the newest, then creating one, is two ops away
		prefix = []string{"perp_open_long_t1", "perp_open_short_t2", "llp_open_t1_x3", "swap_in_p1_usdc_atom_L", "swap_in_p2_elys_usdc_L", "gap_1d", "mc_claim_lp1", "commit_eden_lp1", "vest_eden_lp1", "stake_elys_lp1", "ts_spot_limitbuy_unmet_own1", "ts_spot_limitbuy_met_own2", "ts_perp_long_unmet_own1", "ts_perp_long_met_own2"}
	case "R13":
		// a third, ORACLE pool created far off its target weights (beyond the weight-difference threshold:
		// rebalancing trades earn a bonus) whose rebalance treasury holds only the weight-breaking fee of
		// one medium swap — less than two rebalancing bonuses
		prefix = []string{"perp_open_long_t1", "perp_open_short_t2", "llp_open_t1_x3", "swap_in_p1_usdc_atom_L", "swap_in_p2_elys_usdc_L", "gap_1d", "mc_claim_lp1", "commit_eden_lp1", "vest_eden_lp1", "stake_elys_lp1", "create_oracle_pool_imbalanced_lp1", "swap_in_p3_usdc_atom_M"}
	case "R18":
		// R1 with a long, large external incentive (uatom) running on pool 2 for two blocks already
		prefix = []string{"perp_open_long_t1", "perp_open_short_t2", "llp_open_t1_x3", "swap_in_p1_usdc_atom_L", "swap_in_p2_elys_usdc_L", "gap_1d", "mc_claim_lp1", "commit_eden_lp1", "vest_eden_lp1", "stake_elys_lp1", "ext_incentive_long_p2_lp1", "empty", "empty"}
	case "R17":
		// R8 grown old: 400 more days of Eden Boost, all of it COMMITTED (claimed bucket empty). The boost is
		// now large enough that even the small share burnt by an Eden uncommit is a visible amount, and it
		// has to come out of the committed balance
		prefix = []string{"perp_open_long_t1", "perp_open_short_t2", "llp_open_t1_x3", "swap_in_p1_usdc_atom_L", "swap_in_p2_elys_usdc_L", "gap_1d", "mc_claim_lp1", "commit_eden_lp1", "vest_eden_lp1", "stake_elys_lp1", "gap_1d", "estaking_withdraw_lp1", "commit_edenb_lp1", "gap_400d", "estaking_withdraw_lp1", "commit_edenb_lp1"}
	case "R16":
		// THIN POOL: R1 plus a huge long (custody ~ 20 % of pool 1's ATOM), after which the founder withdrew as
		// much liquidity as the guards of the exit hooks let through: free liquidity is short of single
		// positions' custody (swap estimates of that size fail), health estimators and forced closes meet errors
		prefix = []string{"perp_open_long_t1", "perp_open_short_t2", "llp_open_t1_x3", "swap_in_p1_usdc_atom_L", "swap_in_p2_elys_usdc_L", "gap_1d", "mc_claim_lp1", "commit_eden_lp1", "vest_eden_lp1", "stake_elys_lp1", "perp_open_long_t3_huge", "gap_61m", "exit_p1_all_assets_largest_accepted_lp1"}
	case "R15":
		// an account (t1) whose commitment record holds NOTHING BUT claimed Eden: it joined pool 1, earned a
		// day of rewards, claimed them and left the pool — the state in which the next conversion or commit
		// empties or re-creates the record (cleanup paths)
		prefix = []string{"join_p1_all_t1", "gap_1d", "mc_claim_t1", "exit_p1_all_t1"}
	case "R14":
		// THREE leveraged-LP positions of three owners in pool 1 (x3, x5, x9), sweep on, locks expired: one
		// price fall makes several of them unhealthy at once, so ONE begin-block sweep (or one bot message)
		// force-closes several positions of the same pool
		prefix = []string{"perp_open_long_t1", "perp_open_short_t2", "llp_open_t1_x3", "swap_in_p1_usdc_atom_L", "swap_in_p2_elys_usdc_L", "gap_1d", "mc_claim_lp1", "commit_eden_lp1", "vest_eden_lp1", "stake_elys_lp1", "llp_open_t2_x5", "llp_open_t3_x9", "gap_61m"}
	case "R4":
		// R1 with a large loan outstanding for 30 days under the default every-block sweep: the
		// interest is booked, so the vault's redemption rate sits visibly above 1 (≈ 1.005)
		prefix = []string{"perp_open_long_t1", "perp_open_short_t2", "llp_open_t1_x3", "swap_in_p1_usdc_atom_L", "swap_in_p2_elys_usdc_L", "gap_1d", "mc_claim_lp1", "commit_eden_lp1", "vest_eden_lp1", "stake_elys_lp1", "llp_open_t2_x5", "gap_30d", "bond_lp1_L"}
	case "R19":
		// SECOND VENUE (wide.go): R1 plus a second oracle pool
		// (v4, uelys/uusdc) enabled for leveraged LP — second accounted pool, second perpetual pool — with
		// open positions of both modules in BOTH venues (t1 holds a perpetual position in each), locks expired
		prefix = []string{"perp_open_long_t1", "perp_open_short_t2", "llp_open_t1_x3", "swap_in_p1_usdc_atom_L", "swap_in_p2_elys_usdc_L", "gap_1d", "mc_claim_lp1", "commit_eden_lp1", "vest_eden_lp1", "stake_elys_lp1", "v4_create_lp1", "cfg_llp_addpool_v4", "v4_perp_open_long_t1", "v4_perp_open_short_t3", "v4_llp_open_t2_x3", "v4_swap_in_usdc_elys_L", "gap_61m"}
	case "R21":
		// STRICT SAFETY FACTORS: R1 after governance doubled the safety factor of both position modules (opens that
		// were fine under the defaults are now refused by the gates)
		prefix = []string{"perp_open_long_t1", "perp_open_short_t2", "llp_open_t1_x3", "swap_in_p1_usdc_atom_L", "swap_in_p2_elys_usdc_L", "gap_1d", "mc_claim_lp1", "commit_eden_lp1", "vest_eden_lp1", "stake_elys_lp1", "cfgauto_leveragelp.MsgUpdateParams.Params.SafetyFactor=x2", "cfgauto_perpetual.MsgUpdateParams.Params.SafetyFactor=x2"}
	case "R22":
		// ALIASED ASSETS: an outsider registered second asset-profile entries naming each fixture asset (18 decimals,
		// base denoms that sort first), and the ELYS price of the constant-product pool crashed below 0.5 USDC
		prefix = []string{"perp_open_long_t1", "perp_open_short_t2", "llp_open_t1_x3", "swap_in_p1_usdc_atom_L", "swap_in_p2_elys_usdc_L", "gap_1d", "mc_claim_lp1", "commit_eden_lp1", "vest_eden_lp1", "stake_elys_lp1", "ap_alias_entry_uusdc_18dec_t3", "ap_alias_entry_uatom_18dec_t3", "ap_alias_entry_uelys_18dec_t3", "swap_in_p2_elys_usdc_XXL"}
	case "R23":
		// VOUCHER VENUE: R1 plus a constant-product pool of the IBC voucher (WETH, 18 decimals, profile Denom !=
		// BaseDenom) against uusdc, pending spot orders in the voucher whose triggers the ORACLE price does not meet
		prefix = []string{"perp_open_long_t1", "perp_open_short_t2", "llp_open_t1_x3", "swap_in_p1_usdc_atom_L", "swap_in_p2_elys_usdc_L", "gap_1d", "mc_claim_lp1", "commit_eden_lp1", "vest_eden_lp1", "stake_elys_lp1", "v5_create_lp1", "ts_spot_limitsell_weth_unmet_own1", "ts_spot_stoploss_weth_unmet_own2", "ts_spot_limitbuy_weth_unmet_own1", "gap_61m"}
	case "R20":
		// MANY BLOCKS: R3 (leveraged-LP sweep off, so nothing touches the open positions' debts) followed by
		// 1000 ordinary blocks — counters, indices and "last touched at height" fields are a thousand blocks old
		prefix = []string{"perp_open_long_t1", "perp_open_short_t2", "llp_open_t1_x3", "swap_in_p1_usdc_atom_L", "swap_in_p2_elys_usdc_L", "gap_1d", "mc_claim_lp1", "commit_eden_lp1", "vest_eden_lp1", "stake_elys_lp1", "cfg_llp_fallback_off", "llp_open_t2_x5", "idle_blocks_1000"}
	case "R2":
		// degraded: pool 1 far off target, vault highly utilised, dust positions
		prefix = []string{"llp_open_t2_x5", "perp_open_long_t1", "swap_in_p1_usdc_atom_XL", "unbond_lp2_L", "perp_open_short_t2_dust", "gap_1h"}
	default:
		panic("unknown root " + root)
	}
	for _, n := range prefix {
		if strings.HasPrefix(n, "idle_blocks_") {
			// N ordinary blocks (feeder's prices, 5 s apart), executed one by one: only a root can afford them
			cnt, _ := strconv.Atoi(strings.TrimPrefix(n, "idle_blocks_"))
			for i := 0; i < cnt; i++ {
				if br := w.ExecOp(lib.Get("empty")); !br.OK() {
					panic("root " + root + " op " + n + ": " + br.Err)
				}
			}
			continue
		}
		op := lib.Get(n)
		br := w.ExecOp(op)
		if !br.OK() {
			panic("root " + root + " op " + n + ": " + br.Err)
		}
	}
}

// Variants are configuration changes permitted by validation, applied through the real gov
// message servers (with the message's ValidateBasic when it has one) at fixture time.
var AllVariants = []string{"", "llp_fallback_off", "mc_lps1", "mc_lps0_stakers1", "mc_stakers_tiny", "es_provider1", "es_provider0", "oracle_min", "vest_blocks0", "perp_extreme", "ss_rates_equal", "tok_inflation_deleted", "tok_window_future", "vestinfo_uatom", "vest_max1", "ss_epoch0", "llp_fallback_on"}

type validator interface{ ValidateBasic() error }

func vb(m sdk.Msg) error {
	if v, ok := m.(validator); ok {
		return v.ValidateBasic()
	}
	return nil
}

func applyVariant(w *World, variant string) {
	if variant == "" {
		return
	}
	w.MustGov(variant, variantGov(w, variant))
}

// variantGov returns the state change of the named configuration as a gov step.
func variantGov(w *World, variant string) func(ctx sdk.Context) error {
	app, gov := w.App, w.Gov
	switch variant {
	case "mc_lps1", "mc_lps0_stakers1", "mc_stakers_tiny":
		return func(ctx sdk.Context) error {
			p := app.MasterchefKeeper.GetParams(ctx)
			switch variant {
			case "mc_lps1":
				p.RewardPortionForLps, p.RewardPortionForStakers = Dec("1"), Dec("0")
			case "mc_lps0_stakers1":
				p.RewardPortionForLps, p.RewardPortionForStakers = Dec("0"), Dec("1")
			case "mc_stakers_tiny":
				p.RewardPortionForLps, p.RewardPortionForStakers = Dec("0.1"), Dec("0.01")
			}
			m := &mctypes.MsgUpdateParams{Authority: gov, Params: p}
			if err := vb(m); err != nil {
				return err
			}
			_, err := mckeeper.NewMsgServerImpl(app.MasterchefKeeper).UpdateParams(ctx, m)
			return err
		}
	case "es_provider1", "es_provider0":
		return func(ctx sdk.Context) error {
			p := app.EstakingKeeper.GetParams(ctx)
			if variant == "es_provider1" {
				p.ProviderStakingRewardsPortion = Dec("1")
			} else {
				p.ProviderStakingRewardsPortion = Dec("0")
			}
			m := &estypes.MsgUpdateParams{Authority: gov, Params: p}
			if err := vb(m); err != nil {
				return err
			}
			_, err := eskeeper.NewMsgServerImpl(*app.EstakingKeeper).UpdateParams(ctx, m)
			return err
		}
	case "llp_fallback_off", "llp_fallback_on":
		return func(ctx sdk.Context) error {
			p := app.LeveragelpKeeper.GetParams(ctx)
			p.FallbackEnabled = variant == "llp_fallback_on"
			m := &llptypes.MsgUpdateParams{Authority: gov, Params: &p}
			if err := vb(m); err != nil {
				return err
			}
			_, err := llpkeeper.NewMsgServerImpl(*app.LeveragelpKeeper).UpdateParams(ctx, m)
			return err
		}
	case "oracle_min":
		return func(ctx sdk.Context) error {
			p := app.OracleKeeper.GetParams(ctx)
			p.PriceExpiryTime, p.LifeTimeInBlocks = 1, 1
			m := &oracletypes.MsgUpdateParams{Authority: gov, Params: p}
			if err := vb(m); err != nil {
				return err
			}
			_, err := oraclekeeper.NewMsgServerImpl(app.OracleKeeper).UpdateParams(ctx, m)
			return err
		}
	case "vest_blocks0":
		return func(ctx sdk.Context) error {
			m := &ctypes.MsgUpdateVestingInfo{Authority: gov, BaseDenom: "ueden", VestingDenom: "uelys", NumBlocks: 0, VestNowFactor: 90, NumMaxVestings: 10}
			if err := vb(m); err != nil {
				return err
			}
			_, err := cmkeeper.NewMsgServerImpl(*app.CommitmentKeeper).UpdateVestingInfo(ctx, m)
			return err
		}
	case "vest_max1":
		// the Eden vesting schedule allows ONE concurrent vesting per account (validation: >= 0)
		return func(ctx sdk.Context) error {
			m := &ctypes.MsgUpdateVestingInfo{Authority: gov, BaseDenom: "ueden", VestingDenom: "uelys", NumBlocks: 1576800, VestNowFactor: 90, NumMaxVestings: 1}
			if err := vb(m); err != nil {
				return err
			}
			_, err := cmkeeper.NewMsgServerImpl(*app.CommitmentKeeper).UpdateVestingInfo(ctx, m)
			return err
		}
	case "ss_epoch0":
		// stablestake epoch length 0 (validation rejects only negative values)
		return func(ctx sdk.Context) error {
			p := app.StablestakeKeeper.GetParams(ctx)
			p.EpochLength = 0
			m := &sstypes.MsgUpdateParams{Authority: gov, Params: &p}
			if err := vb(m); err != nil {
				return err
			}
			_, err := sskeeper.NewMsgServerImpl(*app.StablestakeKeeper).UpdateParams(ctx, m)
			return err
		}
	case "perp_extreme":
		return func(ctx sdk.Context) error {
			p := app.PerpetualKeeper.GetParams(ctx)
			p.BorrowInterestRateMax, p.BorrowInterestRateMin = Dec("5"), Dec("5")
			p.FixedFundingRate = Dec("10")
			p.BorrowInterestPaymentFundPercentage = Dec("1")
			p.HealthGainFactor = Dec("1")
			m := &perptypes.MsgUpdateParams{Authority: gov, Params: &p}
			if err := vb(m); err != nil {
				return err
			}
			_, err := perpkeeper.NewMsgServerImpl(*app.PerpetualKeeper).UpdateParams(ctx, m)
			return err
		}
	case "tok_inflation_deleted", "tok_window_future":
		// tokenomics: the only time-based inflation entry is deleted (empty list), or replaced by one whose
		// window lies in the future (no entry covers the current height: incentives switched to nil)
		return func(ctx sdk.Context) error {
			ms := tkkeeper.NewMsgServerImpl(app.TokenomicsKeeper)
			d := &tktypes.MsgDeleteTimeBasedInflation{Authority: gov, StartBlockHeight: 1, EndBlockHeight: 100000000}
			if err := vb(d); err != nil {
				return err
			}
			if _, err := ms.DeleteTimeBasedInflation(ctx, d); err != nil {
				return err
			}
			if variant == "tok_window_future" {
				c := &tktypes.MsgCreateTimeBasedInflation{Authority: gov, StartBlockHeight: 50000000, EndBlockHeight: 100000000, Description: "verif-future", Inflation: &tktypes.InflationEntry{LmRewards: 9999999999999, IcsStakingRewards: 9999999999999, CommunityFund: 1, StrategicReserve: 1, TeamTokensVested: 1}}
				if err := vb(c); err != nil {
					return err
				}
				_, err := ms.CreateTimeBasedInflation(ctx, c)
				return err
			}
			return nil
		}
	case "vestinfo_uatom":
		// governance registers a LIQUID vesting schedule for an external asset (uatom vests into uatom
		// over 100 blocks) next to the default ueden -> uelys one
		return func(ctx sdk.Context) error {
			m := &ctypes.MsgUpdateVestingInfo{Authority: gov, BaseDenom: "uatom", VestingDenom: "uatom", NumBlocks: 100, VestNowFactor: 90, NumMaxVestings: 10}
			if err := vb(m); err != nil {
				return err
			}
			_, err := cmkeeper.NewMsgServerImpl(*app.CommitmentKeeper).UpdateVestingInfo(ctx, m)
			return err
		}
	case "ss_rates_equal":
		return func(ctx sdk.Context) error {
			p := app.StablestakeKeeper.GetParams(ctx)
			p.InterestRateMax, p.InterestRateMin, p.InterestRate = Dec("0"), Dec("0"), Dec("0")
			p.HealthGainFactor = Dec("0")
			m := &sstypes.MsgUpdateParams{Authority: gov, Params: &p}
			if err := vb(m); err != nil {
				return err
			}
			_, err := sskeeper.NewMsgServerImpl(*app.StablestakeKeeper).UpdateParams(ctx, m)
			return err
		}
	}
	panic("unknown fixture variant " + variant)
}
