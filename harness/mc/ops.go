//go:build verif

package mc

import (
	"fmt"
	mckeeper "github.com/elys-network/elys/x/masterchef/keeper"
	tiertypes "github.com/elys-network/elys/x/tier/types"
	"sort"
	"strings"
	"time"

	"cosmossdk.io/math"
	sdk "github.com/cosmos/cosmos-sdk/types"
	banktypes "github.com/cosmos/cosmos-sdk/x/bank/types"
	ammtypes "github.com/elys-network/elys/x/amm/types"
	ctypes "github.com/elys-network/elys/x/commitment/types"
	estypes "github.com/elys-network/elys/x/estaking/types"
	llptypes "github.com/elys-network/elys/x/leveragelp/types"
	mctypes "github.com/elys-network/elys/x/masterchef/types"
	perptypes "github.com/elys-network/elys/x/perpetual/types"
	sstypes "github.com/elys-network/elys/x/stablestake/types"
)

// PlannedTx is one transaction of a block: signer name + messages (+ optional fee).
type PlannedTx struct {
	Signer string
	Fee    sdk.Coins
	Msgs   []sdk.Msg
	Tag    string
}

// BlockPlan is one transition of the explored state machine.
type BlockPlan struct {
	Dt      int64 // seconds since previous block (default 5)
	Feed    bool  // feeder posts the env prices as the first tx
	SetAtom string
	SetElys string
	Gov     []func(ctx sdk.Context) error // applied (each only if it succeeds) before the block
	Txs     []PlannedTx
	// filled by Exec
	GovErrs   []string
	FeedIndex int // index of the feed tx in the block or -1
	TxIndex   []int
}

// Op is one letter of an alphabet: a recipe producing a block from the current committed state.
type Op struct {
	Name string
	Kind string // culprit class used by known-finding matching
	Dev  int    // deviation cost (0 = default environment behaviour)
	Plan func(w *World, p *BlockPlan)
}

// ExecCrashBeforeCommit builds the block of plan p and runs FinalizeBlock without Commit; the
// environment is restored so that the same op can be planned again after a restart.
func (w *World) ExecCrashBeforeCommit(op *Op) error {
	env := w.Env
	p := w.PlanOp(op)
	saveGov := p.Gov
	p.Gov = nil // gov steps write into the working store that the restart throws away anyway
	_ = saveGov
	if p.Dt == 0 {
		p.Dt = 5
	}
	if p.SetAtom != "" {
		w.Env.Atom = p.SetAtom
	}
	if p.SetElys != "" {
		w.Env.Elys = p.SetElys
	}
	var txs [][]byte
	seqUsed := map[string]uint64{}
	if p.Feed {
		txs = append(txs, w.Tx(w.A("feeder"), nil, 0, w.FeedMsg()))
		seqUsed["feeder"] = 1
	}
	for _, t := range p.Txs {
		txs = append(txs, w.Tx(w.A(t.Signer), t.Fee, seqUsed[t.Signer], t.Msgs...))
		seqUsed[t.Signer]++
	}
	_, err := w.FinalizeOnly(w.Env.Tm+p.Dt, txs)
	w.Env = env
	return err
}

// Exec turns a plan into a real block: gov steps, signed txs, FinalizeBlock, Commit.
func (w *World) Exec(p *BlockPlan) *BlockResult {
	if p.Dt == 0 {
		p.Dt = 5
	}
	if p.SetAtom != "" {
		w.Env.Atom = p.SetAtom
	}
	if p.SetElys != "" {
		w.Env.Elys = p.SetElys
	}
	for _, g := range p.Gov {
		if err := w.GovDo(g); err != nil {
			p.GovErrs = append(p.GovErrs, err.Error())
		} else {
			p.GovErrs = append(p.GovErrs, "")
		}
	}
	var txs [][]byte
	seqUsed := map[string]uint64{}
	p.FeedIndex = -1
	if p.Feed {
		p.FeedIndex = 0
		txs = append(txs, w.Tx(w.A("feeder"), nil, 0, w.FeedMsg()))
		seqUsed["feeder"] = 1
	}
	for _, t := range p.Txs {
		a := w.A(t.Signer)
		p.TxIndex = append(p.TxIndex, len(txs))
		txs = append(txs, w.Tx(a, t.Fee, seqUsed[t.Signer], t.Msgs...))
		seqUsed[t.Signer]++
	}
	return w.RunBlock(w.Env.Tm+p.Dt, txs)
}

func (w *World) PlanOp(op *Op) *BlockPlan {
	p := &BlockPlan{Dt: 5, Feed: true}
	op.Plan(w, p)
	return p
}

func (w *World) ExecOp(op *Op) *BlockResult {
	return w.Exec(w.PlanOp(op))
}

// OpLib is the union alphabet; properties pick subsets by name.
type OpLib struct {
	ops   map[string]*Op
	order []string
}

func (l *OpLib) Add(name, kind string, dev int, plan func(w *World, p *BlockPlan)) {
	if l.ops == nil {
		l.ops = map[string]*Op{}
	}
	if _, dup := l.ops[name]; dup {
		panic("duplicate op " + name)
	}
	l.ops[name] = &Op{Name: name, Kind: kind, Dev: dev, Plan: plan}
	l.order = append(l.order, name)
}

func (l *OpLib) Get(name string) *Op {
	o, ok := l.ops[name]
	if !ok {
		if c := l.blockOf(name); c != nil {
			return c
		}
		if c := l.txOf(name); c != nil {
			return c
		}
		if c := l.rolledBackOf(name); c != nil {
			return c
		}
		panic("unknown op " + name)
	}
	return o
}

func (l *OpLib) Has(name string) bool {
	if _, ok := l.ops[name]; ok {
		return true
	}
	return l.blockOf(name) != nil || l.txOf(name) != nil || l.rolledBackOf(name) != nil
}

// BlockOf names the composite op that places the transactions of several ops in ONE block, in the given
// order ("blk[a+b+c]"): every component is planned on the pre-block state; governance steps are
// concatenated, the block carries a price feed only if every component does, the first fed price wins.
func BlockOf(names ...string) string { return "blk[" + strings.Join(names, "+") + "]" }

func (l *OpLib) blockOf(name string) *Op {
	if !strings.HasPrefix(name, "blk[") || !strings.HasSuffix(name, "]") {
		return nil
	}
	parts := splitTop(name[4 : len(name)-1])
	var comps []*Op
	dev := 0
	for _, pn := range parts {
		c, ok := l.ops[pn]
		if !ok {
			// a component may itself be a composite (tx[...] inside blk[...])
			if c = l.txOf(pn); c == nil {
				return nil
			}
		}
		comps = append(comps, c)
		dev += c.Dev
	}
	op := &Op{Name: name, Kind: "same_block", Dev: dev, Plan: func(w *World, p *BlockPlan) {
		for _, c := range comps {
			sub := &BlockPlan{Dt: 5, Feed: true}
			c.Plan(w, sub)
			p.Txs = append(p.Txs, sub.Txs...)
			p.Gov = append(p.Gov, sub.Gov...)
			p.Feed = p.Feed && sub.Feed
			if sub.Dt > p.Dt {
				p.Dt = sub.Dt
			}
			if p.SetAtom == "" {
				p.SetAtom = sub.SetAtom
			}
			if p.SetElys == "" {
				p.SetElys = sub.SetElys
			}
		}
	}}
	l.ops[name] = op
	return op
}

// splitTop splits at the '+' signs that are not inside brackets.
func splitTop(s string) []string {
	var out []string
	depth, start := 0, 0
	for i, r := range s {
		switch r {
		case '[':
			depth++
		case ']':
			depth--
		case '+':
			if depth == 0 {
				out = append(out, s[start:i])
				start = i + 1
			}
		}
	}
	return append(out, s[start:])
}

// blockTriples: every ordered selection of three DIFFERENT ops of set as one block.
func blockTriples(set []string) []string {
	var out []string
	for _, a := range set {
		for _, b := range set {
			for _, c := range set {
				if a != b && b != c && a != c {
					out = append(out, BlockOf(a, b, c))
				}
			}
		}
	}
	return out
}

func blockPairs(set []string) []string {
	var out []string
	for _, a := range set {
		for _, b := range set {
			if a != b {
				out = append(out, BlockOf(a, b))
			}
		}
	}
	return out
}

func (l *OpLib) Select(names ...string) []*Op {
	out := []*Op{}
	for _, n := range names {
		out = append(out, l.Get(n))
	}
	return out
}

func (l *OpLib) Names() []string { return append([]string{}, l.order...) }

// ---------------------------------------------------------------------------------------------
// helpers reading committed state

func (w *World) MTPsOf(owner string) []perptypes.MTP {
	ctx := w.RCtx()
	out := []perptypes.MTP{}
	for _, m := range w.App.PerpetualKeeper.GetAllMTPs(ctx) {
		if m.Address == w.A(owner).Addr.String() {
			out = append(out, m)
		}
	}
	sort.Slice(out, func(i, j int) bool { return out[i].Id < out[j].Id })
	return out
}

func (w *World) LLPsOf(owner string) []llptypes.Position {
	ctx := w.RCtx()
	out := []llptypes.Position{}
	for _, m := range w.App.LeveragelpKeeper.GetAllPositions(ctx) {
		if m.Address == w.A(owner).Addr.String() {
			out = append(out, m)
		}
	}
	sort.Slice(out, func(i, j int) bool { return out[i].Id < out[j].Id })
	return out
}

func (w *World) PoolAddr(id uint64) sdk.AccAddress {
	p, ok := w.App.AmmKeeper.GetPool(w.RCtx(), id)
	if !ok {
		panic("no pool")
	}
	return sdk.MustAccAddressFromBech32(p.Address)
}

func (w *World) CommittedOf(owner sdk.AccAddress, denom string) math.Int {
	cm := w.App.CommitmentKeeper.GetCommitments(w.RCtx(), owner)
	return cm.GetCommittedAmountForDenom(denom)
}

// ---------------------------------------------------------------------------------------------
// message constructors

func swapIn(a Acct, recipient string, tokenIn sdk.Coin, minOut int64, route ...ammtypes.SwapAmountInRoute) sdk.Msg {
	return &ammtypes.MsgSwapExactAmountIn{Sender: a.Addr.String(), Routes: route, TokenIn: tokenIn, TokenOutMinAmount: I(minOut), Recipient: recipient}
}
func swapOut(a Acct, recipient string, tokenOut sdk.Coin, maxIn int64, route ...ammtypes.SwapAmountOutRoute) sdk.Msg {
	return &ammtypes.MsgSwapExactAmountOut{Sender: a.Addr.String(), Routes: route, TokenOut: tokenOut, TokenInMaxAmount: I(maxIn), Recipient: recipient}
}
func rin(pool uint64, out string) ammtypes.SwapAmountInRoute {
	return ammtypes.SwapAmountInRoute{PoolId: pool, TokenOutDenom: out}
}
func rout(pool uint64, in string) ammtypes.SwapAmountOutRoute {
	return ammtypes.SwapAmountOutRoute{PoolId: pool, TokenInDenom: in}
}
func perpOpen(a Acct, side perptypes.Position, lev string, coll sdk.Coin, tp string) sdk.Msg {
	return &perptypes.MsgOpen{Creator: a.Addr.String(), Position: side, Leverage: Dec(lev), TradingAsset: "uatom", Collateral: coll, TakeProfitPrice: Dec(tp), StopLossPrice: math.LegacyZeroDec(), PoolId: 1}
}
func llpOpen(a Acct, lev string, amt int64, stop string) sdk.Msg {
	return &llptypes.MsgOpen{Creator: a.Addr.String(), CollateralAsset: "uusdc", CollateralAmount: I(amt), AmmPoolId: 1, Leverage: Dec(lev), StopLossPrice: Dec(stop)}
}

func one(signer string, msgs ...sdk.Msg) []PlannedTx {
	return []PlannedTx{{Signer: signer, Msgs: msgs}}
}

// mulFrac returns floor(x*num/den)
func mulFrac(x math.Int, num, den int64) math.Int { return x.MulRaw(num).QuoRaw(den) }

// NewOpLib builds the union alphabet. Every op is a deterministic function of the committed
// state and the environment.
func NewOpLib() *OpLib {
	l := &OpLib{}
	// ---- environment
	l.Add("empty", "empty", 0, func(w *World, p *BlockPlan) {})
	for _, pr := range []string{"5", "4", "3", "6.5", "8", "2", "12", "1"} {
		pr := pr
		l.Add("price_atom_"+pr, "price", 1, func(w *World, p *BlockPlan) { p.SetAtom = pr })
	}
	for _, g := range []struct {
		n  string
		dt int64
	}{{"gap_1h", 3600}, {"gap_59m", 59 * 60}, {"gap_61m", 61 * 60}, {"gap_1d", 86400}, {"gap_2d", 2 * 86400}, {"gap_8d", 8 * 86400}, {"gap_30d", 30 * 86400}, {"gap_40d", 40 * 86400}, {"gap_400d", 400 * 86400}} {
		g := g
		l.Add(g.n, "gap", 1, func(w *World, p *BlockPlan) { p.Dt = g.dt })
	}
	l.Add("nofeed", "nofeed", 1, func(w *World, p *BlockPlan) { p.Feed = false })
	l.Add("nofeed_2d", "nofeed", 2, func(w *World, p *BlockPlan) { p.Feed = false; p.Dt = 2 * 86400 })
	// ---- configuration changes permitted by validation, applied through the gov message servers
	for _, v := range AllVariants {
		if v == "" {
			continue
		}
		v := v
		l.Add("cfg_"+v, "config", 1, func(w *World, p *BlockPlan) { p.Gov = append(p.Gov, variantGov(w, v)) })
	}
	// ---- amm swaps
	type sw struct {
		name       string
		signer     string
		pool       uint64
		in, out    string
		amt        int64
		exactOut   bool
		limitLoose bool
	}
	sws := []sw{
		{"swap_in_p1_usdc_atom_D", "t1", 1, "uusdc", "uatom", 10, false, true},
		{"swap_in_p1_usdc_atom_L", "t1", 1, "uusdc", "uatom", 5e10, false, true},
		{"swap_in_p1_usdc_atom_XL", "t1", 1, "uusdc", "uatom", 15e11, false, true},
		{"swap_in_p1_atom_usdc_L", "t2", 1, "uatom", "uusdc", 1e10, false, true},
		{"swap_in_p1_atom_usdc_D", "t2", 1, "uatom", "uusdc", 7, false, true},
		{"swap_out_p1_usdc_atom_L", "t1", 1, "uusdc", "uatom", 1e10, true, true},
		{"swap_out_p1_atom_usdc_L", "t2", 1, "uatom", "uusdc", 5e10, true, true},
		{"swap_out_p1_atom_usdc_D", "t2", 1, "uatom", "uusdc", 3, true, true},
		{"swap_in_p2_usdc_elys_L", "t1", 2, "uusdc", "uelys", 3e10, false, true},
		{"swap_in_p2_elys_usdc_L", "t2", 2, "uelys", "uusdc", 1e10, false, true},
		{"swap_in_p2_elys_usdc_D", "t2", 2, "uelys", "uusdc", 5, false, true},
		{"swap_out_p2_elys_usdc_L", "t2", 2, "uelys", "uusdc", 7777777, true, true},
		{"swap_out_p2_usdc_elys_L", "t1", 2, "uusdc", "uelys", 1e10, true, true},
	}
	for _, s := range sws {
		s := s
		l.Add(s.name, "swap", 0, func(w *World, p *BlockPlan) {
			a := w.A(s.signer)
			if s.exactOut {
				p.Txs = one(s.signer, swapOut(a, "", C(s.out, s.amt), 1e14, rout(s.pool, s.in)))
			} else {
				p.Txs = one(s.signer, swapIn(a, "", C(s.in, s.amt), 1, rin(s.pool, s.out)))
			}
		})
	}
	l.Add("swap_in_2hop_elys_atom_L", "swap", 0, func(w *World, p *BlockPlan) {
		p.Txs = one("t1", swapIn(w.A("t1"), "", C("uelys", 1e10), 1, rin(2, "uusdc"), rin(1, "uatom")))
	})
	// routes that name the SAME pool in two hops (accepted by route validation)
	l.Add("swap_in_samepool_p1_usdc_atom_usdc", "swap", 0, func(w *World, p *BlockPlan) {
		p.Txs = one("t1", swapIn(w.A("t1"), "", C("uusdc", 2e10), 1, rin(1, "uatom"), rin(1, "uusdc")))
	})
	l.Add("swap_in_samepool_p2_elys_usdc_elys", "swap", 0, func(w *World, p *BlockPlan) {
		p.Txs = one("t2", swapIn(w.A("t2"), "", C("uelys", 1e10), 1, rin(2, "uusdc"), rin(2, "uelys")))
	})
	l.Add("swap_out_samepool_p2_usdc_elys_usdc", "swap", 0, func(w *World, p *BlockPlan) {
		p.Txs = one("t2", swapOut(w.A("t2"), "", C("uusdc", 1e9), 1e14, rout(2, "uusdc"), rout(2, "uelys")))
	})
	l.Add("swap_out_2hop_atom_elys_L", "swap", 0, func(w *World, p *BlockPlan) {
		p.Txs = one("t2", swapOut(w.A("t2"), "", C("uelys", 1e9), 1e14, rout(1, "uatom"), rout(2, "uusdc")))
	})
	l.Add("swap_batch_opposite_p1", "swap", 0, func(w *World, p *BlockPlan) {
		p.Txs = []PlannedTx{
			{Signer: "t1", Msgs: []sdk.Msg{swapIn(w.A("t1"), "", C("uusdc", 5e10), 1, rin(1, "uatom"))}},
			{Signer: "t2", Msgs: []sdk.Msg{swapIn(w.A("t2"), "", C("uatom", 1e10), 1, rin(1, "uusdc"))}},
		}
	})
	// a batch in which one request is accepted when sent but FAILS when the end-blocker executes it
	// (its limit is a 99.9 % quote of its own dry run and an identical request of another sender is
	// executed first), next to a valid request in the OPPOSITE direction, small or large: the
	// end-blocker's pair logic meets "this one fails, its opposite partner succeeds"
	for _, dir := range []struct{ n, in, out string }{{"usdc_atom", "uusdc", "uatom"}, {"atom_usdc", "uatom", "uusdc"}} {
		for _, opp := range []string{"small", "large"} {
			dir, opp := dir, opp
			l.Add("swap_batch_tight_twice_"+dir.n+"_plus_opposite_"+opp+"_p1", "swap", 0, func(w *World, p *BlockPlan) {
				// amounts worth about 5e10 uusdc (tight pair), 5e8 / 2.5e11 uusdc (opposite)
				amt := map[string]int64{"uusdc": 5e10, "uatom": 1e10}
				oppAmt := map[string]int64{"uusdc": 5e8, "uatom": 1e8}
				if opp == "large" {
					oppAmt = map[string]int64{"uusdc": 25e10, "uatom": 5e10}
				}
				c, _ := w.Ctx().CacheContext()
				c = c.WithBlockHeight(w.Height() + 1).WithBlockTime(time.Unix(w.Env.Tm+5, 0).UTC())
				lim := int64(1)
				who := w.A("t1").Addr
				b0 := w.App.BankKeeper.GetBalance(c, who, dir.out).Amount
				m := swapIn(w.A("t1"), "", C(dir.in, amt[dir.in]), 1, rin(1, dir.out))
				if _, err := w.App.MsgServiceRouter().Handler(m)(c, m); err == nil {
					w.App.AmmKeeper.EndBlocker(c)
					if got := w.App.BankKeeper.GetBalance(c, who, dir.out).Amount.Sub(b0); got.IsPositive() {
						lim = got.MulRaw(999).QuoRaw(1000).Int64()
					}
				}
				p.Txs = []PlannedTx{
					{Signer: "t1", Msgs: []sdk.Msg{swapIn(w.A("t1"), "", C(dir.in, amt[dir.in]), lim, rin(1, dir.out))}},
					{Signer: "t3", Msgs: []sdk.Msg{swapIn(w.A("t3"), "", C(dir.in, amt[dir.in]), lim, rin(1, dir.out))}},
					{Signer: "t2", Msgs: []sdk.Msg{swapIn(w.A("t2"), "", C(dir.out, oppAmt[dir.out]), 1, rin(1, dir.in))}},
				}
			})
		}
	}
	l.Add("swap_by_denom_p1", "swap", 0, func(w *World, p *BlockPlan) {
		a := w.A("t1")
		p.Txs = one("t1", &ammtypes.MsgSwapByDenom{Sender: a.Addr.String(), Amount: C("uusdc", 1e9), MinAmount: C("uatom", 1), DenomIn: "uusdc", DenomOut: "uatom"})
	})
	l.Add("swap_fail_minout_p1", "swap", 0, func(w *World, p *BlockPlan) {
		p.Txs = one("t1", swapIn(w.A("t1"), "", C("uusdc", 1e9), 1e15, rin(1, "uatom")))
	})
	// ---- joins / exits
	l.Add("join_p1_all_t1", "join", 0, func(w *World, p *BlockPlan) {
		a := w.A("t1")
		p.Txs = one("t1", &ammtypes.MsgJoinPool{Sender: a.Addr.String(), PoolId: 1, MaxAmountsIn: sdk.NewCoins(C("uusdc", 5e10), C("uatom", 1e10)), ShareAmountOut: I(1)})
	})
	l.Add("join_p1_single_usdc_t1", "join", 0, func(w *World, p *BlockPlan) {
		a := w.A("t1")
		p.Txs = one("t1", &ammtypes.MsgJoinPool{Sender: a.Addr.String(), PoolId: 1, MaxAmountsIn: sdk.NewCoins(C("uusdc", 5e10)), ShareAmountOut: I(1)})
	})
	l.Add("join_p1_single_atom_t2", "join", 0, func(w *World, p *BlockPlan) {
		a := w.A("t2")
		p.Txs = one("t2", &ammtypes.MsgJoinPool{Sender: a.Addr.String(), PoolId: 1, MaxAmountsIn: sdk.NewCoins(C("uatom", 2e10)), ShareAmountOut: I(1)})
	})
	l.Add("join_p1_single_atom_dust_t2", "join", 0, func(w *World, p *BlockPlan) {
		a := w.A("t2")
		p.Txs = one("t2", &ammtypes.MsgJoinPool{Sender: a.Addr.String(), PoolId: 1, MaxAmountsIn: sdk.NewCoins(C("uatom", 3)), ShareAmountOut: I(1)})
	})
	l.Add("join_p2_all_t1", "join", 0, func(w *World, p *BlockPlan) {
		a := w.A("t1")
		p.Txs = one("t1", &ammtypes.MsgJoinPool{Sender: a.Addr.String(), PoolId: 2, MaxAmountsIn: sdk.NewCoins(C("uusdc", 3e10), C("uelys", 1e10)), ShareAmountOut: I(1e15)})
	})
	// single-asset joins of the constant-product pool whose QUOTED share amount is far above what the
	// deposit is worth (the quote is an unconstrained number from the caller)
	l.Add("join_p2_single_usdc_t1_inflated_quote", "join", 0, func(w *World, p *BlockPlan) {
		a := w.A("t1")
		pool, _ := w.App.AmmKeeper.GetPool(w.RCtx(), 2)
		p.Txs = one("t1", &ammtypes.MsgJoinPool{Sender: a.Addr.String(), PoolId: 2, MaxAmountsIn: sdk.NewCoins(C("uusdc", 1000000)), ShareAmountOut: pool.TotalShares.Amount.MulRaw(10)})
	})
	l.Add("join_p2_all_t1_quote_plus1", "join", 0, func(w *World, p *BlockPlan) {
		// all-asset join quoting ONE share unit more than the deposit limits can buy
		a := w.A("t1")
		pool, _ := w.App.AmmKeeper.GetPool(w.RCtx(), 2)
		p.Txs = one("t1", &ammtypes.MsgJoinPool{Sender: a.Addr.String(), PoolId: 2, MaxAmountsIn: sdk.NewCoins(C("uusdc", 3e9), C("uelys", 1e9)), ShareAmountOut: pool.TotalShares.Amount.QuoRaw(1000).AddRaw(1)})
	})
	// MaxAmountsIn lists that sdk.Coins.Validate would refuse (the message validates each coin alone):
	// a DUPLICATE denom, and unsorted denoms
	l.Add("join_p1_duplicate_denom_t1", "join", 0, func(w *World, p *BlockPlan) {
		a := w.A("t1")
		p.Txs = one("t1", &ammtypes.MsgJoinPool{Sender: a.Addr.String(), PoolId: 1, MaxAmountsIn: sdk.Coins{C("uusdc", 5e10), C("uusdc", 5e10)}, ShareAmountOut: I(1)})
	})
	l.Add("join_p1_duplicate_pair_t1", "join", 0, func(w *World, p *BlockPlan) {
		a := w.A("t1")
		p.Txs = one("t1", &ammtypes.MsgJoinPool{Sender: a.Addr.String(), PoolId: 1, MaxAmountsIn: sdk.Coins{C("uatom", 1e10), C("uusdc", 5e10), C("uusdc", 5e10)}, ShareAmountOut: I(1)})
	})
	l.Add("join_p1_unsorted_t1", "join", 0, func(w *World, p *BlockPlan) {
		a := w.A("t1")
		p.Txs = one("t1", &ammtypes.MsgJoinPool{Sender: a.Addr.String(), PoolId: 1, MaxAmountsIn: sdk.Coins{C("uusdc", 5e10), C("uatom", 1e10)}, ShareAmountOut: I(1)})
	})
	l.Add("join_p2_duplicate_pair_t1", "join", 0, func(w *World, p *BlockPlan) {
		a := w.A("t1")
		pool, _ := w.App.AmmKeeper.GetPool(w.RCtx(), 2)
		p.Txs = one("t1", &ammtypes.MsgJoinPool{Sender: a.Addr.String(), PoolId: 2, MaxAmountsIn: sdk.Coins{C("uelys", 2e11), C("uusdc", 4e11), C("uusdc", 4e11)}, ShareAmountOut: pool.TotalShares.Amount.QuoRaw(10)})
	})
	l.Add("join_p2_all_lp2", "join", 0, func(w *World, p *BlockPlan) {
		a := w.A("lp2")
		p.Txs = one("lp2", &ammtypes.MsgJoinPool{Sender: a.Addr.String(), PoolId: 2, MaxAmountsIn: sdk.NewCoins(C("uusdc", 3e11), C("uelys", 1e11)), ShareAmountOut: I(1e16)})
	})
	exit := func(name, signer string, pool uint64, num, den int64, minus int64, outDenom string) {
		l.Add(name, "exit", 0, func(w *World, p *BlockPlan) {
			a := w.A(signer)
			have := w.CommittedOf(a.Addr, ammtypes.GetPoolShareDenom(pool))
			amt := mulFrac(have, num, den).SubRaw(minus)
			if !amt.IsPositive() {
				amt = I(1)
			}
			p.Txs = one(signer, &ammtypes.MsgExitPool{Sender: a.Addr.String(), PoolId: pool, ShareAmountIn: amt, MinAmountsOut: sdk.Coins{}, TokenOutDenom: outDenom})
		})
	}
	// the LARGEST single-asset exit of the oracle pool that the founder (who holds most shares) can get
	// accepted — found by bisection over dry runs of the very message on discarded branches: it comes
	// as close to the whole reserve of the out asset as the pool allows
	for _, od := range []string{"uusdc", "uatom", ""} {
		od := od
		nm := "exit_p1_single_" + od + "_largest_accepted_lp1"
		if od == "" {
			// the largest ALL-ASSET exit the founder can get accepted (every guard of the after-exit hook chain
			// included): the thinnest pool the open positions allow
			nm = "exit_p1_all_assets_largest_accepted_lp1"
		}
		l.Add(nm, "exit", 0, func(w *World, p *BlockPlan) {
			a := w.A("lp1")
			have := w.CommittedOf(a.Addr, ammtypes.GetPoolShareDenom(1))
			mk := func(x math.Int) *ammtypes.MsgExitPool {
				return &ammtypes.MsgExitPool{Sender: a.Addr.String(), PoolId: 1, ShareAmountIn: x, MinAmountsOut: sdk.Coins{}, TokenOutDenom: od}
			}
			try := func(x math.Int) bool {
				if !x.IsPositive() {
					return false
				}
				c, _ := w.Ctx().CacheContext()
				c = c.WithBlockHeight(w.Height() + 1).WithBlockTime(time.Unix(w.Env.Tm+5, 0).UTC())
				m := mk(x)
				ok := false
				func() {
					defer func() { recover() }()
					_, err := w.App.MsgServiceRouter().Handler(m)(c, m)
					ok = err == nil
				}()
				return ok
			}
			lo, hi := math.ZeroInt(), have
			if try(hi) {
				lo = hi
			} else {
				for i := 0; i < 130 && hi.Sub(lo).GT(math.OneInt()); i++ {
					mid := lo.Add(hi).QuoRaw(2)
					if try(mid) {
						lo = mid
					} else {
						hi = mid
					}
				}
			}
			if !lo.IsPositive() {
				lo = I(1)
			}
			p.Txs = one("lp1", mk(lo))
		})
	}
	exit("exit_p1_10pct_lp1", "lp1", 1, 1, 10, 0, "")
	exit("exit_p1_single_atom_lp1", "lp1", 1, 1, 20, 0, "uatom")
	exit("exit_p1_single_usdc_lp1", "lp1", 1, 1, 20, 0, "uusdc")
	exit("exit_p1_all_t1", "t1", 1, 1, 1, 0, "")
	exit("exit_p1_all_lp1", "lp1", 1, 1, 1, 0, "")
	exit("exit_p2_all_lp2", "lp2", 2, 1, 1, 0, "")
	exit("exit_p2_half_lp1", "lp1", 2, 1, 2, 0, "")
	exit("exit_p2_allbut1_lp1", "lp1", 2, 1, 1, 1, "")
	exit("exit_p2_all_lp1", "lp1", 2, 1, 1, 0, "")
	exit("exit_p2_all_t1", "t1", 2, 1, 1, 0, "")
	exit("exit_p1_1share_lp1", "lp1", 1, 0, 1, -1, "")
	exit("exit_p1_90pct_lp1", "lp1", 1, 9, 10, 0, "")
	// a third pool: ORACLE pool created far off its 50:50 target (10 % ATOM by value), rebalance treasury
	// empty; one weight-breaking swap then funds the treasury with a little
	l.Add("create_oracle_pool_imbalanced_lp1", "createpool", 0, func(w *World, p *BlockPlan) {
		p.Txs = one("lp1", mkPoolMsg(w.A("lp1"), true, "uatom", 2e10, 9e11, 1, 1, "0.002"))
	})
	l.Add("swap_in_p3_usdc_atom_M", "swap", 0, func(w *World, p *BlockPlan) {
		p.Txs = one("t1", swapIn(w.A("t1"), "", C("uusdc", 1e9), 1, rin(3, "uatom")))
	})
	l.Add("create_pool_lp1", "createpool", 0, func(w *World, p *BlockPlan) {
		p.Txs = one("lp1", mkPoolMsg(w.A("lp1"), false, "uatom", 4e6, 5e6, 80, 20, "0.01"))
	})
	// ---- perpetual
	l.Add("perp_open_long_t1", "perp_open", 0, func(w *World, p *BlockPlan) {
		p.Txs = one("t1", perpOpen(w.A("t1"), perptypes.Position_LONG, "3", C("uusdc", 1e9), mulDecStr(w.Env.Atom, "1.6")))
	})
	l.Add("perp_open_long_atomcoll_t1", "perp_open", 0, func(w *World, p *BlockPlan) {
		p.Txs = one("t1", perpOpen(w.A("t1"), perptypes.Position_LONG, "2", C("uatom", 2e8), mulDecStr(w.Env.Atom, "1.6")))
	})
	l.Add("perp_open_long_t3_x5", "perp_open", 0, func(w *World, p *BlockPlan) {
		p.Txs = one("t3", perpOpen(w.A("t3"), perptypes.Position_LONG, "5", C("uusdc", 2e9), mulDecStr(w.Env.Atom, "2")))
	})
	l.Add("perp_open_short_t2", "perp_open", 0, func(w *World, p *BlockPlan) {
		p.Txs = one("t2", perpOpen(w.A("t2"), perptypes.Position_SHORT, "2", C("uusdc", 1e9), mulDecStr(w.Env.Atom, "0.4")))
	})
	l.Add("perp_open_short_t2_dust", "perp_open", 0, func(w *World, p *BlockPlan) {
		p.Txs = one("t2", perpOpen(w.A("t2"), perptypes.Position_SHORT, "2", C("uusdc", 1000), mulDecStr(w.Env.Atom, "0.4")))
	})
	l.Add("perp_open_long_t1_dust", "perp_open", 0, func(w *World, p *BlockPlan) {
		p.Txs = one("t1", perpOpen(w.A("t1"), perptypes.Position_LONG, "3", C("uusdc", 100), mulDecStr(w.Env.Atom, "1.6")))
	})
	l.Add("perp_topup_t1", "perp_open", 0, func(w *World, p *BlockPlan) {
		// leverage 0 = add collateral to the existing same-asset position
		p.Txs = one("t1", perpOpen(w.A("t1"), perptypes.Position_LONG, "0", C("uusdc", 2e8), mulDecStr(w.Env.Atom, "1.6")))
	})
	perpClose := func(name, owner string, num, den int64) {
		l.Add(name, "perp_close", 0, func(w *World, p *BlockPlan) {
			ms := w.MTPsOf(owner)
			id, amt := uint64(1), I(1)
			if len(ms) > 0 {
				id = ms[0].Id
				amt = mulFrac(ms[0].Custody, num, den)
				if !amt.IsPositive() {
					amt = I(1)
				}
			}
			p.Txs = one(owner, &perptypes.MsgClose{Creator: w.A(owner).Addr.String(), Id: id, Amount: amt})
		})
	}
	perpClose("perp_close_half_t1", "t1", 1, 2)
	perpClose("perp_close_full_t1", "t1", 1, 1)
	perpClose("perp_close_full_t2", "t2", 1, 1)
	perpClose("perp_close_half_t2", "t2", 1, 2)
	l.Add("perp_update_tp_t1", "perp_update", 0, func(w *World, p *BlockPlan) {
		ms := w.MTPsOf("t1")
		id := uint64(1)
		if len(ms) > 0 {
			id = ms[0].Id
		}
		p.Txs = one("t1", &perptypes.MsgUpdateTakeProfitPrice{Creator: w.A("t1").Addr.String(), Id: id, Price: Dec(mulDecStr(w.Env.Atom, "1.3"))})
	})
	l.Add("perp_update_sl_t1", "perp_update", 0, func(w *World, p *BlockPlan) {
		ms := w.MTPsOf("t1")
		id := uint64(1)
		if len(ms) > 0 {
			id = ms[0].Id
		}
		p.Txs = one("t1", &perptypes.MsgUpdateStopLoss{Creator: w.A("t1").Addr.String(), Id: id, Price: Dec(mulDecStr(w.Env.Atom, "0.9"))})
	})
	// a small long (liabilities 40 USDC): per block its borrow interest is below one custody unit
	// while its funding fee is not — the two settle through different code paths
	// a HUGE long (custody ~ 20 % of pool 1's ATOM): large liquidity exits then collide with the rule
	// that the pool must keep at least the custody it owes
	l.Add("perp_open_long_t3_huge", "perp_open", 0, func(w *World, p *BlockPlan) {
		p.Txs = one("t3", perpOpen(w.A("t3"), perptypes.Position_LONG, "5", C("uusdc", 2e11), mulDecStr(w.Env.Atom, "2")))
	})
	l.Add("perp_open_long_t3_small", "perp_open", 0, func(w *World, p *BlockPlan) {
		p.Txs = one("t3", perpOpen(w.A("t3"), perptypes.Position_LONG, "5", C("uusdc", 1e7), mulDecStr(w.Env.Atom, "2")))
	})
	// a low-leverage long: custody is 11x the liabilities, so per block its funding fee is at least
	// one custody unit while its borrow interest is below one (funding>0, interest==0)
	l.Add("perp_open_long_t3_lowlev", "perp_open", 0, func(w *World, p *BlockPlan) {
		p.Txs = one("t3", perpOpen(w.A("t3"), perptypes.Position_LONG, "1.1", C("uusdc", 2e8), mulDecStr(w.Env.Atom, "2")))
	})
	// bot names the positions of ONE account only (others are not touched in that block)
	for _, who := range []string{"t1", "t2", "t3"} {
		who := who
		l.Add("perp_bot_liquidate_"+who+"_only", "perp_bot", 0, func(w *World, p *BlockPlan) {
			reqs := []perptypes.PositionRequest{}
			for _, m := range w.App.PerpetualKeeper.GetAllMTPs(w.RCtx()) {
				if m.Address == w.A(who).Addr.String() {
					reqs = append(reqs, perptypes.PositionRequest{Address: m.Address, Id: m.Id})
				}
			}
			if len(reqs) == 0 {
				reqs = append(reqs, perptypes.PositionRequest{Address: w.A(who).Addr.String(), Id: 1})
			}
			p.Txs = one("bot", &perptypes.MsgClosePositions{Creator: w.A("bot").Addr.String(), Liquidate: reqs})
		})
	}
	l.Add("perp_update_sl_t2", "perp_update", 0, func(w *World, p *BlockPlan) {
		ms := w.MTPsOf("t2")
		id := uint64(1)
		if len(ms) > 0 {
			id = ms[0].Id
		}
		p.Txs = one("t2", &perptypes.MsgUpdateStopLoss{Creator: w.A("t2").Addr.String(), Id: id, Price: Dec(mulDecStr(w.Env.Atom, "1.1"))})
	})
	// price move and the bot's sweep in ONE block (the feeder's tx precedes the bot's): reaches the
	// forced-close branches (liquidation / stop-loss / take-profit, long and short) one op earlier
	for _, pr := range []string{"4.4", "3", "5.6", "8", "2"} {
		pr := pr
		l.Add("perp_bot_close_all_at_"+pr, "perp_bot", 1, func(w *World, p *BlockPlan) {
			p.SetAtom = pr
			reqs := []perptypes.PositionRequest{}
			for _, m := range w.App.PerpetualKeeper.GetAllMTPs(w.RCtx()) {
				reqs = append(reqs, perptypes.PositionRequest{Address: m.Address, Id: m.Id})
			}
			p.Txs = one("bot", &perptypes.MsgClosePositions{Creator: w.A("bot").Addr.String(), Liquidate: reqs, StopLoss: reqs, TakeProfit: reqs})
		})
	}
	// the same with ONE list only: the take-profit / stop-loss routes go straight to the forced close,
	// without the settlement the liquidation route performs first
	for _, v := range []struct{ list, pr string }{{"takeprofit", "8"}, {"takeprofit", "2"}, {"stoploss", "4.4"}, {"stoploss", "5.6"}} {
		v := v
		l.Add("perp_bot_"+v.list+"_all_at_"+v.pr, "perp_bot", 1, func(w *World, p *BlockPlan) {
			p.SetAtom = v.pr
			reqs := []perptypes.PositionRequest{}
			for _, m := range w.App.PerpetualKeeper.GetAllMTPs(w.RCtx()) {
				reqs = append(reqs, perptypes.PositionRequest{Address: m.Address, Id: m.Id})
			}
			m := &perptypes.MsgClosePositions{Creator: w.A("bot").Addr.String()}
			if v.list == "takeprofit" {
				m.TakeProfit = reqs
			} else {
				m.StopLoss = reqs
			}
			p.Txs = one("bot", m)
		})
	}
	// LIQUIDATION AT THE EDGE: the price is moved (in the bot's own block) to where the weakest long /
	// short sits just under the safety factor but still above 1 — the liquidation every bot races for,
	// the only one that pays something back to the trader — and the bot names every stored position in
	// the Liquidate list, oldest first or newest first
	for _, side := range []perptypes.Position{perptypes.Position_LONG, perptypes.Position_SHORT} {
		for _, order := range []string{"fwd", "rev"} {
			side, order := side, order
			l.Add("perp_bot_liquidate_all_"+order+"_at_edge_"+strings.ToLower(side.String()), "perp_bot", 1, func(w *World, p *BlockPlan) {
				ctx := w.RCtx()
				k := w.App.PerpetualKeeper
				all := k.GetAllMTPs(ctx)
				sf := k.GetParams(ctx).SafetyFactor
				var weakest math.LegacyDec
				for _, m := range all {
					if m.Position != side {
						continue
					}
					ammPool, err := k.GetAmmPool(ctx, m.AmmPoolId)
					if err != nil {
						continue
					}
					h, err := k.GetMTPHealth(ctx, m, ammPool, "uusdc")
					if err != nil || !h.IsPositive() {
						continue
					}
					if weakest.IsNil() || h.LT(weakest) {
						weakest = h
					}
				}
				if !weakest.IsNil() {
					// target health halfway between 1 and the factor; health moves with the price (long) or against it (short)
					target := sf.Add(math.LegacyOneDec()).QuoInt64(2)
					np := Dec(w.Env.Atom).Mul(target).Quo(weakest)
					if side == perptypes.Position_SHORT {
						np = Dec(w.Env.Atom).Mul(weakest).Quo(target)
					}
					p.SetAtom = np.Mul(Dec("10000")).TruncateDec().Quo(Dec("10000")).String()
				}
				reqs := []perptypes.PositionRequest{}
				for _, m := range all {
					reqs = append(reqs, perptypes.PositionRequest{Address: m.Address, Id: m.Id})
				}
				if order == "rev" {
					for i, j := 0, len(reqs)-1; i < j; i, j = i+1, j-1 {
						reqs[i], reqs[j] = reqs[j], reqs[i]
					}
				}
				p.Txs = one("bot", &perptypes.MsgClosePositions{Creator: w.A("bot").Addr.String(), Liquidate: reqs})
			})
		}
	}
	l.Add("perp_bot_close_all", "perp_bot", 0, func(w *World, p *BlockPlan) {
		// bot names every stored position in all three lists (healthy or not)
		reqs := []perptypes.PositionRequest{}
		for _, m := range w.App.PerpetualKeeper.GetAllMTPs(w.RCtx()) {
			reqs = append(reqs, perptypes.PositionRequest{Address: m.Address, Id: m.Id})
		}
		reqs = append(reqs, perptypes.PositionRequest{Address: w.A("t3").Addr.String(), Id: 999})
		p.Txs = one("bot", &perptypes.MsgClosePositions{Creator: w.A("bot").Addr.String(), Liquidate: reqs, StopLoss: reqs, TakeProfit: reqs})
	})
	// ---- leveraged LP
	l.Add("llp_open_t1_x3", "llp_open", 0, func(w *World, p *BlockPlan) { p.Txs = one("t1", llpOpen(w.A("t1"), "3", 1e9, "0")) })
	l.Add("llp_open_t1_x2_again", "llp_open", 0, func(w *World, p *BlockPlan) { p.Txs = one("t1", llpOpen(w.A("t1"), "2", 5e8, "0")) })
	l.Add("llp_open_t2_x5", "llp_open", 0, func(w *World, p *BlockPlan) { p.Txs = one("t2", llpOpen(w.A("t2"), "5", 1e11, "0")) })
	l.Add("llp_open_t3_x9", "llp_open", 0, func(w *World, p *BlockPlan) { p.Txs = one("t3", llpOpen(w.A("t3"), "9", 1e9, "0")) })
	l.Add("llp_open_t2_x5_big", "llp_open", 0, func(w *World, p *BlockPlan) { p.Txs = one("t2", llpOpen(w.A("t2"), "5", 3e11, "0")) })
	l.Add("llp_open_t3_x5_big", "llp_open", 0, func(w *World, p *BlockPlan) { p.Txs = one("t3", llpOpen(w.A("t3"), "5", 5e10, "0")) })
	l.Add("llp_open_t3_dust", "llp_open", 0, func(w *World, p *BlockPlan) { p.Txs = one("t3", llpOpen(w.A("t3"), "2", 10, "0")) })
	llpClose := func(name, owner string, num, den, minus int64) {
		l.Add(name, "llp_close", 0, func(w *World, p *BlockPlan) {
			ps := w.LLPsOf(owner)
			id, amt := uint64(1), I(1)
			if len(ps) > 0 {
				id = ps[0].Id
				amt = mulFrac(ps[0].LeveragedLpAmount, num, den).SubRaw(minus)
				if !amt.IsPositive() {
					amt = I(1)
				}
			}
			p.Txs = one(owner, &llptypes.MsgClose{Creator: w.A(owner).Addr.String(), Id: id, LpAmount: amt})
		})
	}
	llpClose("llp_close_half_t1", "t1", 1, 2, 0)
	llpClose("llp_close_full_t1", "t1", 1, 1, 0)
	llpClose("llp_close_1share_t1", "t1", 0, 1, -1)
	llpClose("llp_close_allbut1_t1", "t1", 1, 1, 1)
	llpClose("llp_close_full_t2", "t2", 1, 1, 0)
	llpClose("llp_close_full_t3", "t3", 1, 1, 0)
	l.Add("llp_update_sl_t1", "llp_update", 0, func(w *World, p *BlockPlan) {
		ps := w.LLPsOf("t1")
		id := uint64(1)
		if len(ps) > 0 {
			id = ps[0].Id
		}
		p.Txs = one("t1", &llptypes.MsgUpdateStopLoss{Creator: w.A("t1").Addr.String(), Position: id, Price: Dec("0.5")})
	})
	llpReqs := func(w *World) []*llptypes.PositionRequest {
		reqs := []*llptypes.PositionRequest{}
		for _, m := range w.App.LeveragelpKeeper.GetAllPositions(w.RCtx()) {
			reqs = append(reqs, &llptypes.PositionRequest{Address: m.Address, Id: m.Id})
		}
		return append(reqs, &llptypes.PositionRequest{Address: w.A("t3").Addr.String(), Id: 999})
	}
	// bot names every stored position (healthy or not) plus a non-existent one
	l.Add("llp_bot_close_all", "llp_bot", 0, func(w *World, p *BlockPlan) {
		p.Txs = one("bot", &llptypes.MsgClosePositions{Creator: w.A("bot").Addr.String(), Liquidate: llpReqs(w)})
	})
	l.Add("llp_bot_stoploss_all", "llp_bot", 0, func(w *World, p *BlockPlan) {
		p.Txs = one("bot", &llptypes.MsgClosePositions{Creator: w.A("bot").Addr.String(), StopLoss: llpReqs(w)})
	})
	// the OWNER closes in the block that first feeds a much lower price (the position is unhealthy when the
	// owner's message runs; inside the lock hour this must stay refused: only a liquidation overrides a lock)
	for _, who := range []string{"t1", "t2"} {
		who := who
		l.Add("llp_close_full_"+who+"_at_1", "llp_close", 1, func(w *World, p *BlockPlan) {
			p.SetAtom = "1"
			ps := w.LLPsOf(who)
			id, amt := uint64(1), I(1)
			if len(ps) > 0 {
				id, amt = ps[len(ps)-1].Id, ps[len(ps)-1].LeveragedLpAmount
			}
			p.Txs = one(who, &llptypes.MsgClose{Creator: w.A(who).Addr.String(), Id: id, LpAmount: amt})
		})
	}
	// price move and the bot's message in ONE block: the begin-block sweep of that block ran at the old
	// price, so it is the MESSAGE that finds the positions closable (several closes inside one message)
	for _, pr := range []string{"4", "2", "1"} {
		pr := pr
		l.Add("llp_bot_stoploss_all_at_"+pr, "llp_bot", 1, func(w *World, p *BlockPlan) {
			p.SetAtom = pr
			p.Txs = one("bot", &llptypes.MsgClosePositions{Creator: w.A("bot").Addr.String(), StopLoss: llpReqs(w)})
		})
		l.Add("llp_bot_close_all_at_"+pr, "llp_bot", 1, func(w *World, p *BlockPlan) {
			p.SetAtom = pr
			p.Txs = one("bot", &llptypes.MsgClosePositions{Creator: w.A("bot").Addr.String(), Liquidate: llpReqs(w), StopLoss: llpReqs(w)})
		})
	}
	l.Add("llp_claim_t1", "llp_claim", 0, func(w *World, p *BlockPlan) {
		ids := []uint64{}
		for _, ps := range w.LLPsOf("t1") {
			ids = append(ids, ps.Id)
		}
		p.Txs = one("t1", &llptypes.MsgClaimRewards{Sender: w.A("t1").Addr.String(), Ids: ids})
	})
	// ---- vault
	bond := func(name, who string, amt int64) {
		l.Add(name, "bond", 0, func(w *World, p *BlockPlan) {
			p.Txs = one(who, &sstypes.MsgBond{Creator: w.A(who).Addr.String(), Amount: I(amt)})
		})
	}
	bond("bond_lp1_L", "lp1", 1e11)
	bond("bond_lp1_XL", "lp1", 5e12)
	bond("bond_lp1_D", "lp1", 1)
	bond("bond_lp2_D", "lp2", 3)
	// role collisions: a BORROWER (leveraged-LP position owner) who also lends
	bond("bond_t1_L", "t1", 1e10)
	bond("bond_t2_L", "t2", 1e10)
	unbond := func(name, who string, num, den, minus int64) {
		l.Add(name, "unbond", 0, func(w *World, p *BlockPlan) {
			have := w.CommittedOf(w.A(who).Addr, sstypes.GetShareDenom())
			amt := mulFrac(have, num, den).SubRaw(minus)
			if !amt.IsPositive() {
				amt = I(1)
			}
			p.Txs = one(who, &sstypes.MsgUnbond{Creator: w.A(who).Addr.String(), Amount: amt})
		})
	}
	unbond("unbond_lp2_L", "lp2", 3, 4, 0)
	unbond("unbond_lp2_half", "lp2", 1, 2, 0)
	unbond("unbond_lp2_all", "lp2", 1, 1, 0)
	unbond("unbond_lp2_D", "lp2", 0, 1, -1)
	unbond("unbond_lp1_all", "lp1", 1, 1, 0)
	unbond("unbond_t1_half", "t1", 1, 2, 0)
	// ---- fees / donations
	for _, d := range []string{"uusdc", "uatom", "uelys"} {
		d := d
		l.Add("fee_tx_"+d, "feetx", 1, func(w *World, p *BlockPlan) {
			a := w.A("t3")
			p.Txs = []PlannedTx{{Signer: "t3", Fee: sdk.NewCoins(C(d, 1000000)), Msgs: []sdk.Msg{&banktypes.MsgSend{FromAddress: a.Addr.String(), ToAddress: w.A("bot").Addr.String(), Amount: sdk.NewCoins(C("uusdc", 1))}}}}
		})
	}
	for _, d := range []string{"uatom", "uelys"} {
		d := d
		// a fee paid in a non-base denom in a block WITHOUT a price feed (the end-block fee conversion
		// then meets whatever prices are still live)
		l.Add("fee_tx_"+d+"_nofeed", "feetx_nofeed", 2, func(w *World, p *BlockPlan) {
			a := w.A("t3")
			p.Feed = false
			p.Txs = []PlannedTx{{Signer: "t3", Fee: sdk.NewCoins(C(d, 1000000)), Msgs: []sdk.Msg{&banktypes.MsgSend{FromAddress: a.Addr.String(), ToAddress: w.A("bot").Addr.String(), Amount: sdk.NewCoins(C("uusdc", 1))}}}}
		})
	}
	l.Add("send_elys_to_burn_addr", "burnsend", 1, func(w *World, p *BlockPlan) {
		a := w.A("t3")
		p.Txs = one("t3", &banktypes.MsgSend{FromAddress: a.Addr.String(), ToAddress: sdk.AccAddress(make([]byte, 20)).String(), Amount: sdk.NewCoins(C("uelys", 5000000))})
	})
	l.Add("burn_two_denoms", "burnsend", 1, func(w *World, p *BlockPlan) {
		a := w.A("t3")
		p.Txs = one("t3", &banktypes.MsgSend{FromAddress: a.Addr.String(), ToAddress: sdk.AccAddress(make([]byte, 20)).String(), Amount: sdk.NewCoins(C("uelys", 5000000), C("uatom", 3000000), C("uusdc", 1000000))})
	})
	l.Add("donate_p1_atom", "donate", 1, func(w *World, p *BlockPlan) {
		a := w.A("donor")
		p.Txs = one("donor", &banktypes.MsgSend{FromAddress: a.Addr.String(), ToAddress: w.PoolAddr(1).String(), Amount: sdk.NewCoins(C("uatom", 12345))})
	})
	l.Add("donate_p2_usdc", "donate", 1, func(w *World, p *BlockPlan) {
		a := w.A("donor")
		p.Txs = one("donor", &banktypes.MsgSend{FromAddress: a.Addr.String(), ToAddress: w.PoolAddr(2).String(), Amount: sdk.NewCoins(C("uusdc", 777))})
	})
	// ---- rewards / commitment
	for _, who := range []string{"lp1", "lp2", "t1", "t2"} {
		who := who
		l.Add("mc_claim_"+who, "mc_claim", 0, func(w *World, p *BlockPlan) {
			p.Txs = one(who, &mctypes.MsgClaimRewards{Sender: w.A(who).Addr.String(), PoolIds: []uint64{1, 2, uint64(sstypes.PoolId)}})
		})
	}
	// unusual shapes of the claim message that validation accepts: a REPEATED pool id, an empty list, an
	// unknown pool
	l.Add("mc_claim_lp1_repeated_ids", "mc_claim", 0, func(w *World, p *BlockPlan) {
		p.Txs = one("lp1", &mctypes.MsgClaimRewards{Sender: w.A("lp1").Addr.String(), PoolIds: []uint64{1, 1, 2, 1, uint64(sstypes.PoolId), 2}})
	})
	l.Add("mc_claim_lp1_pool2_twice", "mc_claim", 0, func(w *World, p *BlockPlan) {
		// pool 2 earns no Eden: only bank-backed rewards are involved
		p.Txs = one("lp1", &mctypes.MsgClaimRewards{Sender: w.A("lp1").Addr.String(), PoolIds: []uint64{2, 2}})
	})
	l.Add("mc_claim_lp1_empty_list", "mc_claim", 0, func(w *World, p *BlockPlan) {
		p.Txs = one("lp1", &mctypes.MsgClaimRewards{Sender: w.A("lp1").Addr.String(), PoolIds: []uint64{}})
	})
	l.Add("mc_claim_lp1_unknown_pool", "mc_claim", 0, func(w *World, p *BlockPlan) {
		p.Txs = one("lp1", &mctypes.MsgClaimRewards{Sender: w.A("lp1").Addr.String(), PoolIds: []uint64{1, 77}})
	})
	l.Add("ext_incentive_lp1", "ext_incentive", 0, func(w *World, p *BlockPlan) {
		h := w.Height()
		p.Txs = one("lp1", &mctypes.MsgAddExternalIncentive{Sender: w.A("lp1").Addr.String(), RewardDenom: "uatom", PoolId: 1, FromBlock: h + 2, ToBlock: h + 4, AmountPerBlock: I(1000)})
	})
	l.Add("ext_incentives_two_new_denoms_lp1", "ext_incentive", 0, func(w *World, p *BlockPlan) {
		// two external incentives with two reward denoms, both starting in the very block that carries
		// them (pool 2: neither denom was a reward denom of that pool before)
		h := w.Height() + 1
		a := w.A("lp1").Addr.String()
		p.Txs = one("lp1", &mctypes.MsgAddExternalIncentive{Sender: a, RewardDenom: "uatom", PoolId: 2, FromBlock: h, ToBlock: h + 3, AmountPerBlock: I(700)},
			&mctypes.MsgAddExternalIncentive{Sender: a, RewardDenom: "uelys", PoolId: 2, FromBlock: h, ToBlock: h + 3, AmountPerBlock: I(900)})
	})
	// the same during an ORACLE OUTAGE (no feed in the block that carries them)
	l.Add("ext_incentives_two_new_denoms_lp1_nofeed", "ext_incentive", 1, func(w *World, p *BlockPlan) {
		h := w.Height() + 1
		a := w.A("lp1").Addr.String()
		p.Feed = false
		p.Txs = one("lp1", &mctypes.MsgAddExternalIncentive{Sender: a, RewardDenom: "uatom", PoolId: 2, FromBlock: h, ToBlock: h + 3, AmountPerBlock: I(700)},
			&mctypes.MsgAddExternalIncentive{Sender: a, RewardDenom: "uelys", PoolId: 2, FromBlock: h, ToBlock: h + 3, AmountPerBlock: I(900)})
	})
	// a LARGE all-asset join of the constant-product pool 2 (10 % of its shares; the other p2 joins ask
	// for 1e15 of 6e24 shares, i.e. dust), with and without a feed in its block
	for _, nf := range []bool{false, true} {
		nf := nf
		name, cost := "join_p2_big_t1", 0
		if nf {
			name, cost = "join_p2_big_t1_nofeed", 1
		}
		l.Add(name, "join", cost, func(w *World, p *BlockPlan) {
			a := w.A("t1")
			if nf {
				p.Feed = false
			}
			pool, _ := w.App.AmmKeeper.GetPool(w.RCtx(), 2)
			p.Txs = one("t1", &ammtypes.MsgJoinPool{Sender: a.Addr.String(), PoolId: 2, MaxAmountsIn: sdk.NewCoins(C("uusdc", 4e11), C("uelys", 2e11)), ShareAmountOut: pool.TotalShares.Amount.QuoRaw(10)})
		})
	}
	l.Add("commit_eden_lp1", "commit", 0, func(w *World, p *BlockPlan) {
		cm := w.App.CommitmentKeeper.GetCommitments(w.RCtx(), w.A("lp1").Addr)
		amt := cm.GetClaimedForDenom("ueden").QuoRaw(2)
		if !amt.IsPositive() {
			amt = I(1)
		}
		p.Txs = one("lp1", &ctypes.MsgCommitClaimedRewards{Creator: w.A("lp1").Addr.String(), Denom: "ueden", Amount: amt})
	})
	l.Add("uncommit_eden_lp1", "uncommit", 0, func(w *World, p *BlockPlan) {
		amt := w.CommittedOf(w.A("lp1").Addr, "ueden").QuoRaw(2)
		if !amt.IsPositive() {
			amt = I(1)
		}
		p.Txs = one("lp1", &ctypes.MsgUncommitTokens{Creator: w.A("lp1").Addr.String(), Denom: "ueden", Amount: amt})
	})
	l.Add("uncommit_eden_lp1_all", "uncommit", 0, func(w *World, p *BlockPlan) {
		amt := w.CommittedOf(w.A("lp1").Addr, "ueden")
		if !amt.IsPositive() {
			amt = I(1)
		}
		p.Txs = one("lp1", &ctypes.MsgUncommitTokens{Creator: w.A("lp1").Addr.String(), Denom: "ueden", Amount: amt})
	})
	l.Add("uncommit_edenb_lp1_all", "uncommit", 0, func(w *World, p *BlockPlan) {
		amt := w.CommittedOf(w.A("lp1").Addr, "uedenb")
		if !amt.IsPositive() {
			amt = I(1)
		}
		p.Txs = one("lp1", &ctypes.MsgUncommitTokens{Creator: w.A("lp1").Addr.String(), Denom: "uedenb", Amount: amt})
	})
	// a LONG, LARGE incentive on the constant-product pool 2 (its only uatom incentive): 12 blocks x 1e8
	l.Add("ext_incentive_long_p2_lp1", "ext_incentive", 0, func(w *World, p *BlockPlan) {
		h := w.Height() + 1
		p.Txs = one("lp1", &mctypes.MsgAddExternalIncentive{Sender: w.A("lp1").Addr.String(), RewardDenom: "uatom", PoolId: 2, FromBlock: h, ToBlock: h + 12, AmountPerBlock: I(1e8)})
	})
	// governance switches Eden rewards ON for the constant-product pool 2 (off by default)
	l.Add("cfg_mc_eden_rewards_p2_on", "config", 1, func(w *World, p *BlockPlan) {
		p.Gov = append(p.Gov, func(ctx sdk.Context) error {
			_, err := mckeeper.NewMsgServerImpl(w.App.MasterchefKeeper).TogglePoolEdenRewards(ctx, &mctypes.MsgTogglePoolEdenRewards{Authority: w.Gov, PoolId: 2, Enable: true})
			return err
		})
	})
	// governance DELISTS / RELISTS an external reward denom while incentives paying it may be running
	for _, v := range []struct {
		n  string
		on bool
	}{{"delist", false}, {"relist", true}} {
		v := v
		l.Add("cfg_mc_"+v.n+"_uatom", "config", 1, func(w *World, p *BlockPlan) {
			p.Gov = append(p.Gov, func(ctx sdk.Context) error {
				_, err := mckeeper.NewMsgServerImpl(w.App.MasterchefKeeper).AddExternalRewardDenom(ctx, &mctypes.MsgAddExternalRewardDenom{Authority: w.Gov, RewardDenom: "uatom", MinAmount: math.NewInt(1), Supported: v.on})
				return err
			})
		})
	}
	l.Add("ext_incentive_now_lp1", "ext_incentive", 0, func(w *World, p *BlockPlan) {
		// starts in the very block that carries it: the first distribution is in the NEXT block's end-blocker
		h := w.Height() + 1
		p.Txs = one("lp1", &mctypes.MsgAddExternalIncentive{Sender: w.A("lp1").Addr.String(), RewardDenom: "uatom", PoolId: 1, FromBlock: h, ToBlock: h + 5, AmountPerBlock: I(1000)})
	})
	l.Add("vest_eden_lp1", "vest", 0, func(w *World, p *BlockPlan) {
		cm := w.App.CommitmentKeeper.GetCommitments(w.RCtx(), w.A("lp1").Addr)
		amt := cm.GetClaimedForDenom("ueden").QuoRaw(3)
		if !amt.IsPositive() {
			amt = I(1)
		}
		p.Txs = one("lp1", &ctypes.MsgVest{Creator: w.A("lp1").Addr.String(), Denom: "ueden", Amount: amt})
	})
	l.Add("vest_liquid_uatom_lp1", "vest", 0, func(w *World, p *BlockPlan) {
		p.Txs = one("lp1", &ctypes.MsgVestLiquid{Creator: w.A("lp1").Addr.String(), Amount: I(1000000), Denom: "uatom"})
	})
	l.Add("cancel_vest_lp1", "cancelvest", 0, func(w *World, p *BlockPlan) {
		cm := w.App.CommitmentKeeper.GetCommitments(w.RCtx(), w.A("lp1").Addr)
		amt := I(1)
		if len(cm.VestingTokens) > 0 {
			v := cm.VestingTokens[len(cm.VestingTokens)-1]
			amt = v.TotalAmount.Sub(v.ClaimedAmount).QuoRaw(3)
			if !amt.IsPositive() {
				amt = I(1)
			}
		}
		p.Txs = one("lp1", &ctypes.MsgCancelVest{Creator: w.A("lp1").Addr.String(), Denom: "ueden", Amount: amt})
	})
	l.Add("claim_vesting_lp1", "claimvest", 0, func(w *World, p *BlockPlan) {
		p.Txs = one("lp1", &ctypes.MsgClaimVesting{Sender: w.A("lp1").Addr.String()})
	})
	l.Add("vest_now_lp1", "vestnow", 0, func(w *World, p *BlockPlan) {
		cm := w.App.CommitmentKeeper.GetCommitments(w.RCtx(), w.A("lp1").Addr)
		amt := cm.GetClaimedForDenom("ueden").QuoRaw(4)
		if !amt.IsPositive() {
			amt = I(1)
		}
		p.Txs = one("lp1", &ctypes.MsgVestNow{Creator: w.A("lp1").Addr.String(), Denom: "ueden", Amount: amt})
	})
	// the WHOLE claimed Eden balance (for an account holding nothing else the record becomes empty)
	for _, who := range []string{"lp1", "t1"} {
		who := who
		l.Add("vest_now_all_"+who, "vestnow", 0, func(w *World, p *BlockPlan) {
			cm := w.App.CommitmentKeeper.GetCommitments(w.RCtx(), w.A(who).Addr)
			amt := cm.GetClaimedForDenom("ueden")
			if !amt.IsPositive() {
				amt = I(1)
			}
			p.Txs = one(who, &ctypes.MsgVestNow{Creator: w.A(who).Addr.String(), Denom: "ueden", Amount: amt})
		})
	}
	l.Add("stake_elys_lp1", "stake", 0, func(w *World, p *BlockPlan) {
		p.Txs = one("lp1", &ctypes.MsgStake{Creator: w.A("lp1").Addr.String(), Asset: "uelys", Amount: I(1e9), ValidatorAddress: w.ValAddr.String()})
	})
	l.Add("unstake_elys_lp1", "unstake", 0, func(w *World, p *BlockPlan) {
		p.Txs = one("lp1", &ctypes.MsgUnstake{Creator: w.A("lp1").Addr.String(), Asset: "uelys", Amount: I(4e8), ValidatorAddress: w.ValAddr.String()})
	})
	l.Add("estaking_withdraw_lp1", "estaking_withdraw", 0, func(w *World, p *BlockPlan) {
		p.Txs = one("lp1", &estypes.MsgWithdrawAllRewards{DelegatorAddress: w.A("lp1").Addr.String()})
	})
	// message handlers the first alphabets never sent (found by the union coverage audit)
	l.Add("estaking_withdraw_reward_lp1", "estaking_withdraw", 0, func(w *World, p *BlockPlan) {
		p.Txs = one("lp1", &estypes.MsgWithdrawReward{DelegatorAddress: w.A("lp1").Addr.String(), ValidatorAddress: w.ValAddr.String()})
	})
	l.Add("estaking_withdraw_elys_rewards_lp1", "estaking_withdraw", 0, func(w *World, p *BlockPlan) {
		p.Txs = one("lp1", &estypes.MsgWithdrawElysStakingRewards{DelegatorAddress: w.A("lp1").Addr.String()})
	})
	l.Add("stake_eden_lp1", "commit", 0, func(w *World, p *BlockPlan) {
		cm := w.App.CommitmentKeeper.GetCommitments(w.RCtx(), w.A("lp1").Addr)
		amt := cm.GetClaimedForDenom("ueden").QuoRaw(2)
		if !amt.IsPositive() {
			amt = I(1)
		}
		p.Txs = one("lp1", &ctypes.MsgStake{Creator: w.A("lp1").Addr.String(), Asset: "ueden", Amount: amt, ValidatorAddress: w.ValAddr.String()})
	})
	l.Add("unstake_eden_lp1", "uncommit", 0, func(w *World, p *BlockPlan) {
		amt := w.CommittedOf(w.A("lp1").Addr, "ueden").QuoRaw(2)
		if !amt.IsPositive() {
			amt = I(1)
		}
		p.Txs = one("lp1", &ctypes.MsgUnstake{Creator: w.A("lp1").Addr.String(), Asset: "ueden", Amount: amt, ValidatorAddress: w.ValAddr.String()})
	})
	l.Add("tier_set_portfolio_t1", "tier", 0, func(w *World, p *BlockPlan) {
		p.Txs = one("t1", &tiertypes.MsgSetPortfolio{Creator: w.A("t1").Addr.String(), User: w.A("lp1").Addr.String()})
	})
	for _, v := range []struct{ n, amt, depth string }{{"deep", "50000000000000", "0.02"}, {"thin", "1000", "0.5"}, {"depth1", "5000000000000", "1"}} {
		v := v
		l.Add("feed_ext_liquidity_p1_"+v.n, "feed_ext", 0, func(w *World, p *BlockPlan) {
			p.Txs = one("feeder", &ammtypes.MsgFeedMultipleExternalLiquidity{Sender: w.A("feeder").Addr.String(), Liquidity: []ammtypes.ExternalLiquidity{{PoolId: 1, AmountDepthInfo: []ammtypes.AssetAmountDepth{
				{Asset: "ATOM", Amount: Dec(v.amt), Depth: Dec(v.depth)}, {Asset: "USDC", Amount: Dec(v.amt), Depth: Dec(v.depth)}}}}})
		})
	}
	for _, f := range []struct {
		n string
		a int64
	}{{"60pct", 6e8}, {"90pct", 9e8}, {"995permille", 995e6}} {
		f := f
		l.Add("unstake_elys_lp1_"+f.n, "unstake", 0, func(w *World, p *BlockPlan) {
			p.Txs = one("lp1", &ctypes.MsgUnstake{Creator: w.A("lp1").Addr.String(), Asset: "uelys", Amount: I(f.a), ValidatorAddress: w.ValAddr.String()})
		})
	}
	l.Add("unstake_elys_lp1_all", "unstake", 0, func(w *World, p *BlockPlan) {
		p.Txs = one("lp1", &ctypes.MsgUnstake{Creator: w.A("lp1").Addr.String(), Asset: "uelys", Amount: I(1e9), ValidatorAddress: w.ValAddr.String()})
	})
	// a commit of MORE than the claimed balance holds (claimed + 30): refused, or honoured up to the balance —
	// either way both sides of the book must move by the same amount
	for _, d := range []string{"ueden", "uedenb"} {
		d := d
		l.Add("commit_"+d+"_lp1_more_than_claimed", "commit", 0, func(w *World, p *BlockPlan) {
			cm := w.App.CommitmentKeeper.GetCommitments(w.RCtx(), w.A("lp1").Addr)
			p.Txs = one("lp1", &ctypes.MsgCommitClaimedRewards{Creator: w.A("lp1").Addr.String(), Denom: d, Amount: cm.GetClaimedForDenom(d).AddRaw(30)})
		})
	}
	l.Add("commit_edenb_lp1", "commit", 0, func(w *World, p *BlockPlan) {
		cm := w.App.CommitmentKeeper.GetCommitments(w.RCtx(), w.A("lp1").Addr)
		amt := cm.GetClaimedForDenom("uedenb")
		if !amt.IsPositive() {
			amt = I(1)
		}
		p.Txs = one("lp1", &ctypes.MsgCommitClaimedRewards{Creator: w.A("lp1").Addr.String(), Denom: "uedenb", Amount: amt})
	})
	addC20Ops(l)
	addC10Ops(l)
	addAutoCfgOps(l)
	addDenomSweepOps(l)
	addWideOps(l)
	return l
}

func mulDecStr(a, b string) string { return Dec(a).Mul(Dec(b)).String() }

func init() {
	_ = fmt.Sprintf
}
