//go:build verif

package mc

import (
	"encoding/json"
	"fmt"
	"math/big"
	"strings"
	"time"

	"cosmossdk.io/math"
	sdk "github.com/cosmos/cosmos-sdk/types"
	sstypes "github.com/elys-network/elys/x/stablestake/types"
)

// Engine K for C07: vault shares at the fair rate; 90 % lending cap. Real Bond/Unbond handlers
// (through the router) and the real keeper Borrow/Repay/interest accrual on a CacheContext tree,
// exact rational reference.

type c07Unit struct {
	Rate  string `json:"rate"` // "1", "1+1e-6", "1.5", "7/3", "10"
	Size  int64  `json:"size"` // shares outstanding at the root
	First int    `json:"first"`
	Depth int    `json:"depth"`
	// Hist "emptied": a NON-INITIAL vault — after the root was built the epoch snapshot was taken by the
	// real BeginBlocker, the borrower repaid everything and every lender left (supply 0): the state a
	// vault is in when it starts its second life
	Hist string `json:"hist,omitempty"`
}

type c07Op struct {
	Name string
	Kind string // bond unbond borrow accrue repay
	Who  string // A B
	Amt  int64  // -1 = all ; borrow: -1 cap-1, 0 cap, +1 cap+1
}

func c07Ops() []c07Op {
	ops := []c07Op{}
	for _, who := range []string{"A", "B"} {
		for _, a := range []int64{1, 2, 3, 10, 999, 1000000} {
			ops = append(ops, c07Op{fmt.Sprintf("%s.bond(%d)", who, a), "bond", who, a})
		}
		for _, s := range []int64{1, 2, 3, 10, 999, 1000000, -1} {
			n := fmt.Sprintf("%s.unbond(%d)", who, s)
			if s == -1 {
				n = who + ".unbond(all)"
			}
			ops = append(ops, c07Op{n, "unbond", who, s})
		}
	}
	// ROLE COLLISION: the borrower is also a lender (its own debt carries pending interest when it withdraws)
	ops = append(ops, c07Op{"X.bond(1000000)", "bond", "X", 1000000}, c07Op{"X.unbond(all)", "unbond", "X", -1}, c07Op{"X.unbond(10)", "unbond", "X", 10})
	ops = append(ops, c07Op{"borrow(cap-1)", "borrow", "", -1}, c07Op{"borrow(cap)", "borrow", "", 0}, c07Op{"borrow(cap+1)", "borrow", "", 1}, c07Op{"borrow(7)", "borrow", "", 7})
	// elapse: time passes and NOTHING books the borrower's interest (pending, un-stacked interest at
	// the next op) — accrue books it at once, the way the every-block sweep does
	ops = append(ops, c07Op{"elapse(1d)", "elapse", "", 86400})
	// governance updates the parameters with a proposal DRAFTED at the start of the sequence (a stale
	// snapshot of the params record, only InterestRateMax changed) — what a real proposal looks like after
	// a voting period; and one drafted now
	ops = append(ops, c07Op{"gov.update_params(drafted_at_start)", "gov", "", 0}, c07Op{"gov.update_params(drafted_now)", "gov", "", 1})
	ops = append(ops, c07Op{"accrue(1d)", "accrue", "", 86400}, c07Op{"repay(half)", "repay", "", 2}, c07Op{"repay(all)", "repay", "", 1})
	// the module's real BeginBlocker (epoch snapshot of interest rate and redemption rate)
	ops = append(ops, c07Op{"next_blocks(2)", "blocks", "", 2})
	// a chain upgrade: the store migration the module registers for its previous consensus version, run the
	// way the upgrade handler runs it (module manager, version map with this module one version back). The
	// migration registered in this version reads no legacy-format state, so every state reachable here is also a
	// valid state of the previous version
	ops = append(ops, c07Op{"upgrade(stablestake_prev_version)", "upgrade", "", 0})
	return ops
}

type c07Run struct {
	draft    sstypes.Params // params record as read at the start of the sequence (a proposal's draft)
	w        *World
	st       *KStats
	keys     map[string]bool
	deadline time.Time
	ops      []c07Op
	addr     map[string]sdk.AccAddress
	name     string
}

func (r *c07Run) find(f Finding, path []string) {
	for _, x := range r.st.Findings {
		if x.Sig() == f.Sig() && x.Len <= len(path) {
			return
		}
	}
	kept := r.st.Findings[:0]
	for _, x := range r.st.Findings {
		if x.Sig() != f.Sig() {
			kept = append(kept, x)
		}
	}
	r.st.Findings = append(kept, KFinding{Finding: f, Input: append([]string{r.name}, path...), Len: len(path)})
}

func (r *c07Run) deliver(ctx sdk.Context, msg sdk.Msg) (err error) {
	c, write := ctx.CacheContext()
	defer func() {
		if rec := recover(); rec != nil {
			err = fmt.Errorf("panic: %v", rec)
		}
	}()
	if _, err = r.w.App.MsgServiceRouter().Handler(msg)(c, msg); err == nil {
		write()
	}
	return err
}

type c07Obs struct {
	tv, supply, cash math.Int
	shares           map[string]math.Int
	wallet           map[string]math.Int
	debt             math.Int
}

func (r *c07Run) observe(ctx sdk.Context) c07Obs {
	k := r.w.App.StablestakeKeeper
	o := c07Obs{tv: k.GetParams(ctx).TotalValue, supply: r.w.App.BankKeeper.GetSupply(ctx, sstypes.GetShareDenom()).Amount, cash: r.w.App.BankKeeper.GetBalance(ctx, modAddr(sstypes.ModuleName), "uusdc").Amount, shares: map[string]math.Int{}, wallet: map[string]math.Int{}, debt: math.ZeroInt()}
	for n, a := range r.addr {
		cm := r.w.App.CommitmentKeeper.GetCommitments(ctx, a)
		o.shares[n] = cm.GetCommittedAmountForDenom(sstypes.GetShareDenom())
		o.wallet[n] = r.w.App.BankKeeper.GetBalance(ctx, a, "uusdc").Amount
	}
	for _, d := range k.GetAllDebts(ctx) {
		o.debt = o.debt.Add(d.Borrowed).Add(d.InterestStacked).Sub(d.InterestPaid)
	}
	return o
}

func rat(a, b math.Int) *big.Rat {
	if b.IsZero() {
		return new(big.Rat)
	}
	return new(big.Rat).SetFrac(a.BigInt(), b.BigInt())
}

func ceilRat(x *big.Rat) *big.Rat {
	q := new(big.Int).Quo(x.Num(), x.Denom())
	if new(big.Int).Mul(q, x.Denom()).Cmp(x.Num()) != 0 {
		q.Add(q, big.NewInt(1))
	}
	return new(big.Rat).SetInt(q)
}

func (r *c07Run) apply(ctx sdk.Context, op c07Op, path []string) {
	k := r.w.App.StablestakeKeeper
	pre := r.observe(ctx)
	bad := func(clause, disc, detail string) {
		r.find(Finding{Clause: clause, Culprit: op.Kind, Disc: disc, Detail: fmt.Sprintf("%s\n(before the op: TotalValue=%s shares=%s cash=%s debt=%s)", detail, pre.tv, pre.supply, pre.cash, pre.debt)}, path)
	}
	rate0 := rat(pre.tv, pre.supply)
	allow := ceilRat(rate0) // one share's worth, rounded up
	if pre.supply.IsZero() {
		allow = big.NewRat(1, 1)
	}
	borrower := r.addr["X"]
	switch op.Kind {
	case "bond":
		err := r.deliver(ctx, &sstypes.MsgBond{Creator: r.addr[op.Who].String(), Amount: I(op.Amt)})
		if err != nil {
			return
		}
		post := r.observe(ctx)
		minted := post.shares[op.Who].Sub(pre.shares[op.Who])
		r.st.Clauses["bond"]++
		// probe (discarded branch): unbond what was just minted
		if minted.IsPositive() {
			c, _ := ctx.CacheContext()
			if e := r.deliver(c, &sstypes.MsgUnbond{Creator: r.addr[op.Who].String(), Amount: minted}); e == nil {
				back := r.observe(c).wallet[op.Who].Sub(post.wallet[op.Who])
				r.st.Clauses["bond_then_unbond_roundtrip"]++
				lim := new(big.Rat).Add(new(big.Rat).SetInt(big.NewInt(op.Amt)), allow)
				if new(big.Rat).SetInt(back.BigInt()).Cmp(lim) > 0 {
					bad("roundtrip_returns_more_than_deposited", "", fmt.Sprintf("%s minted %s shares; unbonding them at once returns %s > %d + %s", op.Name, minted, back, op.Amt, allow.FloatString(0)))
				}
			}
		}
		r.others(pre, post, op, allow, bad)
	case "unbond":
		amt := I(op.Amt)
		if op.Amt == -1 {
			amt = pre.shares[op.Who]
		}
		if !amt.IsPositive() {
			return
		}
		err := r.deliver(ctx, &sstypes.MsgUnbond{Creator: r.addr[op.Who].String(), Amount: amt})
		if err != nil {
			return
		}
		post := r.observe(ctx)
		r.st.Clauses["unbond"]++
		paid := post.wallet[op.Who].Sub(pre.wallet[op.Who])
		fair := new(big.Rat).Mul(new(big.Rat).SetInt(amt.BigInt()), rate0)
		if new(big.Rat).SetInt(paid.BigInt()).Cmp(new(big.Rat).Add(fair, allow)) > 0 {
			bad("unbond_pays_more_than_fair", "", fmt.Sprintf("%s of %s shares paid %s, fair value %s (+ allowance %s)", op.Name, amt, paid, fair.FloatString(3), allow.FloatString(0)))
		}
		r.others(pre, post, op, allow, bad)
	case "borrow":
		borrowed := pre.tv.Sub(pre.cash)
		capAmt := pre.tv.MulRaw(9).QuoRaw(10).Sub(borrowed) // largest b with borrowed+b <= 0.9 TV (TV*9/10 floored)
		b := capAmt.AddRaw(op.Amt)
		if op.Amt == 7 {
			b = I(7)
		}
		if !b.IsPositive() {
			return
		}
		c, write := ctx.CacheContext()
		var err error
		func() {
			defer func() {
				if rec := recover(); rec != nil {
					err = fmt.Errorf("panic: %v", rec)
				}
			}()
			err = k.Borrow(c, borrower, sdk.NewCoin("uusdc", b))
		}()
		if err == nil {
			write()
		}
		r.st.Clauses["borrow"]++
		// exact rule: refused iff (borrowed + b) * 10 > TV * 9
		over := borrowed.Add(b).MulRaw(10).GT(pre.tv.MulRaw(9))
		if over && err == nil {
			bad("borrow_above_90pct_accepted", "", fmt.Sprintf("borrow of %s accepted: outstanding would be %s of a vault worth %s", b, borrowed.Add(b), pre.tv))
		}
		if !over && err != nil && strings.Contains(err.Error(), sstypes.ErrMaxBorrowAmount.Error()) {
			bad("borrow_within_90pct_refused_by_cap", "", fmt.Sprintf("borrow of %s refused by the cap although outstanding %s <= 90%% of %s", b, borrowed.Add(b), pre.tv))
		}
		if over {
			r.st.Clauses["borrow_over_cap"]++
		}
		post := r.observe(ctx)
		if rat(post.tv, post.supply).Cmp(rate0) < 0 {
			bad("rate_fell_on_borrow", "", fmt.Sprintf("redemption rate %s -> %s", rate0.FloatString(9), rat(post.tv, post.supply).FloatString(9)))
		}
	case "gov":
		draft := r.draft
		if op.Amt == 1 {
			draft = k.GetParams(ctx)
		}
		draft.InterestRateMax = draft.InterestRateMax.Add(Dec("0.01"))
		err := r.deliver(ctx, &sstypes.MsgUpdateParams{Authority: r.w.Gov, Params: &draft})
		if err != nil {
			return
		}
		post := r.observe(ctx)
		r.st.Clauses["gov_update_params"]++
		if !post.tv.Equal(pre.tv) {
			bad("gov_params_update_moved_vault_value", "", fmt.Sprintf("%s changed TotalValue %s -> %s", op.Name, pre.tv, post.tv))
		}
		r.others(pre, post, op, allow, bad)
	case "upgrade":
		c, write := ctx.CacheContext()
		if err := runModuleUpgrade(r.w, c, sstypes.ModuleName); err != nil {
			return
		}
		write()
		post := r.observe(ctx)
		r.st.Clauses["upgrade_migration"]++
		if !post.tv.Equal(pre.tv) || !post.supply.Equal(pre.supply) {
			bad("upgrade_moved_vault_value_or_supply", "", fmt.Sprintf("%s changed TotalValue %s -> %s, supply %s -> %s", op.Name, pre.tv, post.tv, pre.supply, post.supply))
		}
		r.others(pre, post, op, allow, bad)
	case "begin":
		func() {
			defer func() { recover() }()
			k.BeginBlocker(ctx)
		}()
		post := r.observe(ctx)
		r.st.Clauses["begin_block"]++
		if !post.tv.Equal(pre.tv) || !post.supply.Equal(pre.supply) {
			bad("begin_block_moved_vault_value_or_supply", "", fmt.Sprintf("BeginBlocker changed TotalValue %s -> %s, supply %s -> %s", pre.tv, post.tv, pre.supply, post.supply))
		}
	case "accrue":
		nctx := ctx.WithBlockTime(ctx.BlockTime().Add(time.Duration(op.Amt) * time.Second)).WithBlockHeight(ctx.BlockHeight() + 1)
		c, write := nctx.CacheContext()
		func() {
			defer func() { recover() }()
			k.BeginBlocker(c) // every height of a real chain starts with it (per-block interest record)
			if len(k.GetAllDebts(c)) > 0 {
				k.UpdateInterestAndGetDebt(c, borrower)
			}
		}()
		write()
		post := r.observe(nctx)
		r.st.Clauses["accrue"]++
		if rat(post.tv, post.supply).Cmp(rate0) < 0 {
			bad("rate_fell_on_accrual", "", fmt.Sprintf("redemption rate %s -> %s", rate0.FloatString(9), rat(post.tv, post.supply).FloatString(9)))
		}
	case "repay":
		var owed math.Int
		for _, d := range k.GetAllDebts(ctx) {
			if d.Address == borrower.String() {
				owed = d.Borrowed.Add(d.InterestStacked).Sub(d.InterestPaid)
			}
		}
		if owed.IsNil() || !owed.IsPositive() {
			return
		}
		amt := owed.QuoRaw(op.Amt)
		if !amt.IsPositive() {
			return
		}
		c, write := ctx.CacheContext()
		var err error
		func() {
			defer func() {
				if rec := recover(); rec != nil {
					err = fmt.Errorf("panic: %v", rec)
				}
			}()
			err = k.Repay(c, borrower, sdk.NewCoin("uusdc", amt))
		}()
		if err == nil {
			write()
		}
		post := r.observe(ctx)
		r.st.Clauses["repay"]++
		if rat(post.tv, post.supply).Cmp(rate0) < 0 {
			bad("rate_fell_on_repay", "", fmt.Sprintf("redemption rate %s -> %s", rate0.FloatString(9), rat(post.tv, post.supply).FloatString(9)))
		}
	}
	// C06's equation must hold at keeper level too
	post := r.observe(ctx)
	if !post.tv.Equal(post.cash.Add(post.debt)) {
		bad("vault_value_equation", "", fmt.Sprintf("TotalValue %s != cash %s + debt %s after %s", post.tv, post.cash, post.debt, op.Name))
	}
}

// others checks what the op of one lender did to everybody else's redeemable value and to the rate.
func (r *c07Run) others(pre, post c07Obs, op c07Op, allow *big.Rat, bad func(string, string, string)) {
	rate0, rate1 := rat(pre.tv, pre.supply), rat(post.tv, post.supply)
	if post.supply.IsZero() {
		return
	}
	for n := range r.addr {
		if n == op.Who {
			continue
		}
		v0 := new(big.Rat).Mul(new(big.Rat).SetInt(pre.shares[n].BigInt()), rate0)
		v1 := new(big.Rat).Mul(new(big.Rat).SetInt(post.shares[n].BigInt()), rate1)
		r.st.Clauses["other_lender_value"]++
		if new(big.Rat).Add(v1, allow).Cmp(v0) < 0 {
			bad("other_lenders_value_reduced", "by="+op.Kind, fmt.Sprintf("%s reduced what %s's %s shares redeem for: %s -> %s (allowance %s)", op.Name, n, pre.shares[n], v0.FloatString(3), v1.FloatString(3), allow.FloatString(0)))
		}
	}
	// the rate may fall by at most one share's worth spread over the supply
	slack := new(big.Rat).Quo(allow, new(big.Rat).SetInt(post.supply.BigInt()))
	r.st.Clauses["rate_monotone"]++
	if new(big.Rat).Add(rate1, slack).Cmp(rate0) < 0 {
		bad("rate_fell_beyond_rounding", "by="+op.Kind, fmt.Sprintf("%s moved the redemption rate %s -> %s (allowed fall %s)", op.Name, rate0.FloatString(12), rate1.FloatString(12), slack.FloatString(12)))
	}
}

func (r *c07Run) beginBlock(ctx sdk.Context) {
	defer func() { recover() }()
	r.w.App.StablestakeKeeper.BeginBlocker(ctx)
}

// nextBlocks: n ordinary 5-second blocks in which nothing but the module's BeginBlocker runs.
func (r *c07Run) nextBlocks(ctx sdk.Context, n int) sdk.Context {
	for i := 0; i < n; i++ {
		ctx = ctx.WithBlockTime(ctx.BlockTime().Add(5 * time.Second)).WithBlockHeight(ctx.BlockHeight() + 1)
		r.beginBlock(ctx)
	}
	return ctx
}

func (r *c07Run) key(ctx sdk.Context) string {
	o := r.observe(ctx)
	p := r.w.App.StablestakeKeeper.GetParams(ctx)
	return fmt.Sprintf("%s|%s|%s|%s|%s|%s|%d|%s|%s", o.tv, o.supply, o.cash, o.shares["A"], o.shares["B"].String()+"/"+o.shares["X"].String(), o.debt, ctx.BlockTime().Unix(), p.InterestRate, p.RedemptionRate) + fmt.Sprintf("|h%%%d=%d", maxI(int64(p.EpochLength), 1), ctx.BlockHeight()%maxI(int64(p.EpochLength), 1))
}

func (r *c07Run) dfs(ctx sdk.Context, depth, maxDepth int, path []string, first int) {
	if depth >= maxDepth {
		r.st.Sequences++
		if len(r.st.Samples) < 2 {
			r.st.Samples = append(r.st.Samples, append([]string{r.name}, path...))
		}
		return
	}
	if time.Now().After(r.deadline) {
		r.st.Incomplete = true
		return
	}
	// ISOLATION (see c14.go): the parent state must look the same through the keepers before and after
	// every DISCARDED child branch
	fp0 := r.key(ctx)
	last := -1
	iso := func() {
		if last < 0 || r.st.Polluted {
			return
		}
		r.st.Clauses["discarded_branch_isolation"]++
		if fp := r.key(ctx); fp != fp0 {
			r.find(Finding{Clause: "discarded_branch_changed_what_the_parent_sees", Culprit: r.ops[last].Kind, Disc: "", Detail: fmt.Sprintf("after exploring and DISCARDING the branch of op %s, the vault reads differently on the untouched parent state (TotalValue|supply|cash|sharesA|sharesB|debt|time|interest rate|rate snapshot):\nbefore: %s\nafter:  %s", r.ops[last].Name, fp0, fp)}, append(append([]string{r.name}, path...), "discard:"+r.ops[last].Name))
			r.st.Polluted = true
			r.st.Incomplete = true
		}
	}
	defer iso()
	for oi, op := range r.ops {
		if depth == 0 && first >= 0 && oi != first {
			continue
		}
		iso()
		if r.st.Polluted {
			return
		}
		last = oi
		np := append(path, op.Name)
		c, _ := ctx.CacheContext()
		r.st.Evaluations++
		if op.Kind == "accrue" {
			c = c.WithBlockTime(c.BlockTime().Add(time.Duration(op.Amt) * time.Second)).WithBlockHeight(c.BlockHeight() + 1)
			r.apply(ctx2(c, -op.Amt), op, np)
		} else if op.Kind == "blocks" {
			c = r.nextBlocks(c, int(op.Amt))
			r.st.Clauses["next_blocks"]++
		} else if op.Kind == "elapse" {
			c = c.WithBlockTime(c.BlockTime().Add(time.Duration(op.Amt) * time.Second)).WithBlockHeight(c.BlockHeight() + 1)
			r.beginBlock(c)
			r.st.Clauses["elapse"]++
		} else {
			r.apply(c, op, np)
		}
		k := r.key(c)
		r.keys[k] = true
		kk := fmt.Sprintf("%s#%d", k, maxDepth-depth-1)
		if r.keys[kk] {
			continue
		}
		r.keys[kk] = true
		r.dfs(c, depth+1, maxDepth, np, -1)
	}
}

// ctx2 returns c moved back by dt seconds / one block but sharing its store (accrue moves forward itself).
func ctx2(c sdk.Context, dt int64) sdk.Context {
	return c.WithBlockTime(c.BlockTime().Add(time.Duration(dt) * time.Second)).WithBlockHeight(c.BlockHeight() - 1)
}

var c07Rates = []string{"1", "1+1e-6", "1.5", "7/3", "10"}
var c07Sizes = []int64{3000, 3000003, 3000000000006}

// c07Root builds the vault state (rate, size) on a cache of the fixture: the existing lender is
// unbonded through the real handler, A bonds `size` (rate 1), a borrower borrows half of it
// through the real keeper, then interest X is stacked exactly the way UpdateInterestStacked does
// it (same amount added to the debt and to TotalValue) with X chosen to give the wanted rate.
func (r *c07Run) root(u c07Unit) (sdk.Context, error) {
	w := r.w
	base, _ := w.Ctx().CacheContext()
	base = base.WithBlockHeight(w.Height() + 1).WithBlockTime(time.Unix(w.Env.Tm+5, 0).UTC())
	k := w.App.StablestakeKeeper
	lp2 := w.A("lp2").Addr
	have := w.App.CommitmentKeeper.GetCommitments(base, lp2)
	if err := r.deliver(base, &sstypes.MsgUnbond{Creator: lp2.String(), Amount: have.GetCommittedAmountForDenom(sstypes.GetShareDenom())}); err != nil {
		return base, fmt.Errorf("root unbond: %w", err)
	}
	if err := r.deliver(base, &sstypes.MsgBond{Creator: r.addr["A"].String(), Amount: I(u.Size)}); err != nil {
		return base, fmt.Errorf("root bond: %w", err)
	}
	if err := k.Borrow(base, r.addr["X"], sdk.NewCoin("uusdc", I(u.Size/2))); err != nil {
		return base, fmt.Errorf("root borrow: %w", err)
	}
	var x math.Int
	switch u.Rate {
	case "1":
		x = math.ZeroInt()
	case "1+1e-6":
		x = I(u.Size / 1000000)
	case "1.5":
		x = I(u.Size / 2)
	case "7/3":
		x = I(u.Size / 3 * 4)
	case "10":
		x = I(u.Size * 9)
	default:
		return base, fmt.Errorf("unknown rate %s", u.Rate)
	}
	if x.IsPositive() {
		for _, d := range k.GetAllDebts(base) {
			if d.Address == r.addr["X"].String() {
				d.InterestStacked = d.InterestStacked.Add(x)
				k.SetDebt(base, d)
			}
		}
		p := k.GetParams(base)
		p.TotalValue = p.TotalValue.Add(x)
		k.SetParams(base, p)
	}
	// B holds a small stake bought at the current rate through the real handler
	if err := r.deliver(base, &sstypes.MsgBond{Creator: r.addr["B"].String(), Amount: I(u.Size / 10)}); err != nil {
		return base, fmt.Errorf("root bond B: %w", err)
	}
	if u.Hist == "epoch3_low_utilisation" {
		// a NON-default epoch length (valid), a loan of 5 % of the vault only (the interest rate then steps DOWN
		// epoch by epoch), and a few ordinary blocks behind it so that the per-block interest records exist
		for _, d := range k.GetAllDebts(base) {
			if d.Address == r.addr["X"].String() {
				owed := d.Borrowed.Add(d.InterestStacked).Sub(d.InterestPaid)
				if pay := owed.Sub(I(u.Size / 20)); pay.IsPositive() {
					if err := k.Repay(base, r.addr["X"], sdk.NewCoin("uusdc", pay)); err != nil {
						return base, fmt.Errorf("root repay: %w", err)
					}
				}
			}
		}
		p := k.GetParams(base)
		p.EpochLength = 3
		p.InterestRate = p.InterestRateMax // it then steps down epoch by epoch (utilisation 5 %)
		if err := r.deliver(base, &sstypes.MsgUpdateParams{Authority: w.Gov, Params: &p}); err != nil {
			return base, fmt.Errorf("root epoch length: %w", err)
		}
		// ordinary blocks up to the one before an epoch block: the next single block (accrue / elapse) is an epoch block
		n := 3 + int((3-(base.BlockHeight()+1)%3)%3)
		base = r.nextBlocks(base, n-1+3)
		for (base.BlockHeight()+1)%3 != 0 {
			base = r.nextBlocks(base, 1)
		}
	}
	if u.Hist == "emptied" {
		k.BeginBlocker(base)
		for _, d := range k.GetAllDebts(base) {
			if d.Address == r.addr["X"].String() {
				owed := d.Borrowed.Add(d.InterestStacked).Sub(d.InterestPaid)
				if owed.IsPositive() {
					if err := k.Repay(base, r.addr["X"], sdk.NewCoin("uusdc", owed)); err != nil {
						return base, fmt.Errorf("root repay: %w", err)
					}
				}
			}
		}
		for _, who := range []string{"A", "B"} {
			cm := w.App.CommitmentKeeper.GetCommitments(base, r.addr[who])
			have := cm.GetCommittedAmountForDenom(sstypes.GetShareDenom())
			if have.IsPositive() {
				if err := r.deliver(base, &sstypes.MsgUnbond{Creator: r.addr[who].String(), Amount: have}); err != nil {
					return base, fmt.Errorf("root unbond %s: %w", who, err)
				}
			}
		}
	}
	return base, nil
}

func c07RunUnit(w *World, u c07Unit, deadline time.Time, fixed []string) *KStats {
	r := &c07Run{w: w, st: &KStats{Clauses: map[string]int64{}}, keys: map[string]bool{}, deadline: deadline, ops: c07Ops()}
	r.name = fmt.Sprintf("vault:rate=%s,size=%d", u.Rate, u.Size)
	if u.Hist != "" {
		r.name += ",hist=" + u.Hist
	}
	r.addr = map[string]sdk.AccAddress{"A": w.A("q5").Addr, "B": w.A("q6").Addr, "X": w.A("q7").Addr}
	base, err := r.root(u)
	if err != nil {
		return &KStats{HarnessErr: err.Error()}
	}
	r.draft = w.App.StablestakeKeeper.GetParams(base)
	if fixed != nil {
		ctx := base
		for d, name := range fixed {
			discard := strings.HasPrefix(name, "discard:")
			name = strings.TrimPrefix(name, "discard:")
			for _, op := range r.ops {
				if op.Name == name && discard {
					fp0 := r.key(ctx)
					dc, _ := ctx.CacheContext()
					keep := r.st.Findings
					if op.Kind == "elapse" {
						// nothing executes
					} else if op.Kind == "accrue" {
						dc = dc.WithBlockTime(dc.BlockTime().Add(time.Duration(op.Amt) * time.Second)).WithBlockHeight(dc.BlockHeight() + 1)
						r.apply(ctx2(dc, -op.Amt), op, fixed[:d+1])
					} else {
						r.apply(dc, op, fixed[:d+1])
					}
					r.st.Findings = keep
					if fp := r.key(ctx); fp != fp0 {
						r.find(Finding{Clause: "discarded_branch_changed_what_the_parent_sees", Culprit: op.Kind, Disc: "", Detail: fmt.Sprintf("before: %s\nafter:  %s", fp0, fp)}, append([]string{r.name}, fixed[:d+1]...))
					}
					continue
				}
				if op.Name == name {
					c, _ := ctx.CacheContext()
					r.st.Evaluations++
					if op.Kind == "elapse" {
						c = c.WithBlockTime(c.BlockTime().Add(time.Duration(op.Amt) * time.Second)).WithBlockHeight(c.BlockHeight() + 1)
						r.beginBlock(c)
					} else if op.Kind == "blocks" {
						c = r.nextBlocks(c, int(op.Amt))
					} else if op.Kind == "accrue" {
						c = c.WithBlockTime(c.BlockTime().Add(time.Duration(op.Amt) * time.Second)).WithBlockHeight(c.BlockHeight() + 1)
						r.apply(ctx2(c, -op.Amt), op, fixed[:d+1])
					} else {
						r.apply(c, op, fixed[:d+1])
					}
					ctx = c
				}
			}
		}
		return r.st
	}
	r.dfs(base, 0, u.Depth, nil, u.First)
	n := 0
	for k := range r.keys {
		if !strings.Contains(k, "#") {
			n++
		}
	}
	r.st.NStates = int64(n)
	return r.st
}

func c07Parse(s string) c07Unit {
	var u c07Unit
	s = strings.TrimPrefix(s, "vault:rate=")
	if i := strings.Index(s, ",hist="); i >= 0 {
		u.Hist = s[i+len(",hist="):]
		s = s[:i]
	}
	parts := strings.Split(s, ",size=")
	if len(parts) == 2 {
		u.Rate = parts[0]
		fmt.Sscanf(parts[1], "%d", &u.Size)
	}
	return u
}

func RunC07(tier string) int {
	depth := 3
	if tier == "thorough" {
		depth = 4
	}
	var units []interface{}
	for _, rt := range c07Rates {
		for si, sz := range c07Sizes {
			if tier != "thorough" && si == 1 {
				continue // quick: the smallest and the largest vault size
			}
			for i := range c07Ops() {
				units = append(units, c07Unit{Rate: rt, Size: sz, First: i, Depth: depth})
				if rt != "1" {
					units = append(units, c07Unit{Rate: rt, Size: sz, First: i, Depth: depth, Hist: "emptied"})
				}
				if rt == "1.5" && si == 2 {
					units = append(units, c07Unit{Rate: rt, Size: sz, First: i, Depth: depth, Hist: "epoch3_low_utilisation"})
				}
			}
		}
	}
	sum := RunSharded("C07", tier, units, deadlineFor(tier))
	sum.Validated += c07ValidateABCI(sum)
	names := []string{}
	for _, o := range c07Ops() {
		names = append(names, o.Name)
	}
	bounds := map[string]interface{}{"redemption_rates": c07Rates, "vault_sizes(shares)": c07Sizes, "ops": names, "depth": depth, "histories": []string{"fresh", "emptied after interest (rates > 1)"}, "lenders": []string{"A (majority)", "B (10%)"}, "borrower": "one address driving the real keeper Borrow/Repay"}
	return KConclude("C07", tier, "K: exhaustive op sequences on the real stablestake handlers/keeper (CacheContext tree) vs exact rationals", "all sequences of length <= depth over {A/B bond a, A/B unbond s, borrow at cap-1/cap/cap+1, accrue a day of interest, repay half/all} from 28 vault states (5 redemption rates x 3 sizes, and for the 4 rates above 1 also the EMPTIED vault: epoch snapshot taken by the real BeginBlocker, loan repaid, every lender gone); every bond is additionally followed, on a discarded branch, by the immediate unbond of the minted shares",
		[]string{"vault root states are constructed by real Bond/Borrow plus interest stacked the way UpdateInterestStacked does (chosen amount) instead of waiting years of block time", "allowance of one share's worth = ceil(rate) base units"}, sum, bounds,
		func(f KFinding) bool {
			path, ok := toStrings(f.Input)
			if !ok || len(path) == 0 {
				return false
			}
			w := NewWorld(FixtureCfg{})
			defer w.Close()
			for _, x := range c07RunUnit(w, c07Parse(path[0]), time.Now().Add(time.Minute), path[1:]).Findings {
				if x.Sig() == f.Sig() {
					return true
				}
			}
			return false
		})
}

// c07ValidateABCI: bond/unbond sequences as real signed txs must give the same share/wallet
// movements as the handler on a context at the same header.
func c07ValidateABCI(sum *KSummary) int64 {
	seqs := [][]sdk.Msg{}
	w0 := NewWorld(FixtureCfg{})
	a := w0.A("q5").Addr.String()
	w0.Close()
	seqs = append(seqs, []sdk.Msg{&sstypes.MsgBond{Creator: a, Amount: I(999)}, &sstypes.MsgUnbond{Creator: a, Amount: I(10)}, &sstypes.MsgUnbond{Creator: a, Amount: I(989)}})
	seqs = append(seqs, []sdk.Msg{&sstypes.MsgBond{Creator: a, Amount: I(1)}, &sstypes.MsgBond{Creator: a, Amount: I(1000000)}, &sstypes.MsgUnbond{Creator: a, Amount: I(2000000)}})
	var ok int64
	for si, seq := range seqs {
		w := NewWorld(FixtureCfg{})
		k := w.Fork()
		r := &c07Run{w: k, addr: map[string]sdk.AccAddress{"A": k.A("q5").Addr}}
		agree := true
		for i, m := range seq {
			br := w.Exec(&BlockPlan{Dt: 5, Feed: true, Txs: []PlannedTx{{Signer: "q5", Msgs: []sdk.Msg{m}}}})
			if !br.OK() {
				agree = false
				break
			}
			c, _ := k.Ctx().CacheContext()
			c = c.WithBlockHeight(w.Height()).WithBlockTime(time.Unix(w.Env.Tm, 0).UTC())
			herr := r.deliver(c, m)
			ws := w.App.CommitmentKeeper.GetCommitments(w.RCtx(), w.A("q5").Addr)
			ks := k.App.CommitmentKeeper.GetCommitments(c, k.A("q5").Addr)
			wb := w.App.BankKeeper.GetBalance(w.RCtx(), w.A("q5").Addr, "uusdc").Amount
			kb := k.App.BankKeeper.GetBalance(c, k.A("q5").Addr, "uusdc").Amount
			if (herr == nil) != (br.Res.TxResults[1].Code == 0) || !ws.GetCommittedAmountForDenom(sstypes.GetShareDenom()).Equal(ks.GetCommittedAmountForDenom(sstypes.GetShareDenom())) || !wb.Equal(kb) {
				sum.HarnessErrs = append(sum.HarnessErrs, fmt.Sprintf("abci-binding seq %d step %d: tx (code %d) and handler (%v) disagree", si, i, br.Res.TxResults[1].Code, herr))
				agree = false
				break
			}
			// keep the twin in step: execute the same block there too
			if kb2 := k.Exec(&BlockPlan{Dt: 5, Feed: true, Txs: []PlannedTx{{Signer: "q5", Msgs: []sdk.Msg{m}}}}); !kb2.OK() || kb2.Hash != br.Hash {
				agree = false
				break
			}
		}
		if agree {
			ok++
		}
		k.Close()
		w.Close()
	}
	return ok
}

func c07Worker(tier string) KUnitFunc {
	w := NewWorld(FixtureCfg{})
	return func(raw json.RawMessage, deadline time.Time) *KStats {
		var u c07Unit
		if err := json.Unmarshal(raw, &u); err != nil {
			return &KStats{HarnessErr: err.Error()}
		}
		st := c07RunUnit(w, u, deadline, nil)
		if st.Polluted {
			w.Close()
			w = NewWorld(FixtureCfg{})
		}
		return st
	}
}

func init() {
	OtherEngines["C07"] = RunC07
	KWorkers["C07"] = c07Worker
	OtherReplays["C07"] = func(r *Replay) int {
		path, ok := toStrings(r.Extra["input"])
		if !ok || len(path) == 0 {
			return 2
		}
		w := NewWorld(FixtureCfg{})
		defer w.Close()
		hit := false
		for _, x := range c07RunUnit(w, c07Parse(path[0]), time.Now().Add(time.Minute), path[1:]).Findings {
			fmt.Printf("finding clause=%s disc=%s\n  %s\n", x.Clause, x.Disc, firstLines(x.Detail, 5))
			if x.Sig() == r.Finding.Sig() {
				hit = true
			}
		}
		if hit {
			fmt.Println("VIOLATION property=C07 replay=(reproduced)")
			return 1
		}
		fmt.Println("replay: recorded finding not reproduced on this tree")
		return 0
	}
}
