//go:build verif

package mc

import (
	"fmt"
	"os"
	"sort"
	"strconv"
	"strings"
	"time"
)

func deadlineFor(tier string) time.Duration {
	if s := os.Getenv("VERIF_DEADLINE_S"); s != "" {
		if n, err := strconv.Atoi(s); err == nil && n > 0 {
			return time.Duration(n) * time.Second
		}
	}
	if tier == "thorough" {
		return 1800 * time.Second // an internal deadline only ends the run early with exhaustive:false (exit 0); every thorough phase completes well inside it on 16 idle cores
	}
	return 90 * time.Second
}

// follow-up ops of the configuration-boundary sweep (C18)
var c18Follow = []string{"empty", "gap_2d", "nofeed", "fee_tx_uelys", "swap_in_p1_usdc_atom_D", "perp_open_long_t3_x5", "llp_open_t2_x5", "bond_lp1_D", "unbond_lp2_all", "mc_claim_lp1", "perp_bot_close_all", "llp_bot_close_all"}

var c18FollowQuick = []string{"empty", "gap_2d", "nofeed", "fee_tx_uelys", "swap_in_p1_usdc_atom_D", "perp_bot_close_all"}

var roots01 = []string{"R0", "R1"}
var roots012 = []string{"R0", "R1", "R2"}
var roots0123 = []string{"R0", "R1", "R2", "R3"}

const ruleW = "every op sequence up to the stated depth over the stated alphabet from every stated root is executed as real blocks (signed txs through FinalizeBlock/Commit); a state is distinct by (app hash, height, block time, feeder prices); the oracle is evaluated after every block"

// unionProps are the properties whose oracle is a pure STATE invariant (plus alphabet-independent
// transition clauses): in the thorough tier each of them is additionally explored over the UNION of
// all their alphabets — a seeded change was more than once caught by a neighbouring property's
// alphabet rather than by the property's own.
var unionProps = []string{"C01", "C02", "C06", "C08", "C09", "C11", "C12", "C13", "C15"}

func unionOps() []string {
	seen := map[string]bool{}
	var out []string
	for _, p := range unionProps {
		c := wConfig(p, "quick")
		for _, ph := range c.Phases {
			for _, o := range ph.Ops {
				if !seen[o] {
					seen[o] = true
					out = append(out, o)
				}
			}
		}
	}
	sort.Strings(out)
	return out
}

// WConfig maps a property id to its Engine-W configuration.
func WConfig(prop, tier string) *Config {
	cfg := wConfig(prop, tier)
	if cfg == nil {
		return cfg
	}
	// ledger / custody / supply properties: the commitment module's denom-naming user messages for
	// every denom of the chain (second routes into keeper functions meant for another denom class)
	for _, p := range []string{"C02", "C12", "C15"} {
		if p == prop {
			follow := []string{"empty", "exit_p2_half_lp1", "claim_vesting_lp1", "mc_claim_lp1"}
			cfg.Phases = append(cfg.Phases, Phase{Name: "denom-sweep-depth2", Roots: []string{"R1", "R8"}, Ops: append(denomSweepOpNames(), follow...), First: denomSweepOpNames(), Second: follow, Depth: 2, Dev: 2})
		}
	}
	// every parameter of the modules a property's state lives in, at its boundary values AND at half /
	// double its current value (a valid, non-default configuration), followed by the property's core ops:
	// code that is only reached — or only differs — after governance moved a parameter
	if pp, ok := paramPhases[prop]; ok {
		first := autoCfgAllNamesFor(pp.mods...)
		second := append([]string{"empty"}, pp.follow...)
		// a switch flipped and flipped BACK (second op = any boolean parameter of the same modules): the
		// default configuration again, reached through its opposite
		for _, n := range first {
			if strings.HasSuffix(n, "=toggle") {
				second = append(second, n)
			}
		}
		roots := pp.roots
		if roots == nil {
			roots = []string{"R1"}
		}
		cfg.Phases = append(cfg.Phases, Phase{Name: "module-params-depth2", Roots: roots, Ops: append(append([]string{}, first...), second...), First: first, Second: second, Depth: 2, Dev: 4})
	}
	// SAME-BLOCK interleavings: every ordered triple of different ops of a small per-property set as ONE
	// block (different signers; each component planned on the pre-block state), then an empty block — what
	// one transaction leaves in per-block (transient) state for the next one and for the end-blockers
	if set, ok := sameBlockSets[prop]; ok {
		tr := blockTriples(set)
		cfg.Phases = append(cfg.Phases, Phase{Name: "same-block-triples-depth2", Roots: []string{"R0", "R1"}, Ops: append(append([]string{}, tr...), "empty"), First: tr, Second: []string{"empty"}, Depth: 2, Dev: 4})
	}
	// SECOND VENUE (root R19, wide.go): a three-asset pool and a SECOND oracle / leveraged-LP / perpetual pool
	// next to the first, positions of both modules open in both, one account with a perpetual position in each
	if wideProps[prop] {
		ops := append(append(append([]string{}, wideV4Ops...), wideV3Ops...), widePriceOps...)
		ops = append(ops, "perp_bot_close_all", "llp_bot_close_all", "perp_close_full_t1", "llp_close_full_t1", "swap_in_p1_usdc_atom_L", "swap_in_p2_usdc_elys_L", "mc_claim_lp1", "fee_tx_uelys", "gap_1d", "empty")
		d := 2
		if tier == "thorough" {
			d = 3
		}
		cfg.Phases = append(cfg.Phases, Phase{Name: fmt.Sprintf("second-venue-depth%d", d), Roots: []string{"R19"}, Ops: ops, Depth: d, Dev: 3})
	}
	// VOUCHER VENUE (root R23): an asset with 18 decimals whose profile's base denom differs from its denom, in a
	// constant-product pool whose price the ops push far from the oracle's; pending spot orders in that asset
	if voucherProps[prop] {
		ops := append(append([]string{}, voucherOps...), "ts_execute_all_bot", "ts_execute_each_bot", "ts_cancel_all_by_own1", "ts_cancel_everyones_by_own2", "mc_claim_lp1", "swap_in_p1_usdc_atom_L", "gap_1d", "nofeed", "empty")
		d := 2
		if tier == "thorough" {
			d = 3
		}
		cfg.Phases = append(cfg.Phases, Phase{Name: fmt.Sprintf("voucher-venue-depth%d", d), Roots: []string{"R23"}, Ops: ops, Depth: d, Dev: 3})
	}
	// MULTI-MESSAGE TRANSACTIONS: every ordered pair of a same-signer op set as ONE signed transaction, and
	// every op followed by a message that fails (the whole transaction must roll back), then an empty block
	if set, ok := multiMsgSets[prop]; ok {
		tp := txPairs(set)
		second := []string{"empty", "gap_1d"}
		if prop == "C20" {
			second = []string{"empty", "ts_execute_each_bot", "ts_cancel_all_by_own1"}
		}
		if prop == "C10" {
			second = []string{"empty", "perp_bot_close_all", "llp_bot_close_all", "price_atom_4"}
		}
		cfg.Phases = append(cfg.Phases, Phase{Name: "multi-msg-tx-depth2", Roots: []string{"R1"}, Ops: append(append([]string{}, tp...), second...), First: tp, Second: second, Depth: 2, Dev: 4})
	}
	// ROLLBACK, THEN A WRITE OF THE SAME RECORD IN THE SAME BLOCK: a transaction whose last message fails (all of it
	// rolled back) next to a successful transaction of another account that writes the same module-wide record
	// (commitment totals, vault value), in both orders — whatever survives the rollback outside the store is
	// persisted by the second write
	if rw, ok := rollbackThenWrite[prop]; ok {
		var first []string
		for _, x := range rw[0] {
			for _, y := range rw[1] {
				first = append(first, BlockOf(TxOf(x, "FAIL"), y), BlockOf(y, TxOf(x, "FAIL")))
			}
		}
		cfg.Phases = append(cfg.Phases, Phase{Name: "rollback-then-write-depth2", Roots: []string{"R1"}, Ops: append(append([]string{}, first...), "empty", "gap_1d"), First: first, Second: []string{"empty", "gap_1d"}, Depth: 2, Dev: 4})
	}
	if tier != "thorough" {
		return devOnlyPhase(cfg)
	}
	for _, p := range unionProps {
		if p == prop {
			cfg.Phases = append(cfg.Phases, Phase{Name: "union-alphabet-depth2", Roots: []string{"R1"}, Ops: unionOps(), Depth: 2, Dev: 3})
		}
	}
	return devOnlyPhase(cfg)
}

// devOnlyPhase: development aid (VERIF_ONLY_PHASE=<name>): run one phase only; the run is then never
// reported as exhaustive.
func devOnlyPhase(cfg *Config) *Config {
	only := os.Getenv("VERIF_ONLY_PHASE")
	if only == "" {
		return cfg
	}
	var keep []Phase
	for _, ph := range cfg.Phases {
		if ph.Name == only {
			keep = append(keep, ph)
		}
	}
	cfg.Phases = keep
	cfg.Assumptions = append(cfg.Assumptions, "DEVELOPMENT RUN: only phase "+only+" (VERIF_ONLY_PHASE); not a verdict for the tier")
	return cfg
}

func wConfig(prop, tier string) *Config {
	thorough := tier == "thorough"
	cfg := &Config{Property: prop, Tier: tier, Deadline: deadlineFor(tier), Rule: ruleW, ValidateMod: 12}
	if thorough {
		cfg.ValidateMod = 60
	}
	cfg.Assumptions = []string{
		"single validator, no IBC traffic; SDK modules (bank, staking, auth) trusted",
		"amounts are those of the alphabet (one dust and one large value per op family)",
		"store rollback restores the exact pre-state (validated: traces_validated_against_impl)",
	}
	switch prop {
	case "C01":
		ops := []string{"swap_in_p1_usdc_atom_D", "swap_in_p1_usdc_atom_L", "swap_in_p1_usdc_atom_XL", "swap_in_p1_atom_usdc_L", "swap_out_p1_usdc_atom_L", "swap_out_p1_atom_usdc_D", "join_p1_single_atom_t2",
			"swap_in_p2_usdc_elys_L", "swap_in_p2_elys_usdc_D", "swap_out_p2_elys_usdc_L", "swap_in_2hop_elys_atom_L", "swap_out_2hop_atom_elys_L", "swap_batch_opposite_p1", "swap_batch_tight_twice_atom_usdc_plus_opposite_large_p1", "swap_in_samepool_p1_usdc_atom_usdc", "swap_in_samepool_p2_elys_usdc_elys", "swap_out_samepool_p2_usdc_elys_usdc", "feed_ext_liquidity_p1_deep", "feed_ext_liquidity_p1_thin", "exit_p1_single_uusdc_largest_accepted_lp1", "exit_p1_single_uatom_largest_accepted_lp1",
			"join_p1_all_t1", "join_p1_single_usdc_t1", "join_p2_all_t1", "exit_p1_10pct_lp1", "exit_p1_single_atom_lp1", "exit_p2_allbut1_lp1",
			"perp_open_long_t1", "perp_open_long_atomcoll_t1", "perp_open_short_t2", "perp_close_half_t1", "perp_close_full_t2", "perp_bot_close_all",
			"llp_open_t1_x3", "llp_close_full_t1", "create_pool_lp1", "price_atom_3", "price_atom_8", "fee_tx_uatom", "fee_tx_uelys", "gap_1d", "donate_p1_atom", "donate_p2_usdc", "empty"}
		cfg.Oracles = []*Oracle{OracleC01()}
		if thorough {
			cfg.Phases = []Phase{
				{Name: "full-depth3", Roots: roots012, Ops: ops, Depth: 3, Dev: 2},
				{Name: "conflict-depth4", Roots: roots01, Ops: []string{"swap_in_p1_usdc_atom_L", "swap_out_p1_atom_usdc_D", "swap_batch_opposite_p1", "exit_p1_single_atom_lp1", "join_p1_single_usdc_t1", "perp_open_long_t1", "perp_open_short_t2", "perp_close_half_t1", "perp_bot_close_all", "fee_tx_uatom", "gap_1d", "price_atom_3"}, Depth: 4, Dev: 2},
			}
		} else {
			cfg.Phases = []Phase{{Name: "full-depth2", Roots: roots01, Ops: ops, Depth: 2, Dev: 2}}
		}
	case "C02":
		ops := []string{"create_pool_lp1", "join_p1_all_t1", "join_p1_single_usdc_t1", "join_p1_single_atom_dust_t2", "join_p2_all_t1", "exit_p1_10pct_lp1", "exit_p1_single_atom_lp1", "exit_p1_all_t1", "exit_p2_all_t1", "exit_p1_all_lp1", "unbond_lp2_all", "join_p2_single_usdc_t1_inflated_quote", "join_p2_all_t1_quote_plus1", "join_p2_big_t1", "exit_p2_allbut1_lp1", "exit_p2_all_lp1", "exit_p1_1share_lp1",
			"llp_open_t1_x3", "llp_open_t1_x2_again", "llp_open_t2_x5", "llp_close_half_t1", "llp_close_full_t1", "llp_bot_close_all", "llp_claim_t1", "mc_claim_lp1", "price_atom_2", "price_atom_1", "price_atom_12", "swap_in_p1_usdc_atom_L", "gap_1d"}
		cfg.Oracles = []*Oracle{OracleC02()}
		if thorough {
			cfg.Phases = []Phase{
				{Name: "full-depth3", Roots: []string{"R0", "R1", "R5", "R6"}, Ops: ops, Depth: 3, Dev: 2},
				{Name: "llp-exit-depth4", Roots: roots01, Ops: []string{"join_p1_all_t1", "exit_p1_all_t1", "exit_p1_single_atom_lp1", "llp_open_t1_x3", "llp_open_t1_x2_again", "llp_open_t2_x5", "llp_close_half_t1", "llp_close_full_t1", "llp_bot_close_all", "price_atom_2"}, Depth: 4, Dev: 2},
			}
		} else {
			cfg.Phases = []Phase{{Name: "full-depth2", Roots: []string{"R0", "R1", "R5", "R6"}, Ops: ops, Depth: 2, Dev: 2}}
		}
	case "C06":
		ops := []string{"bond_lp1_L", "bond_lp1_D", "bond_t1_L", "bond_t2_L", "unbond_t1_half", "unbond_lp2_half", "unbond_lp2_D", "unbond_lp2_all", "llp_open_t1_x3", "llp_open_t1_x2_again", "llp_open_t2_x5", "llp_close_half_t1", "llp_close_full_t1", "llp_close_full_t2", "llp_bot_close_all",
			"price_atom_2", "price_atom_12", "gap_1d", "gap_30d", "swap_in_p1_usdc_atom_XL", "empty"}
		cfg.Oracles = []*Oracle{OracleC06()}
		ops = append(ops, "cfg_llp_fallback_off", "upgrade_stablestake_prev_version")
		if thorough {
			cfg.Phases = []Phase{{Name: "full-depth3", Roots: roots0123, Ops: ops, Depth: 3, Dev: 3}, {Name: "core-depth4", Roots: []string{"R1", "R3"}, Ops: []string{"bond_lp1_D", "unbond_lp2_half", "llp_open_t1_x3", "llp_open_t2_x5", "llp_close_half_t1", "llp_close_full_t1", "llp_bot_close_all", "price_atom_2", "gap_30d", "swap_in_p1_usdc_atom_XL"}, Depth: 4, Dev: 3}}
		} else {
			cfg.Phases = []Phase{{Name: "full-depth2", Roots: roots0123, Ops: ops, Depth: 2, Dev: 2}}
		}
		// every field of the vault's governance parameter message at its boundary values (the params record
		// also CARRIES state: TotalValue), followed by vault activity
		ssFollow := []string{"empty", "bond_lp1_D", "unbond_lp2_half", "llp_close_half_t1", "gap_1d"}
		cfg.Phases = append(cfg.Phases, Phase{Name: "vault-params-boundaries-depth2", Roots: []string{"R1", "R3"}, Ops: append(autoCfgOpNamesFor("stablestake.MsgUpdateParams"), ssFollow...), First: autoCfgOpNamesFor("stablestake.MsgUpdateParams"), Second: ssFollow, Depth: 2, Dev: 3})
	case "C08":
		ops := []string{"llp_open_t1_x3", "llp_open_t1_x2_again", "llp_open_t2_x5", "llp_open_t3_x9", "llp_open_t3_dust", "llp_close_half_t1", "llp_close_full_t1", "llp_close_1share_t1", "llp_close_allbut1_t1", "llp_close_full_t2", "llp_update_sl_t1", "llp_bot_close_all", "llp_bot_stoploss_all",
			"unbond_lp2_all", "price_atom_2", "price_atom_1", "price_atom_12", "swap_in_p1_usdc_atom_XL", "join_p1_all_t1", "exit_p1_10pct_lp1", "gap_30d", "cfg_llp_fallback_off", "empty"}
		cfg.Oracles = []*Oracle{OracleC08()}
		rootsLlp := []string{"R0", "R1", "R3", "R5", "R14"}
		if thorough {
			cfg.Phases = []Phase{{Name: "full-depth3", Roots: rootsLlp, Ops: ops, Depth: 3, Dev: 3}, {Name: "positions-depth4", Roots: []string{"R1", "R5"}, Ops: []string{"llp_open_t1_x3", "llp_open_t1_x2_again", "llp_open_t2_x5", "llp_open_t3_x9", "llp_close_half_t1", "llp_close_full_t1", "llp_close_allbut1_t1", "llp_bot_close_all", "unbond_lp2_all", "price_atom_2", "price_atom_1", "gap_30d", "empty"}, Depth: 4, Dev: 3}}
		} else {
			cfg.Phases = []Phase{{Name: "full-depth2", Roots: rootsLlp, Ops: ops, Depth: 2, Dev: 2}}
		}
	case "C09":
		ops := []string{"perp_open_long_t1", "perp_open_long_atomcoll_t1", "perp_open_long_t3_x5", "perp_open_short_t2", "perp_open_short_t2_dust", "perp_topup_t1", "perp_close_half_t1", "perp_close_full_t1", "perp_close_full_t2", "perp_close_half_t2", "perp_update_tp_t1", "perp_update_sl_t1", "perp_bot_close_all",
			"price_atom_4", "price_atom_3", "price_atom_6.5", "price_atom_8", "gap_1d", "gap_30d", "swap_in_p1_usdc_atom_L", "join_p1_all_t1", "exit_p1_10pct_lp1",
			"perp_open_long_t3_huge", "exit_p1_90pct_lp1", "perp_update_sl_t2", "perp_bot_takeprofit_all_at_8", "perp_bot_takeprofit_all_at_2", "perp_bot_stoploss_all_at_4.4", "perp_bot_stoploss_all_at_5.6", "perp_bot_close_all_at_4.4", "perp_bot_close_all_at_3", "perp_bot_close_all_at_5.6", "perp_bot_close_all_at_8", "perp_bot_close_all_at_2"}
		cfg.Oracles = []*Oracle{OracleC09()}
		if thorough {
			cfg.Phases = []Phase{{Name: "full-depth3", Roots: roots01, Ops: ops, Depth: 3, Dev: 3}, {Name: "settlement-depth4", Roots: roots01, Ops: []string{"perp_open_long_t1", "perp_open_short_t2", "perp_open_long_t3_x5", "perp_topup_t1", "perp_close_half_t1", "perp_close_full_t2", "perp_bot_close_all", "price_atom_3", "price_atom_8", "gap_30d", "swap_in_p1_usdc_atom_L", "exit_p1_10pct_lp1"}, Depth: 4, Dev: 3}}
		} else {
			cfg.Phases = []Phase{{Name: "full-depth2", Roots: roots01, Ops: ops, Depth: 2, Dev: 2}}
		}
	case "C11":
		ops := []string{"swap_in_p1_usdc_atom_L", "swap_out_p1_atom_usdc_D", "join_p1_all_t1", "exit_p1_10pct_lp1", "perp_open_long_t1", "perp_open_long_atomcoll_t1", "perp_open_short_t2", "perp_topup_t1", "perp_close_half_t1", "perp_close_full_t1", "perp_close_full_t2", "perp_update_tp_t1", "perp_bot_close_all",
			"gap_1d", "price_atom_4", "price_atom_8", "llp_open_t1_x3", "empty", "perp_open_long_t3_small", "perp_open_long_t3_lowlev", "perp_update_sl_t1", "perp_update_sl_t2", "perp_bot_takeprofit_all_at_8", "perp_bot_takeprofit_all_at_2", "perp_bot_stoploss_all_at_4.4", "perp_bot_stoploss_all_at_5.6", "perp_bot_close_all_at_4.4", "perp_bot_close_all_at_3", "perp_bot_close_all_at_5.6", "perp_bot_close_all_at_8", "perp_bot_close_all_at_2", "perp_bot_liquidate_t1_only", "perp_bot_liquidate_t2_only", "perp_bot_liquidate_t3_only"}
		cfg.Oracles = []*Oracle{OracleC11()}
		if thorough {
			cfg.Phases = []Phase{{Name: "full-depth3", Roots: roots01, Ops: ops, Depth: 3, Dev: 3}, {Name: "hooks-depth4", Roots: []string{"R0"}, Ops: []string{"swap_in_p1_usdc_atom_L", "join_p1_all_t1", "exit_p1_10pct_lp1", "perp_open_long_t1", "perp_open_short_t2", "perp_topup_t1", "perp_close_half_t1", "perp_close_full_t2", "perp_bot_close_all", "gap_1d", "price_atom_8", "empty"}, Depth: 4, Dev: 3}}
		} else {
			cfg.Phases = []Phase{{Name: "full-depth2", Roots: roots01, Ops: ops, Depth: 2, Dev: 2}}
		}
		// the accounted pool follows EVERY exit of the pool, also the forced closes of leveraged-LP
		// positions (the only exits with the liquidation flag), from the roots where such a close collides
		// with a guard of the after-exit hook chain (R5: the position holds most of the pool) or several
		// happen in one sweep (R7, R14)
		llpForced := []string{"price_atom_1", "price_atom_2", "price_atom_3", "empty", "gap_61m", "llp_bot_close_all", "llp_bot_close_all_at_1", "llp_bot_close_all_at_2", "llp_bot_stoploss_all_at_4", "llp_close_full_t1", "perp_open_long_t3_huge", "perp_open_short_t2", "exit_p1_90pct_lp1"}
		cfg.Phases = append(cfg.Phases, Phase{Name: "llp-forced-closes-depth2", Roots: []string{"R1", "R5", "R7", "R14"}, Ops: llpForced, Depth: 2, Dev: 2})
		// a pool FAR OFF its target weights (root R2): single-sided joins and exits in both directions meet the
		// bonus / weight-breaking branches, with whatever the rebalance treasury happens to hold
		cfg.Phases = append(cfg.Phases, Phase{Name: "off-target-pool-depth2", Roots: []string{"R2"}, Ops: []string{"join_p1_single_usdc_t1", "join_p1_single_atom_t2", "exit_p1_single_atom_lp1", "exit_p1_10pct_lp1", "join_p1_all_t1", "swap_in_p1_usdc_atom_L", "swap_in_p1_atom_usdc_L", "perp_open_long_t3_x5", "empty"}, Depth: 2, Dev: 2})
	case "C12":
		ops := []string{"bond_lp1_L", "unbond_lp2_half", "unbond_lp1_all", "join_p1_all_t1", "exit_p1_all_t1", "exit_p1_10pct_lp1", "join_p2_all_t1", "exit_p2_all_t1", "llp_open_t1_x3", "llp_close_full_t1", "llp_bot_close_all", "mc_claim_lp1", "commit_eden_lp1", "commit_edenb_lp1", "uncommit_eden_lp1",
			"vest_eden_lp1", "cancel_vest_lp1", "claim_vesting_lp1", "stake_elys_lp1", "unstake_elys_lp1", "gap_59m", "gap_61m", "price_atom_2", "empty", "exit_p2_all_lp1", "unbond_lp2_all", "estaking_withdraw_lp1", "unstake_elys_lp1_all", "uncommit_eden_lp1_all", "uncommit_edenb_lp1_all", "stake_eden_lp1", "unstake_eden_lp1", "unstake_elys_lp1_60pct", "unstake_elys_lp1_90pct", "llp_open_t2_x5", "llp_close_full_t2_at_1", "llp_close_full_t1_at_1", "llp_bot_close_all_at_1", "commit_ueden_lp1_more_than_claimed", "commit_uedenb_lp1_more_than_claimed"}
		cfg.Oracles = []*Oracle{OracleC12()}
		roots016 := []string{"R0", "R1", "R6", "R8"}
		if thorough {
			cfg.Phases = []Phase{{Name: "full-depth3", Roots: roots016, Ops: ops, Depth: 3, Dev: 3}, {Name: "commit-depth4", Roots: []string{"R1"}, Ops: []string{"mc_claim_lp1", "commit_eden_lp1", "commit_edenb_lp1", "uncommit_eden_lp1", "vest_eden_lp1", "cancel_vest_lp1", "stake_elys_lp1", "unstake_elys_lp1", "exit_p1_10pct_lp1", "unbond_lp2_half", "gap_61m"}, Depth: 4, Dev: 3}}
		} else {
			cfg.Phases = []Phase{{Name: "full-depth2", Roots: roots016, Ops: ops, Depth: 2, Dev: 2}}
		}
	case "C13":
		ops := []string{"swap_in_p1_usdc_atom_L", "swap_in_p2_usdc_elys_L", "fee_tx_uusdc", "fee_tx_uatom", "fee_tx_uelys", "perp_open_long_t1", "perp_close_full_t1", "gap_1d", "ext_incentive_lp1", "ext_incentive_now_lp1", "join_p1_all_t1", "exit_p1_all_t1", "exit_p1_10pct_lp1", "join_p2_all_lp2", "bond_lp1_L", "unbond_lp2_half",
			"llp_open_t1_x3", "llp_close_full_t1", "mc_claim_lp1", "mc_claim_lp2", "mc_claim_t1", "empty", "nofeed", "join_p2_big_t1", "join_p2_big_t1_nofeed", "mc_claim_lp1_repeated_ids", "mc_claim_lp1_pool2_twice", "mc_claim_lp1_empty_list", "mc_claim_lp1_unknown_pool"}
		cfg.Oracles = []*Oracle{OracleC13()}
		if thorough {
			cfg.Phases = []Phase{{Name: "full-depth3", Roots: []string{"R0", "R1", "R4", "R9"}, Ops: ops, Depth: 3, Dev: 3}}
			cfg.NodeHook = C13Drain(2) // drain in all 24 claim orders below every node of depth <= 2
		} else {
			cfg.Phases = []Phase{{Name: "full-depth2", Roots: []string{"R0", "R1", "R4", "R9"}, Ops: ops, Depth: 2, Dev: 2}}
			cfg.NodeHook = C13Drain(1)
		}
		// a reward denom delisted and relisted by governance WHILE an incentive paying it runs (root R18), with
		// joins, exits and claims in between
		{
			dl := []string{"cfg_mc_delist_uatom", "cfg_mc_relist_uatom", "join_p2_big_t1", "exit_p2_half_lp1", "mc_claim_t1", "mc_claim_lp1", "empty"}
			d := 4
			if thorough {
				d = 5
			}
			cfg.Phases = append(cfg.Phases, Phase{Name: fmt.Sprintf("delisting-depth%d", d), Roots: []string{"R18"}, Ops: dl, First: []string{"cfg_mc_delist_uatom", "join_p2_big_t1"}, Depth: d, Dev: 4})
		}
	case "C15":
		ops := []string{"swap_in_p1_usdc_atom_L", "swap_out_p2_elys_usdc_L", "swap_fail_minout_p1", "join_p1_all_t1", "join_p2_all_t1", "exit_p1_10pct_lp1", "exit_p2_half_lp1", "exit_p2_all_t1", "create_pool_lp1",
			"perp_open_long_t1", "perp_open_short_t2", "perp_close_full_t1", "perp_bot_close_all", "llp_open_t1_x3", "llp_close_full_t1", "llp_bot_close_all", "bond_lp1_L", "unbond_lp2_half", "unbond_lp2_all",
			"mc_claim_lp1", "commit_eden_lp1", "vest_eden_lp1", "cancel_vest_lp1", "claim_vesting_lp1", "vest_now_lp1", "stake_elys_lp1", "unstake_elys_lp1", "estaking_withdraw_lp1", "send_elys_to_burn_addr",
			"fee_tx_uatom", "fee_tx_uelys", "price_atom_2", "price_atom_1", "price_atom_12", "gap_1h", "gap_1d", "gap_30d", "nofeed", "empty", "vest_liquid_uatom_lp1", "cfg_vestinfo_uatom", "estaking_withdraw_reward_lp1", "estaking_withdraw_elys_rewards_lp1", "stake_eden_lp1", "unstake_eden_lp1", "join_p2_single_usdc_t1_inflated_quote", "join_p2_all_t1_quote_plus1"}
		cfg.Oracles = []*Oracle{OracleC15Supply(), OracleC15()}
		// cleanup paths of the commitment record: from the root where t1's record holds nothing but claimed Eden
		defer func() {
			d := 2
			if thorough {
				d = 3
			}
			cfg.Phases = append(cfg.Phases, Phase{Name: fmt.Sprintf("record-cleanup-depth%d", d), Roots: []string{"R15"}, Ops: []string{"vest_now_all_t1", "vest_now_all_lp1", "mc_claim_t1", "join_p1_all_t1", "exit_p1_all_t1", "gap_1d", "empty"}, Depth: d, Dev: 2})
		}()
		// a CHAIN UPGRADE (the amm module's registered balance-matching migration, run the way the upgrade handler
		// runs it) on pools whose accounts also hold a token that is not a pool asset
		defer func() {
			cfg.Phases = append(cfg.Phases, Phase{Name: "upgrade-depth3", Roots: []string{"R1"}, Ops: []string{"donate_p2_atom_foreign", "upgrade_amm_prev_version", "swap_in_p2_usdc_elys_L", "exit_p2_half_lp1", "join_p1_all_t1", "empty"}, Depth: 3, Dev: 4})
		}()
		if thorough {
			cfg.Phases = []Phase{{Name: "full-depth3", Roots: []string{"R0", "R1", "R2", "R5", "R10"}, Ops: ops, Depth: 3, Dev: 3}}
		} else {
			// the special roots get the ops their state is about (R5: forced exits of a dominant position;
			// R10: two kinds of vesting on one account), the general roots the whole alphabet
			cfg.Phases = []Phase{{Name: "full-depth2", Roots: []string{"R0", "R1"}, Ops: ops, Depth: 2, Dev: 2},
				{Name: "special-roots-depth2", Roots: []string{"R5", "R10"}, Ops: []string{"exit_p1_10pct_lp1", "exit_p2_half_lp1", "join_p1_all_t1", "llp_open_t1_x3", "llp_close_full_t1", "llp_bot_close_all", "perp_bot_close_all", "unbond_lp2_all", "bond_lp1_L",
					"mc_claim_lp1", "vest_eden_lp1", "cancel_vest_lp1", "claim_vesting_lp1", "vest_now_lp1", "vest_liquid_uatom_lp1", "unstake_elys_lp1", "price_atom_2", "price_atom_1", "gap_1d", "gap_30d", "empty"}, Depth: 2, Dev: 2}}
		}
	case "C18":
		ops := []string{"swap_in_p1_usdc_atom_D", "swap_in_p1_usdc_atom_XL", "swap_out_p1_atom_usdc_D", "swap_in_p2_elys_usdc_D", "swap_in_p2_usdc_elys_L", "swap_fail_minout_p1", "join_p1_single_atom_dust_t2", "join_p2_all_t1", "exit_p2_allbut1_lp1", "exit_p1_single_atom_lp1",
			"perp_open_long_t1_dust", "perp_open_short_t2_dust", "perp_open_long_t3_x5", "perp_close_full_t1", "perp_bot_close_all", "llp_open_t3_dust", "llp_open_t2_x5", "llp_close_allbut1_t1", "llp_bot_close_all", "unbond_lp2_all", "bond_lp1_D",
			"fee_tx_uusdc", "fee_tx_uatom", "fee_tx_uelys", "fee_tx_uatom_nofeed", "fee_tx_uelys_nofeed", "mc_claim_lp1", "claim_vesting_lp1", "vest_eden_lp1", "unstake_elys_lp1", "send_elys_to_burn_addr",
			"price_atom_2", "price_atom_1", "price_atom_12", "nofeed", "nofeed_2d", "gap_1h", "gap_2d", "gap_8d", "gap_40d", "empty",
			"ext_incentive_now_lp1", "ext_incentives_two_new_denoms_lp1", "swap_batch_opposite_p1", "swap_batch_tight_twice_usdc_atom_plus_opposite_small_p1", "swap_batch_tight_twice_usdc_atom_plus_opposite_large_p1", "swap_batch_tight_twice_atom_usdc_plus_opposite_small_p1", "swap_batch_tight_twice_atom_usdc_plus_opposite_large_p1", "llp_open_t1_x3_stoploss", "perp_open_long_t1_stoploss",
			"estaking_withdraw_reward_lp1", "stake_eden_lp1", "tier_set_portfolio_t1", "feed_ext_liquidity_p1_deep", "feed_ext_liquidity_p1_thin", "feed_ext_liquidity_p1_depth1", "exit_p1_single_uusdc_largest_accepted_lp1", "join_p1_duplicate_denom_t1", "join_p1_unsorted_t1", "join_p2_duplicate_pair_t1"}
		cfg.Oracles = []*Oracle{OracleC18()}
		cfg.BlockFailure = true
		cfgOps := []string{}
		for _, v := range AllVariants {
			if v != "" {
				cfgOps = append(cfgOps, "cfg_"+v)
			}
		}
		all := append(append([]string{}, cfgOps...), ops...)
		if thorough {
			cfg.Phases = []Phase{{Name: "configs+ops-depth3", Roots: roots01, Ops: all, Depth: 3, Dev: 3},
				{Name: "config-boundaries-depth3", Roots: []string{"R1"}, Ops: append(autoCfgOpNames(), c18Follow...), First: autoCfgOpNames(), Second: c18Follow, Depth: 3, Dev: 3},
				{Name: "edenb-burn-depth3", Roots: []string{"R8"}, Ops: []string{"unstake_elys_lp1", "unstake_elys_lp1_60pct", "unstake_elys_lp1_90pct", "unstake_elys_lp1_995permille", "unstake_elys_lp1_all", "uncommit_eden_lp1", "uncommit_eden_lp1_all", "uncommit_edenb_lp1_all", "commit_edenb_lp1", "estaking_withdraw_lp1", "stake_elys_lp1", "gap_2d", "nofeed", "empty"}, Depth: 3, Dev: 3},
				{Name: "epoch-hooks-depth3", Roots: []string{"R11"}, Ops: []string{"gap_1h", "gap_2d", "gap_8d", "gap_40d", "nofeed", "nofeed_2d", "empty", "mc_claim_lp1", "claim_vesting_lp1", "vest_eden_lp1", "fee_tx_uelys", "unstake_elys_lp1", "cfg_es_provider0", "cfg_vest_blocks0"}, Depth: 3, Dev: 3}}
		} else {
			cfg.Phases = []Phase{{Name: "configs+ops-depth2", Roots: []string{"R1"}, Ops: all, Depth: 2, Dev: 3},
				{Name: "fresh-chain-configs-depth2", Roots: []string{"R0"}, Ops: all, First: cfgOps, Depth: 2, Dev: 3},
				{Name: "config-boundaries-depth2", Roots: []string{"R1"}, Ops: append(autoCfgOpNames(), c18FollowQuick...), First: autoCfgOpNames(), Second: c18FollowQuick, Depth: 2, Dev: 3},
				{Name: "edenb-burn-depth2", Roots: []string{"R8"}, Ops: []string{"unstake_elys_lp1", "unstake_elys_lp1_60pct", "unstake_elys_lp1_90pct", "unstake_elys_lp1_995permille", "unstake_elys_lp1_all", "uncommit_eden_lp1", "uncommit_eden_lp1_all", "uncommit_edenb_lp1_all", "commit_edenb_lp1", "estaking_withdraw_lp1", "stake_elys_lp1", "gap_2d", "nofeed", "empty"}, Depth: 2, Dev: 3},
				{Name: "epoch-hooks-depth2", Roots: []string{"R11"}, Ops: []string{"gap_1h", "gap_2d", "gap_8d", "gap_40d", "nofeed", "nofeed_2d", "empty", "mc_claim_lp1", "claim_vesting_lp1", "vest_eden_lp1", "fee_tx_uelys", "unstake_elys_lp1", "cfg_es_provider0", "cfg_vest_blocks0"}, Depth: 2, Dev: 3}}
		}
		// reward distribution among SEVERAL receivers (the validator and the virtual Eden / Eden Boost
		// validators of root R8) under every boundary value of the SDK distribution parameters, with ops that
		// change the receivers' shares
		{
			first := autoCfgOpNamesFor("cosmos.distribution")
			second := []string{"empty", "fee_tx_uusdc", "stake_elys_lp1", "unstake_elys_lp1", "unstake_elys_lp1_60pct", "commit_edenb_lp1", "uncommit_eden_lp1", "gap_1h"}
			d := 2
			if thorough {
				d = 3
			}
			cfg.Phases = append(cfg.Phases, Phase{Name: fmt.Sprintf("distribution-params-depth%d", d), Roots: []string{"R8"}, Ops: append(append([]string{}, first...), second...), First: first, Second: second, Depth: d, Dev: 3})
		}
		// ALIASED ASSETS (root R22): lookups by denom and by base denom disagree about the decimals of every asset;
		// outages, fee conversions, claims, position and order activity from there
		{
			al := []string{"nofeed", "nofeed_2d", "empty", "gap_2d", "fee_tx_uelys", "fee_tx_uatom", "fee_tx_uelys_nofeed", "swap_in_p2_usdc_elys_L", "swap_in_p1_usdc_atom_D", "mc_claim_lp1", "perp_open_long_t3_x5", "perp_bot_close_all", "llp_bot_close_all", "join_p2_all_t1", "tier_set_portfolio_t1"}
			d := 2
			if thorough {
				d = 3
			}
			cfg.Phases = append(cfg.Phases, Phase{Name: fmt.Sprintf("aliased-assets-depth%d", d), Roots: []string{"R22"}, Ops: al, Depth: d, Dev: 4})
		}
		// ORACLE OUTAGE in progress (root R9): user activity in blocks WITHOUT a price feed (composites with
		// nofeed), also after governance switched Eden rewards on for the constant-product pool
		{
			out := []string{BlockOf("nofeed", "cfg_mc_eden_rewards_p2_on"), BlockOf("nofeed", "swap_in_p2_usdc_elys_L"), BlockOf("nofeed", "swap_in_p2_elys_usdc_D"), BlockOf("nofeed", "swap_in_p1_usdc_atom_D"), BlockOf("nofeed", "join_p2_all_t1"),
				BlockOf("nofeed", "exit_p2_half_lp1"), BlockOf("nofeed", "mc_claim_lp1"), BlockOf("nofeed", "perp_open_long_t3_x5"), "nofeed", "empty"}
			d := 2
			if thorough {
				d = 3
			}
			cfg.Phases = append(cfg.Phases, Phase{Name: fmt.Sprintf("outage-activity-depth%d", d), Roots: []string{"R9"}, Ops: out, Depth: d, Dev: 4})
		}
	case "C20":
		ops := []string{"ts_spot_limitbuy_met_own1", "ts_spot_limitbuy_unmet_own1", "ts_spot_limitsell_met_own1", "ts_spot_stoploss_unmet_own1", "ts_spot_limitbuy_met_own2", "ts_marketbuy_own2",
			"ts_perp_long_met_own1", "ts_perp_long_unmet_own1", "ts_perp_short_unmet_own1", "ts_perp_long_met_huge_own1", "ts_perp_long_met_own2",
			"ts_update_spot_first_by_own1", "ts_cancel_spot_first_by_own1", "ts_update_perp_first_by_own1", "ts_cancel_perp_first_by_own1", "ts_cancel_all_by_own1",
			"ts_update_spot_first_by_own2", "ts_cancel_spot_first_by_bot", "ts_update_perp_first_by_bot", "ts_cancel_perp_first_by_own2", "ts_cancel_all_by_own2", "ts_cancel_everyones_by_own2",
			"ts_execute_all_bot", "ts_execute_each_bot", "ts_execute_all_plus_missing_bot", "ts_execute_all_twice", "ts_execute_all_bot_at_3", "ts_execute_all_bot_at_8", "ts_spot_limitsell_unmet_own1", "cfg_perp_maxpos0", "price_atom_3", "price_atom_8", "nofeed", "empty"}
		cfg.Oracles = []*Oracle{OracleC20()}
		if thorough {
			cfg.Phases = []Phase{{Name: "full-depth3", Roots: []string{"R0", "R1", "R12"}, Ops: ops, Depth: 3, Dev: 3},
				{Name: "core-depth4", Roots: []string{"R0"}, Ops: []string{"ts_spot_limitbuy_met_own1", "ts_spot_stoploss_unmet_own1", "ts_perp_long_met_own1", "ts_perp_long_unmet_own1", "ts_perp_long_met_huge_own1", "ts_perp_short_unmet_own1", "ts_perp_long_met_own2", "ts_update_perp_first_by_own1", "ts_cancel_all_by_own1", "ts_cancel_spot_first_by_bot", "ts_execute_all_bot", "ts_execute_all_twice", "cfg_perp_maxpos0", "price_atom_3"}, Depth: 4, Dev: 3}}
		} else {
			cfg.Phases = []Phase{{Name: "full-depth2", Roots: []string{"R0", "R1", "R12"}, Ops: ops, Depth: 2, Dev: 2},
				{Name: "core-depth3", Roots: []string{"R0"}, Ops: []string{"ts_spot_limitbuy_met_own1", "ts_spot_stoploss_unmet_own1", "ts_perp_long_met_own1", "ts_perp_long_met_huge_own1", "ts_perp_short_unmet_own1", "ts_perp_long_met_own2", "ts_spot_limitbuy_met_own2", "ts_cancel_everyones_by_own2", "ts_cancel_all_by_own1", "ts_execute_all_bot", "cfg_perp_maxpos0", "price_atom_3"}, Depth: 3, Dev: 3}}
		}
	case "C10":
		ops := []string{"llp_open_t1_x3_stoploss", "llp_open_t2_x5", "llp_open_t3_x9", "llp_open_t1_x2_again", "llp_topup_lev1_t1", "llp_topup_lev1_t1_at_2", "llp_topup_lev1_t1_at_1", "perp_open_long_t1_stoploss", "perp_open_short_t2", "perp_open_long_t3_x5", "perp_open_long_t3_max", "perp_topup_t1", "perp_update_sl_t1",
			"price_atom_4", "price_atom_3", "price_atom_2", "price_atom_6.5", "price_atom_8", "price_atom_12", "gap_1d", "gap_30d",
			"llp_bot_close_all", "llp_bot_stoploss_all", "llp_bot_stoploss_all_at_4", "llp_bot_close_all_at_2", "llp_bot_close_all_at_1", "llp_other_trader_closes_all", "perp_bot_liquidate_all", "perp_bot_stoploss_all", "perp_bot_takeprofit_all", "perp_bot_close_all", "perp_other_trader_closes_all_twice",
			"perp_close_half_t1", "llp_close_half_t1", "unbond_lp2_all", "empty"}
		cfg.Oracles = []*Oracle{OracleC10()}
		core := []string{"llp_open_t1_x3_stoploss", "llp_open_t3_x9", "perp_open_long_t1_stoploss", "perp_open_short_t2", "perp_open_long_t3_max", "price_atom_4", "price_atom_2", "price_atom_8", "gap_30d", "llp_bot_close_all", "llp_bot_stoploss_all", "perp_bot_close_all", "perp_other_trader_closes_all_twice", "empty"}
		if thorough {
			cfg.Phases = []Phase{{Name: "full-depth3", Roots: []string{"R0", "R1", "R7"}, Ops: ops, Depth: 3, Dev: 3}, {Name: "core-depth4", Roots: []string{"R1"}, Ops: core, Depth: 4, Dev: 4}}
		} else {
			cfg.Phases = []Phase{{Name: "full-depth2", Roots: []string{"R0", "R1", "R7"}, Ops: ops, Depth: 2, Dev: 2}, {Name: "core-depth3", Roots: []string{"R1"}, Ops: []string{"llp_open_t3_x9", "perp_open_long_t3_max", "price_atom_4", "price_atom_2", "price_atom_8", "gap_30d", "llp_bot_close_all", "llp_bot_stoploss_all", "perp_bot_close_all", "perp_other_trader_closes_all_twice"}, Depth: 3, Dev: 3}}
		}
		// a parameter change of either position module EXECUTED AND DISCARDED (failed multi-message proposal,
		// simulation), then opens at every leverage and the third-party close requests: gates must read the
		// committed parameters
		{
			first := rolledBack(autoCfgAllNamesFor("/elys.leveragelp.MsgUpdateParams", "/elys.perpetual.MsgUpdateParams"))
			second := []string{"llp_open_t3_x9", "llp_open_t2_x5", "perp_open_long_t3_max", "perp_open_long_t3_x5", "llp_bot_close_all", "perp_bot_close_all", "empty"}
			cfg.Phases = append(cfg.Phases, Phase{Name: "rolled-back-params-depth2", Roots: []string{"R1", "R21"}, Ops: append(append([]string{}, first...), second...), First: first, Second: second, Depth: 2, Dev: 4})
		}
		// THIN POOL (root R16): swap estimates of the size of a position fail, so health estimators and forced
		// closes run into errors — every kind of third-party request and the chain's own sweep from there
		cfg.Phases = append(cfg.Phases, Phase{Name: "thin-pool-depth2", Roots: []string{"R16"}, Ops: []string{"perp_bot_close_all", "perp_bot_liquidate_t3_only", "perp_bot_liquidate_t1_only", "perp_other_trader_closes_all_twice", "llp_bot_close_all", "llp_bot_stoploss_all", "empty", "gap_1d", "price_atom_4", "price_atom_8", "perp_close_full_t1", "swap_in_p1_usdc_atom_L"}, Depth: 2, Dev: 2})
	default:
		return nil
	}
	// liquidation at the edge (the weakest long / short just under the safety factor, still above 1), all
	// positions named in one Liquidate list in either order: every property that sees perpetual positions
	for _, p := range []string{"C01", "C09", "C10", "C11"} {
		if p == prop {
			for i := range cfg.Phases {
				if strings.HasPrefix(cfg.Phases[i].Name, "full-") {
					cfg.Phases[i].Ops = append(append([]string{}, cfg.Phases[i].Ops...), perpEdgeOps...)
				}
			}
		}
	}
	// the SECOND ROUTE to an open perpetual position: a tradeshield limit-open order executed by a third party
	// (tradeshield holds its own reference to the perpetual keeper) — every property that sees perpetual positions
	for _, p := range []string{"C01", "C09", "C11"} {
		if p == prop {
			for i := range cfg.Phases {
				if strings.HasPrefix(cfg.Phases[i].Name, "full-") {
					cfg.Phases[i].Ops = append(append([]string{}, cfg.Phases[i].Ops...), "ts_perp_long_met_own1", "ts_perp_short_unmet_own1", "ts_execute_all_bot", "ts_execute_all_bot_at_8")
				}
			}
		}
	}
	return cfg
}

var wideProps = map[string]bool{"C01": true, "C02": true, "C06": true, "C08": true, "C09": true, "C10": true, "C11": true, "C12": true, "C13": true, "C15": true, "C18": true}

var voucherProps = map[string]bool{"C01": true, "C02": true, "C13": true, "C15": true, "C18": true, "C20": true}

var rollbackThenWrite = map[string][2][]string{
	"C12": {{"commit_eden_lp1", "vest_eden_lp1", "stake_elys_lp1", "uncommit_eden_lp1"}, {"bond_lp2_D", "join_p2_all_t1", "unbond_lp2_half"}},
	"C06": {{"bond_t1_L", "llp_open_t1_x2_again", "llp_close_half_t1"}, {"bond_lp2_D", "unbond_lp2_half", "llp_open_t2_x5"}},
	"C02": {{"join_p1_all_t1", "llp_open_t1_x2_again", "llp_close_half_t1"}, {"join_p2_all_lp2", "exit_p1_10pct_lp1", "llp_open_t2_x5"}},
}

var perpEdgeOps = []string{"perp_bot_liquidate_all_fwd_at_edge_long", "perp_bot_liquidate_all_rev_at_edge_long", "perp_bot_liquidate_all_fwd_at_edge_short", "perp_bot_liquidate_all_rev_at_edge_short"}

type paramPhase struct {
	mods   []string // substrings of the governance message type URLs
	follow []string // the property's core ops
	roots  []string // default: R1
}

var paramPhases = map[string]paramPhase{
	"C01": {[]string{"/elys.amm.", "/elys.perpetual.MsgUpdateParams"}, []string{"swap_in_p1_usdc_atom_L", "swap_out_p1_atom_usdc_D", "swap_in_p1_atom_usdc_L", "join_p1_single_usdc_t1", "exit_p1_single_atom_lp1", "perp_open_long_t3_x5", "perp_close_full_t1"}, nil},
	"C02": {[]string{"/elys.amm.", "/elys.leveragelp."}, []string{"join_p1_all_t1", "exit_p1_10pct_lp1", "llp_open_t2_x5", "llp_close_full_t1", "llp_bot_close_all_at_2"}, nil},
	"C06": {[]string{"/elys.leveragelp."}, []string{"gap_1d", "llp_open_t2_x5", "llp_close_full_t1", "bond_lp1_L", "unbond_lp2_half"}, nil},
	"C08": {[]string{"/elys.leveragelp.", "/elys.stablestake."}, []string{"llp_open_t2_x5", "llp_open_t1_x2_again", "llp_close_half_t1", "llp_close_full_t1", "llp_bot_close_all_at_2", "gap_61m"}, nil},
	"C09": {[]string{"/elys.perpetual.", "/elys.amm.MsgUpdateParams"}, []string{"perp_open_long_t3_x5", "perp_topup_t1", "perp_close_half_t1", "perp_close_full_t2", "perp_bot_close_all_at_3", "gap_1d"}, nil},
	// R2: pool 1 off its target weights (a halved threshold puts it in the bonus regime)
	"C11": {[]string{"/elys.perpetual.", "/elys.amm.MsgUpdateParams"}, []string{"perp_open_long_t3_x5", "perp_close_full_t1", "swap_in_p1_usdc_atom_L", "join_p1_all_t1", "exit_p1_10pct_lp1", "perp_bot_close_all_at_3", "join_p1_single_atom_t2", "join_p1_single_usdc_t1"}, []string{"R1", "R2"}},
	"C12": {[]string{"/elys.commitment.", "/elys.estaking.", "/elys.masterchef.MsgUpdateParams"}, []string{"commit_eden_lp1", "uncommit_eden_lp1", "unstake_elys_lp1", "vest_eden_lp1", "mc_claim_lp1", "unbond_lp2_half"}, nil},
	"C13": {[]string{"/elys.masterchef.", "/elys.estaking.", "/elys.amm.MsgUpdateParams"}, []string{"swap_in_p1_usdc_atom_L", "fee_tx_uatom", "mc_claim_lp1", "join_p2_big_t1", "exit_p2_half_lp1", "gap_1d", "join_p1_single_atom_t2", "join_p1_single_usdc_t1"}, nil},
	"C15": {[]string{"/elys.commitment.", "/elys.tokenomics.", "/elys.estaking."}, []string{"vest_eden_lp1", "claim_vesting_lp1", "vest_now_lp1", "mc_claim_lp1", "gap_1d", "stake_elys_lp1"}, nil},
}

var sameBlockSets = map[string][]string{
	"C01": {"swap_in_p1_usdc_atom_L", "swap_out_p1_atom_usdc_D", "join_p1_all_t1", "exit_p1_10pct_lp1", "feed_ext_liquidity_p1_deep", "perp_open_long_t3_x5", "fee_tx_uatom", "swap_by_denom_p1"},
	"C02": {"join_p2_all_t1", "join_p2_all_lp2", "exit_p2_half_lp1", "swap_in_p2_elys_usdc_D", "fee_tx_uelys", "fee_tx_uatom", "join_p1_all_t1", "exit_p1_10pct_lp1"},
}
